//! Reference side of the RLWE encryption layer (C01): exact phase of a size-2 ciphertext,
//! a-priori worst-case noise bounds of fresh encryptions, decryption thresholds.
//! Everything is schoolbook integer arithmetic (BigU / u128), independent of the library.

use super::bigu::{add_mod, centered, crt, inv_mod_u64, mul_mod, pow_mod, sub_mod, BigI, BigU};
use super::poly::bit_reverse;

/// Largest absolute value of an error coefficient (clipped centred binomial, 21+21 bits).
pub const ERR_MAX: u64 = 21;

/// Inverse of `poly::naive_ntt`: given A[i] = a(psi^(2*brv(i)+1)) returns a. O(N^2).
pub fn naive_intt(vals: &[u64], psi: u64, q: u64) -> Vec<u64> {
    let n = vals.len();
    let bits = n.trailing_zeros();
    let ninv = inv_mod_u64(n as u64 % q, q).expect("N invertible");
    let psi_inv = inv_mod_u64(psi, q).expect("psi invertible");
    // a_j = N^-1 * sum_i A_i * x_i^-j,  x_i = psi^(2 brv(i)+1)
    let xinv: Vec<u64> = (0..n).map(|i| pow_mod(psi_inv, 2 * bit_reverse(i, bits) as u64 + 1, q)).collect();
    (0..n)
        .map(|j| {
            let mut acc = 0u64;
            for i in 0..n {
                acc = add_mod(acc, mul_mod(vals[i] % q, pow_mod(xinv[i], j as u64, q), q), q);
            }
            mul_mod(acc, ninv, q)
        })
        .collect()
}

/// negacyclic product of a (mod q) with a small signed polynomial s
pub fn mul_small(a: &[u64], s: &[i64], q: u64) -> Vec<u64> {
    let n = a.len();
    let mut r = vec![0u64; n];
    for (j, &sj) in s.iter().enumerate() {
        if sj == 0 {
            continue;
        }
        let mag = sj.unsigned_abs() % q;
        for i in 0..n {
            let p = mul_mod(a[i] % q, mag, q);
            let k = i + j;
            let positive = (sj > 0) == (k < n);
            let idx = if k < n { k } else { k - n };
            r[idx] = if positive { add_mod(r[idx], p, q) } else { sub_mod(r[idx], p, q) };
        }
    }
    r
}

/// One level of the modulus chain as the reference sees it.
#[derive(Clone, Debug)]
pub struct Level {
    pub n: usize,
    pub moduli: Vec<u64>,
    /// primitive 2N-th roots defining the NTT ordering (one per modulus)
    pub roots: Vec<u64>,
    pub q: BigU,
}

impl Level {
    pub fn new(n: usize, moduli: Vec<u64>, roots: Vec<u64>) -> Self {
        let q = BigU::product(&moduli);
        Level { n, moduli, roots, q }
    }
    /// residues (component-major: modulus i occupies [i*N, (i+1)*N)) -> coefficient form per modulus
    pub fn coeff_form(&self, poly: &[u64], ntt: bool) -> Vec<Vec<u64>> {
        (0..self.moduli.len())
            .map(|i| {
                let r = &poly[i * self.n..(i + 1) * self.n];
                if ntt {
                    naive_intt(r, self.roots[i], self.moduli[i])
                } else {
                    r.to_vec()
                }
            })
            .collect()
    }
    /// CRT + centring of per-modulus coefficient vectors
    pub fn compose_centered(&self, comps: &[Vec<u64>]) -> Vec<BigI> {
        (0..self.n)
            .map(|j| {
                let res: Vec<u64> = comps.iter().map(|c| c[j]).collect();
                centered(&crt(&res, &self.moduli), &self.q)
            })
            .collect()
    }
    pub fn compose_unsigned(&self, comps: &[Vec<u64>]) -> Vec<BigU> {
        (0..self.n)
            .map(|j| {
                let res: Vec<u64> = comps.iter().map(|c| c[j]).collect();
                crt(&res, &self.moduli)
            })
            .collect()
    }
    /// c0 + c1*s per modulus, coefficient form
    pub fn phase_components(&self, c0: &[u64], c1: &[u64], ntt: bool, s: &[i64]) -> Vec<Vec<u64>> {
        let a0 = self.coeff_form(c0, ntt);
        let a1 = self.coeff_form(c1, ntt);
        (0..self.moduli.len())
            .map(|i| {
                let q = self.moduli[i];
                let p = mul_small(&a1[i], s, q);
                a0[i].iter().zip(&p).map(|(&x, &y)| add_mod(x % q, y, q)).collect()
            })
            .collect()
    }
}

/// A non-negative rational bound num/den.
#[derive(Clone, Debug)]
pub struct Bound {
    pub num: BigU,
    pub den: BigU,
}

impl Bound {
    pub fn int(v: u128) -> Self {
        Bound { num: BigU::from_u128(v), den: BigU::one() }
    }
    /// |x| <= self ?
    pub fn holds_for(&self, x: &BigI) -> bool {
        x.mag.mul(&self.den) <= self.num
    }
    pub fn to_f64(&self) -> f64 {
        self.num.to_f64() / self.den.to_f64()
    }
    /// self * k
    pub fn scale(&self, k: u64) -> Bound {
        Bound { num: self.num.mul_u64(k), den: self.den.clone() }
    }
    /// self + a/2
    pub fn plus_half_of(&self, a: u64) -> Bound {
        Bound { num: self.num.mul_u64(2).add(&self.den.mul_u64(a)), den: self.den.mul_u64(2) }
    }
}

#[derive(Clone, Copy, Debug, PartialEq, Eq)]
pub enum Sch {
    Bfv,
    Bgv,
    Ckks,
}

/// Largest magnitudes the small polynomials can take under the installed noise script
/// (worst case = real sampler: ternary 1, error 21; a `Zero` script gives 0).
#[derive(Clone, Copy, Debug, PartialEq, Eq)]
pub struct Mags {
    /// secret key
    pub s: u64,
    /// encryption mask u
    pub u: u64,
    /// error of the public key
    pub bk: u64,
    /// errors drawn by the encryption
    pub be: u64,
}

impl Mags {
    pub fn worst() -> Self {
        Mags { s: 1, u: 1, bk: ERR_MAX, be: ERR_MAX }
    }
}

/// Worst-case infinity norm of the phase noise of a fresh encryption of zero (BFV/CKKS: v with
/// phase = [Delta] m + v; BGV: t*e with phase = m + t*e), for secret s, mask u, key error e_k, fresh errors e_0, e_1:
///  * symmetric:                      |e_0|                                 <= be                      (BGV: x t)
///  * public key, no modulus switch:  |-e_k*u + e_0 + e_1*s|                <= bk*u*N + be + be*s*N    (BGV: x t)
///  * public key, switched by p:      that / p + |r_0 + r_1*s| with |r_i| <= 1/2 (rounding)            -> + (1 + s*N)/2
///                                    BGV: correction terms w_i in [0, t*p)                            -> + t*(1 + s*N)
///    (no rounding term when the ciphertext before the switch is identically zero: u = 0 and be = 0)
pub fn fresh_noise_bound(s: Sch, n: usize, t: u64, public_key: bool, dropped: Option<u64>, m: Mags) -> Bound {
    let n = n as u128;
    let tf: u128 = if s == Sch::Bgv { t as u128 } else { 1 };
    if !public_key {
        return Bound::int(m.be as u128 * tf);
    }
    let a = BigU::from_u128(m.bk as u128 * m.u as u128 * n + m.be as u128 + m.be as u128 * m.s as u128 * n).mul(&BigU::from_u128(tf));
    match dropped {
        None => Bound { num: a, den: BigU::one() },
        Some(p) => {
            if m.u == 0 && m.be == 0 {
                return Bound::int(0);
            }
            // a/p + c with c = (1+sN)/2 (BFV/CKKS) or t(1+sN) (BGV); common denominator 2p
            let r = 1 + m.s as u128 * n;
            let c2 = if s == Sch::Bgv { BigU::from_u128(2 * r).mul(&BigU::from_u128(tf)) } else { BigU::from_u128(r) };
            Bound { num: a.mul_u64(2).add(&c2.mul_u64(p)), den: BigU::from_u64(p).mul_u64(2) }
        }
    }
}

/// Is decryption guaranteed for noise bound v at total modulus q (margin 2^-10)?
///  BFV:  t*(2v+1)+1   < q*(1-2^-10)   (BEHZ scale-and-round, correction base gamma of 61 bits; the message is
///                                       scaled with an error of at most (t+1)/(2t))
///  BGV:  2v + t       < q*(1-2^-10)   (phase = m_centred + t e must not wrap; f64 rounding in the exact base conversion)
///  CKKS: 2(v + extra) < q*(1-2^-10)   (extra = max |message coefficient|)
pub fn noise_valid(s: Sch, v: &Bound, t: u64, q: &BigU, extra: &BigU) -> bool {
    let lhs_num = match s {
        Sch::Bfv => v.num.mul_u64(2).add(&v.den).mul_u64(t).add(&v.den),
        Sch::Bgv => v.num.mul_u64(2).add(&v.den.mul_u64(t)),
        Sch::Ckks => v.num.add(&extra.mul(&v.den)).mul_u64(2),
    };
    // lhs_num/den < q*1023/1024
    lhs_num.mul_u64(1024) < q.mul(&v.den).mul_u64(1023)
}

/// BFV: W = centred_{tQ}(t*phase - Q*m); must satisfy |W| <= t*v + (t+1)/2.
pub fn bfv_scaled_noise(phase_u: &BigU, m: u64, t: u64, q: &BigU) -> BigI {
    let tq = q.mul_u64(t);
    let a = phase_u.mul_u64(t).rem(&tq);
    let b = q.mul_u64(m).rem(&tq);
    let d = if a >= b { a.sub(&b) } else { a.add(&tq).sub(&b) };
    centered(&d, &tq)
}

/// smallest integer >= x for a finite x >= 0, exactly (no intermediate rounding)
pub fn ceil_to_bigu(x: f64) -> BigU {
    assert!(x.is_finite() && x >= 0.0);
    if x < 1.0 {
        return if x == 0.0 { BigU::zero() } else { BigU::one() };
    }
    let bits = x.to_bits();
    let exp = ((bits >> 52) & 0x7ff) as i64 - 1075;
    let mant = (bits & ((1u64 << 52) - 1)) | (1u64 << 52);
    if exp >= 0 {
        BigU::from_u64(mant).shl(exp as usize)
    } else {
        let sh = (-exp) as usize;
        let fl = mant >> sh;
        let frac = mant & ((1u64 << sh) - 1);
        BigU::from_u64(fl + (frac != 0) as u64)
    }
}
