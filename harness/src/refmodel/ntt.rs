//! Reference side of C09: the negacyclic transform *by its definition* (no butterflies), with a
//! power table and 128-bit accumulators so that O(N^2) stays affordable up to N = 2^13.
//! Everything here is cross-checked against the even simpler `poly::naive_ntt` / `poly::pmul`
//! for small N inside the C09 check itself.

use super::bigu::{inv_mod_u64, mul_mod, pow_mod};
use super::poly::bit_reverse;

/// Smallest primitive 2N-th root of unity modulo the prime q, without a linear search over
/// [1,q): take any element of order exactly 2N (x^((q-1)/2N) for the first x whose N-th power of
/// that is -1) and return the minimum over its N odd powers (these are all primitive 2N-th roots,
/// the unit group of a prime field being cyclic). None when 2N does not divide q-1.
pub fn min_primitive_root_2n_cyclic(n: usize, q: u64) -> Option<u64> {
    let two_n = 2 * n as u64;
    if q < 3 || (q - 1) % two_n != 0 {
        return None;
    }
    let e = (q - 1) / two_n;
    let mut g = 0u64;
    for x in 2..q {
        let c = pow_mod(x, e, q);
        if pow_mod(c, n as u64, q) == q - 1 {
            g = c;
            break;
        }
    }
    if g == 0 {
        return None;
    }
    let g2 = mul_mod(g, g, q);
    let mut cur = g;
    let mut best = g;
    for _ in 0..n {
        if cur < best {
            best = cur;
        }
        cur = mul_mod(cur, g2, q);
    }
    Some(best)
}

/// psi^e for e in 0..2N (repeated multiplication).
pub fn power_table(psi: u64, n: usize, q: u64) -> Vec<u64> {
    let mut t = Vec::with_capacity(2 * n);
    let mut p = 1u64 % q;
    for _ in 0..2 * n {
        t.push(p);
        p = mul_mod(p, psi, q);
    }
    t
}

/// sum of x_j * y_j mod q with a 128-bit accumulator (operands below 2^61)
fn dot_acc(pairs: impl Iterator<Item = (u64, u64)>, q: u64) -> u64 {
    let mut acc: u128 = 0;
    let mut cnt = 0u32;
    for (x, y) in pairs {
        acc += x as u128 * y as u128;
        cnt += 1;
        if cnt == 32 {
            acc %= q as u128;
            cnt = 0;
        }
    }
    (acc % q as u128) as u64
}

/// Forward transform by definition: out[i] = sum_j a_j * psi^((2*brv(i)+1)*j)   (a reduced first).
pub fn ntt_by_definition(a: &[u64], ptab: &[u64], q: u64) -> Vec<u64> {
    let n = a.len();
    let bits = n.trailing_zeros();
    let ar: Vec<u64> = a.iter().map(|&x| x % q).collect();
    let mask = 2 * n - 1;
    (0..n)
        .map(|i| {
            let e = 2 * bit_reverse(i, bits) + 1;
            dot_acc(ar.iter().enumerate().map(|(j, &x)| (x, ptab[(e * j) & mask])), q)
        })
        .collect()
}

/// Inverse transform by definition: a_j = N^-1 * sum_i y_i * psi^(-(2*brv(i)+1)*j).
pub fn intt_by_definition(y: &[u64], ptab: &[u64], q: u64) -> Vec<u64> {
    let n = y.len();
    let bits = n.trailing_zeros();
    let yr: Vec<u64> = y.iter().map(|&x| x % q).collect();
    let mask = 2 * n - 1;
    let ninv = inv_mod_u64(n as u64 % q, q).expect("N invertible modulo q");
    let es: Vec<usize> = (0..n).map(|i| 2 * bit_reverse(i, bits) + 1).collect();
    (0..n)
        .map(|j| {
            let s = dot_acc(yr.iter().enumerate().map(|(i, &x)| (x, ptab[(2 * n - ((es[i] * j) & mask)) & mask])), q);
            mul_mod(s, ninv, q)
        })
        .collect()
}

/// Forward transform of c * X^j (O(N)).
pub fn ntt_unit(j: usize, c: u64, n: usize, ptab: &[u64], q: u64) -> Vec<u64> {
    let bits = n.trailing_zeros();
    let mask = 2 * n - 1;
    let c = c % q;
    (0..n).map(|i| mul_mod(c, ptab[((2 * bit_reverse(i, bits) + 1) * j) & mask], q)).collect()
}

/// Inverse transform of the vector c * e_i (O(N)).
pub fn intt_unit(i: usize, c: u64, n: usize, ptab: &[u64], q: u64) -> Vec<u64> {
    let bits = n.trailing_zeros();
    let mask = 2 * n - 1;
    let ninv = inv_mod_u64(n as u64 % q, q).expect("N invertible modulo q");
    let s = mul_mod(c % q, ninv, q);
    let e = 2 * bit_reverse(i, bits) + 1;
    (0..n).map(|j| mul_mod(s, ptab[(2 * n - ((e * j) & mask)) & mask], q)).collect()
}

/// Negacyclic product with 128-bit accumulators (operands reduced first).
pub fn negacyclic_mul(a: &[u64], b: &[u64], q: u64) -> Vec<u64> {
    let n = a.len();
    assert_eq!(n, b.len());
    let ar: Vec<u64> = a.iter().map(|&x| x % q).collect();
    let br: Vec<u64> = b.iter().map(|&x| x % q).collect();
    (0..n)
        .map(|k| {
            let pos = dot_acc((0..=k).map(|i| (ar[i], br[k - i])), q);
            let neg = dot_acc((k + 1..n).map(|i| (ar[i], br[n + k - i])), q);
            (pos + q - neg) % q
        })
        .collect()
}

// ---------------------------------------------------------------------------------------------
// O(N log N) reference for large degrees. A textbook radix-2 *cyclic* FFT over Z_q (bit-reversal
// permutation followed by decimation-in-time butterflies, no lazy ranges, every product fully
// reduced) plus the twist a_k -> a_k psi^k that turns it into the negacyclic transform. It shares
// no code and no butterfly structure with the library's Harvey transform and is itself validated
// against the by-definition transform above (`selftest_fast`, run by every check that uses it).
// ---------------------------------------------------------------------------------------------

/// in-place cyclic DFT: out[m] = sum_k a[k] * w^(m*k), w a primitive n-th root of unity mod q
pub fn cyclic_fft(a: &mut [u64], w: u64, q: u64) {
    let n = a.len();
    assert!(n.is_power_of_two());
    let bits = n.trailing_zeros();
    for i in 0..n {
        let j = bit_reverse(i, bits);
        if i < j {
            a.swap(i, j);
        }
    }
    let mut len = 2;
    while len <= n {
        let wl = pow_mod(w, (n / len) as u64, q);
        for start in (0..n).step_by(len) {
            let mut x = 1u64;
            for k in 0..len / 2 {
                let u = a[start + k];
                let v = mul_mod(a[start + k + len / 2], x, q);
                a[start + k] = if u + v >= q { u + v - q } else { u + v };
                a[start + k + len / 2] = if u >= v { u - v } else { u + q - v };
                x = mul_mod(x, wl, q);
            }
        }
        len *= 2;
    }
}

/// forward negacyclic transform in the documented order: out[i] = a(psi^(2*brv(i)+1))
pub fn fast_ntt(a: &[u64], psi: u64, q: u64) -> Vec<u64> {
    let n = a.len();
    let bits = n.trailing_zeros();
    let mut b: Vec<u64> = vec![0; n];
    let mut p = 1u64;
    for k in 0..n {
        b[k] = mul_mod(a[k] % q, p, q);
        p = mul_mod(p, psi, q);
    }
    if n > 1 {
        cyclic_fft(&mut b, mul_mod(psi, psi, q), q);
    }
    (0..n).map(|i| b[bit_reverse(i, bits)]).collect()
}

/// inverse of `fast_ntt`
pub fn fast_intt(y: &[u64], psi: u64, q: u64) -> Vec<u64> {
    let n = y.len();
    let bits = n.trailing_zeros();
    let mut b: Vec<u64> = (0..n).map(|m| y[bit_reverse(m, bits)] % q).collect();
    let psi_inv = inv_mod_u64(psi, q).expect("root invertible");
    if n > 1 {
        cyclic_fft(&mut b, mul_mod(psi_inv, psi_inv, q), q);
    }
    let ninv = inv_mod_u64(n as u64 % q, q).expect("N invertible modulo q");
    let mut p = ninv;
    for k in 0..n {
        b[k] = mul_mod(b[k], p, q);
        p = mul_mod(p, psi_inv, q);
    }
    b
}

/// a*b mod (X^N+1, q) through the fast transform
pub fn fast_negacyclic_mul(a: &[u64], b: &[u64], psi: u64, q: u64) -> Vec<u64> {
    let fa = fast_ntt(a, psi, q);
    let fb = fast_ntt(b, psi, q);
    let fc: Vec<u64> = fa.iter().zip(&fb).map(|(&x, &y)| mul_mod(x, y, q)).collect();
    fast_intt(&fc, psi, q)
}

/// fast transform == transform by definition, inverse, product, for N = 1..256 and three moduli each
pub fn selftest_fast() -> Result<usize, String> {
    let mut cnt = 0;
    for logn in 0..=8usize {
        let n = 1usize << logn;
        let mut found = 0;
        let mut q = (1u64 << 20) / (2 * n as u64) * (2 * n as u64) + 1;
        while found < 3 {
            q += 2 * n as u64;
            // primality first: the root search scans all of [2, q) on a composite modulus
            if !(2..q).take_while(|d| d * d <= q).all(|d| q % d != 0) {
                continue;
            }
            let Some(psi) = min_primitive_root_2n_cyclic(n, q) else { continue };
            found += 1;
            let ptab = power_table(psi, n, q);
            let a: Vec<u64> = (0..n as u64).map(|i| (i * i * 7919 + 13 * i + q - 5) % q).collect();
            let b: Vec<u64> = (0..n as u64).map(|i| (q - 1 - (i * 31337) % q) % q).collect();
            let fa = fast_ntt(&a, psi, q);
            if fa != ntt_by_definition(&a, &ptab, q) {
                return Err(format!("fast_ntt != definition at N={n} q={q}"));
            }
            if fast_intt(&fa, psi, q) != a || fast_intt(&b, psi, q) != intt_by_definition(&b, &ptab, q) {
                return Err(format!("fast_intt != definition at N={n} q={q}"));
            }
            if fast_negacyclic_mul(&a, &b, psi, q) != negacyclic_mul(&a, &b, q) {
                return Err(format!("fast_negacyclic_mul != schoolbook at N={n} q={q}"));
            }
            cnt += 3;
        }
    }
    Ok(cnt)
}
