//! Naive O(N^2) canonical embedding C^(N/2) <-> R[X]/(X^N+1) in the slot order of the CKKS
//! encoder, written from the definition with `sin`/`cos` (no FFT, no shared root tables), plus
//! exact conversions between `f64` and the boring big integers of `bigu`.
//!
//! Slot order: slot j (0 <= j < N/2) is the evaluation point zeta^(g_j) with zeta = exp(i*pi/N)
//! (a primitive 2N-th root of unity) and g_j = 3^j mod 2N; the remaining N/2 evaluation points are
//! the complex conjugates zeta^(-g_j), where a real polynomial takes the conjugate values.

use super::bigu::{BigI, BigU};

/// g_j = 3^j mod 2N for j in 0..N/2
pub fn slot_exponents(n: usize) -> Vec<usize> {
    let m = 2 * n;
    let mut g = Vec::with_capacity(n / 2);
    let mut pos = 1usize;
    for _ in 0..n / 2 {
        g.push(pos);
        pos = (pos * 3) % m;
    }
    g
}

/// exp(i*pi*t/n) as (cos, sin); exact on the four axes
pub fn unit(n: usize, t: usize) -> (f64, f64) {
    let t = t % (2 * n);
    if (2 * t) % n == 0 {
        return match (2 * t) / n {
            0 => (1.0, 0.0),
            1 => (0.0, 1.0),
            2 => (-1.0, 0.0),
            _ => (0.0, -1.0),
        };
    }
    let a = std::f64::consts::PI * (t as f64) / (n as f64);
    (a.cos(), a.sin())
}

/// Coefficients x_0..x_{N-1} of the unique real polynomial p of degree < N with p(zeta^(g_j)) = z_j
/// (missing slots are 0):  x_k = (2/N) * sum_j Re( z_j * zeta^(-g_j k) ).
pub fn inv_embed(vals: &[(f64, f64)], n: usize) -> Vec<f64> {
    let g = slot_exponents(n);
    assert!(vals.len() <= g.len());
    (0..n)
        .map(|k| {
            let mut s = 0.0f64;
            for (j, &(re, im)) in vals.iter().enumerate() {
                let (c, sn) = unit(n, (g[j] * k) % (2 * n));
                // Re( (re + i im) * (c - i sn) ) = re*c + im*sn
                s += re * c + im * sn;
            }
            s * 2.0 / (n as f64)
        })
        .collect()
}

/// slot values p(zeta^(g_j)), j in 0..N/2
pub fn fwd_embed(coeffs: &[f64], n: usize) -> Vec<(f64, f64)> {
    let g = slot_exponents(n);
    g.iter()
        .map(|&gj| {
            let (mut re, mut im) = (0.0f64, 0.0f64);
            for (k, &x) in coeffs.iter().enumerate() {
                let (c, s) = unit(n, (gj * k) % (2 * n));
                re += x * c;
                im += x * s;
            }
            (re, im)
        })
        .collect()
}

/// finite x = (-1)^neg * mant * 2^exp with an integer mantissa below 2^53
pub fn f64_parts(x: f64) -> (bool, u64, i32) {
    assert!(x.is_finite());
    let b = x.to_bits();
    let neg = b >> 63 == 1;
    let ef = ((b >> 52) & 0x7ff) as i32;
    let frac = b & ((1u64 << 52) - 1);
    if ef == 0 {
        (neg, frac, -1074)
    } else {
        (neg, frac | (1u64 << 52), ef - 1075)
    }
}

/// round-half-away-from-zero of (-1)^neg * m * 2^e, m < 2^128
fn round_scaled(neg: bool, m: u128, e: i32) -> BigI {
    if m == 0 {
        return BigI::new(false, BigU::zero());
    }
    if e >= 0 {
        return BigI::new(neg, BigU::from_u128(m).shl(e as usize));
    }
    let s = (-e) as u32;
    if s > 128 {
        return BigI::new(false, BigU::zero());
    }
    let int = if s == 128 { 0 } else { m >> s };
    let half = (m >> (s - 1)) & 1;
    BigI::new(neg, BigU::from_u128(int).add(&BigU::from_u64(half as u64)))
}

/// the integer `x.round()` (ties away from zero) as a big integer, exactly
pub fn big_round_f64(x: f64) -> BigI {
    let (neg, m, e) = f64_parts(x);
    round_scaled(neg, m as u128, e)
}

/// round-half-away-from-zero of the EXACT product a*b, and whether that product is itself a
/// double (then `(a*b).round()` computed in doubles is the same integer)
pub fn big_round_product(a: f64, b: f64) -> (BigI, bool) {
    let (na, ma, ea) = f64_parts(a);
    let (nb, mb, eb) = f64_parts(b);
    let m = ma as u128 * mb as u128;
    let e = ea + eb;
    let r = round_scaled(na != nb, m, e);
    let exact = if m == 0 {
        true
    } else {
        let tz = m.trailing_zeros();
        let sig = m >> tz;
        let top = e + tz as i32 + (128 - sig.leading_zeros() as i32); // value < 2^top
        sig < (1u128 << 53) && top <= 1024 && e + tz as i32 >= -1074
    };
    (r, exact)
}

pub fn selftest() -> Result<u64, String> {
    let mut cnt = 0u64;
    // f64 <-> big integer
    for &x in &[0.0f64, -0.0, 0.4999, 0.5, -0.5, 1.5, -2.5, 3.0, 1e6, 5e15 + 0.5, -(2f64.powi(53) - 1.0), 2f64.powi(64), -2f64.powi(200) * 1.25] {
        let r = big_round_f64(x);
        if r.to_f64() != x.round() {
            return Err(format!("big_round_f64({x}) = {r:?}"));
        }
        cnt += 1;
    }
    for &(a, b) in &[(3.0f64, 2f64.powi(66)), (0.25, 2.0), (-0.25, 2.0), (1.0 + 2f64.powi(-52), 2f64.powi(64)), (1e6, 1e6), (0.1, 10.0), (-5e6, 1.0), (0.75, 0.5)] {
        let (r, ex) = big_round_product(a, b);
        let p = a * b;
        if ex && r.to_f64() != p.round() {
            return Err(format!("big_round_product({a},{b}) = {r:?} vs {p}"));
        }
        if !ex && (r.to_f64() - p.round()).abs() > 1.0 + p.abs() * 2f64.powi(-52) {
            return Err(format!("big_round_product({a},{b}) inexact branch = {r:?} vs {p}"));
        }
        cnt += 1;
    }
    if big_round_product(0.1, 10.0).1 {
        return Err("0.1*10 reported exact".into());
    }
    // embedding: forward o inverse = identity; slot exponents are the odd residues, each once with its negative
    for logn in 1..=6 {
        let n = 1usize << logn;
        let g = slot_exponents(n);
        let mut seen = vec![false; 2 * n];
        for &x in &g {
            if x % 2 == 0 || seen[x] || seen[2 * n - x] {
                return Err(format!("slot exponents for N={n} do not split the odd residues: {g:?}"));
            }
            seen[x] = true;
            seen[2 * n - x] = true;
        }
        let vals: Vec<(f64, f64)> = (0..n / 2).map(|j| (1.0 + j as f64 * 0.37, -2.0 + (j * j) as f64 * 0.11)).collect();
        let x = inv_embed(&vals, n);
        let back = fwd_embed(&x, n);
        for j in 0..n / 2 {
            if (back[j].0 - vals[j].0).abs() > 1e-11 || (back[j].1 - vals[j].1).abs() > 1e-11 {
                return Err(format!("embedding round trip N={n} slot {j}: {:?} vs {:?}", back[j], vals[j]));
            }
            cnt += 1;
        }
    }
    Ok(cnt)
}
