//! Independent reference for C16: the seeded byte stream (recomputed with the `blake3` crate
//! directly), the cursor specification of `next_u32` / `next_u64` / `fill_bytes`, and the three
//! samplers as functions of the generator output.
//!
//! Stream definition (the thing a seed-compressed object relies on):
//!   block(seed, k) = blake3(seed[0..64] || k as 8 little-endian bytes).xof(4096)
//!   stream(seed)   = block(seed,0) || block(seed,1) || ...
//!
//! Cursor specification, in terms of the absolute offset `off` into stream(seed) (initially 0):
//!   fill_bytes(n): returns stream[off .. off+n];                    off += n
//!   next_u32():    off = round_up(off, 4); little-endian u32 at off; off += 4
//!   next_u64():    off = round_up(off, 8); little-endian u64 at off; off += 8
//! i.e. the word reads SKIP up to 3 resp. 7 bytes (they are not a chunking of the byte stream).
//! Because 4096 is a multiple of 8 this is the same as aligning the cursor inside the buffer and
//! discarding the (fewer than 4 resp. 8) tail bytes of a block.

pub const BLOCK: usize = 4096;

pub fn ref_block(seed: &[u8; 64], counter: u64) -> Vec<u8> {
    let mut h = blake3::Hasher::new();
    h.update(seed);
    h.update(&counter.to_le_bytes());
    let mut out = vec![0u8; BLOCK];
    h.finalize_xof().fill(&mut out);
    out
}

/// Lazily extended reference stream of one seed.
pub struct RefStream {
    pub seed: [u8; 64],
    data: Vec<u8>,
}

impl RefStream {
    pub fn new(seed: [u8; 64]) -> Self {
        RefStream { seed, data: vec![] }
    }
    fn ensure(&mut self, end: usize) {
        while self.data.len() < end {
            let k = (self.data.len() / BLOCK) as u64;
            let b = ref_block(&self.seed, k);
            self.data.extend_from_slice(&b);
        }
    }
    pub fn bytes(&mut self, off: usize, len: usize) -> &[u8] {
        self.ensure(off + len);
        &self.data[off..off + len]
    }
    pub fn prefix(&mut self, len: usize) -> Vec<u8> {
        self.bytes(0, len).to_vec()
    }
}

/// The cursor specification.
pub struct Cursor {
    pub off: usize,
}

impl Cursor {
    pub fn new() -> Self {
        Cursor { off: 0 }
    }
    pub fn fill(&mut self, s: &mut RefStream, n: usize) -> Vec<u8> {
        let v = s.bytes(self.off, n).to_vec();
        self.off += n;
        v
    }
    pub fn u32(&mut self, s: &mut RefStream) -> u32 {
        self.off = (self.off + 3) / 4 * 4;
        let b = s.bytes(self.off, 4);
        let v = u32::from_le_bytes([b[0], b[1], b[2], b[3]]);
        self.off += 4;
        v
    }
    pub fn u64(&mut self, s: &mut RefStream) -> u64 {
        self.off = (self.off + 7) / 8 * 8;
        let b = s.bytes(self.off, 8);
        let mut a = [0u8; 8];
        a.copy_from_slice(b);
        self.off += 8;
        u64::from_le_bytes(a)
    }
}

impl Default for Cursor {
    fn default() -> Self {
        Self::new()
    }
}

// ---------------------------------------------------------------------------------------------
// unbiased integer sampling rule (the one of rand 0.8.5 `UniformInt::sample`, stated
// arithmetically): a W-bit draw v is mapped to (hi, lo) = divmod(v * range, 2^W); it is accepted
// iff lo < 2^W - (2^W mod range)  [= range * floor(2^W / range)], and then yields low + hi.
// Every output value has exactly floor(2^W / range) accepted draws, hence no bias.
// (rand computes ints_to_reject = (2^W - range) mod range = 2^W mod range and accepts lo <= 2^W-1-ints_to_reject.)
// ---------------------------------------------------------------------------------------------

/// `Some(hi)` when the draw is accepted, `None` when it is rejected. `w` = 32 or 64.
pub fn unbiased_accept(v: u64, range: u64, w: u32) -> Option<u64> {
    assert!(range >= 1 && (w == 32 || w == 64));
    let two_w: u128 = 1u128 << w;
    assert!((v as u128) < two_w && (range as u128) < two_w);
    let m = v as u128 * range as u128;
    let hi = (m >> w) as u64;
    let lo = m & (two_w - 1);
    let limit = two_w - (two_w % range as u128);
    if lo < limit {
        Some(hi)
    } else {
        None
    }
}

/// Closed form of the ternary sampler's map on one u32 draw (Uniform::new_inclusive(-1, 1)):
/// the only rejected draw is 0x5555_5555; below it -1, up to 0xAAAA_AAAA 0, above +1.
pub fn ternary_closed_form(v: u32) -> Option<i32> {
    const REJ: u32 = 0x5555_5555;
    const T2: u32 = 0xAAAA_AAAB; // ceil(2 * 2^32 / 3)
    if v == REJ {
        None
    } else if v < REJ {
        Some(-1)
    } else if v < T2 {
        Some(0)
    } else {
        Some(1)
    }
}

/// number of draws in [a, b) of each closed-form class: (-1, 0, +1, rejected)
pub fn ternary_interval_counts(a: u64, b: u64) -> [u64; 4] {
    let cut = |x: u64| x.clamp(a, b);
    let rej = 0x5555_5555u64;
    let t2 = 0xAAAA_AAABu64;
    let minus = cut(rej) - cut(0);
    let rejected = cut(rej + 1) - cut(rej);
    let zero = cut(t2) - cut(rej + 1);
    let plus = cut(1u64 << 32) - cut(t2);
    [minus, zero, plus, rejected]
}

/// centered binomial sample from 6 generator bytes
pub fn cbd_ref(x: &[u8]) -> i32 {
    let pc = |b: u8| b.count_ones() as i32;
    pc(x[0]) + pc(x[1]) + pc(x[2] & 0x1f) - pc(x[3]) - pc(x[4]) - pc(x[5] & 0x1f)
}

/// residue of a small signed value
pub fn signed_residue(v: i64, q: u64) -> u64 {
    let r = v.rem_euclid(q as i64);
    r as u64
}

/// Reference expansion of a uniform polynomial (RNS components in order, N coefficients each) from
/// a reference stream: what `expand_seed` must produce from the 64 stored seed bytes.
pub fn uniform_from_stream(s: &mut RefStream, n: usize, moduli: &[u64]) -> Vec<u64> {
    let mut cur = Cursor::new();
    let mut out = Vec::with_capacity(n * moduli.len());
    for &q in moduli {
        for _ in 0..n {
            loop {
                let v = cur.u64(s);
                if let Some(hi) = unbiased_accept(v, q, 64) {
                    out.push(hi);
                    break;
                }
            }
        }
    }
    out
}

/// Pascal triangle row
pub fn binomials(n: usize) -> Vec<u64> {
    let mut row = vec![1u64];
    for _ in 0..n {
        let mut next = vec![1u64; row.len() + 1];
        for i in 1..row.len() {
            next[i] = row[i - 1] + row[i];
        }
        row = next;
    }
    row
}

/// self-test of the closed forms against the generic rule (cheap, run by the module's sections)
pub fn selfcheck() -> Result<(), String> {
    // ternary: closed form == generic rule on a lattice and around the thresholds
    let mut probe: Vec<u32> = (0..1u64 << 16).map(|i| (i << 16 | (i ^ 0x5555)) as u32).collect();
    for c in [0u32, 0x5555_5555, 0xAAAA_AAAA, 0xAAAA_AAAB, u32::MAX] {
        for d in 0..64u32 {
            probe.push(c.wrapping_add(d));
            probe.push(c.wrapping_sub(d));
        }
    }
    for v in probe {
        let g = unbiased_accept(v as u64, 3, 32).map(|h| h as i32 - 1);
        if g != ternary_closed_form(v) {
            return Err(format!("ternary closed form differs from the generic rule at {v:#x}"));
        }
    }
    let t = ternary_interval_counts(0, 1 << 32);
    if t != [1431655765, 1431655765, 1431655765, 1] {
        return Err(format!("ternary class sizes {t:?}"));
    }
    // generic rule: every output has exactly floor(2^W/range) preimages, on an 8-bit miniature
    for range in 1u64..=255 {
        let mut cnt = vec![0u64; range as usize];
        for v in 0u64..256 {
            let m = v * range;
            let (hi, lo) = (m >> 8, m & 255);
            if lo < 256 - (256 % range) {
                cnt[hi as usize] += 1;
            }
        }
        if cnt.iter().any(|&c| c != 256 / range) {
            return Err(format!("8-bit miniature of the rule is biased for range {range}"));
        }
    }
    if binomials(21).iter().sum::<u64>() != 1 << 21 {
        return Err("binomials".into());
    }
    Ok(())
}
