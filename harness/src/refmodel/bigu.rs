//! Boring arbitrary-precision unsigned integers (little-endian u64 limbs, always normalised:
//! no trailing zero limb). Schoolbook algorithms only; division is bit-by-bit long division.
//! Self-tested exhaustively against u128 in `selftest()`.

use std::cmp::Ordering;

#[derive(Clone, Debug, PartialEq, Eq, Hash, Default)]
pub struct BigU(pub Vec<u64>);

impl BigU {
    pub fn zero() -> Self {
        BigU(vec![])
    }
    pub fn one() -> Self {
        BigU(vec![1])
    }
    pub fn from_u64(v: u64) -> Self {
        let mut b = BigU(vec![v]);
        b.norm();
        b
    }
    pub fn from_u128(v: u128) -> Self {
        let mut b = BigU(vec![v as u64, (v >> 64) as u64]);
        b.norm();
        b
    }
    pub fn from_limbs(l: &[u64]) -> Self {
        let mut b = BigU(l.to_vec());
        b.norm();
        b
    }
    fn norm(&mut self) {
        while let Some(&0) = self.0.last() {
            self.0.pop();
        }
    }
    pub fn is_zero(&self) -> bool {
        self.0.is_empty()
    }
    pub fn limbs(&self, n: usize) -> Vec<u64> {
        let mut v = self.0.clone();
        assert!(v.len() <= n, "BigU does not fit {n} limbs");
        v.resize(n, 0);
        v
    }
    /// low n limbs (truncating)
    pub fn low_limbs(&self, n: usize) -> Vec<u64> {
        let mut v = self.0.clone();
        v.resize(n.max(v.len()), 0);
        v.truncate(n);
        v
    }
    pub fn bits(&self) -> usize {
        match self.0.last() {
            None => 0,
            Some(&t) => 64 * (self.0.len() - 1) + (64 - t.leading_zeros() as usize),
        }
    }
    pub fn bit(&self, i: usize) -> bool {
        let (w, b) = (i / 64, i % 64);
        w < self.0.len() && (self.0[w] >> b) & 1 == 1
    }
    pub fn to_u64(&self) -> Option<u64> {
        match self.0.len() {
            0 => Some(0),
            1 => Some(self.0[0]),
            _ => None,
        }
    }
    pub fn to_u128(&self) -> Option<u128> {
        match self.0.len() {
            0 => Some(0),
            1 => Some(self.0[0] as u128),
            2 => Some(self.0[0] as u128 | (self.0[1] as u128) << 64),
            _ => None,
        }
    }
    pub fn to_f64(&self) -> f64 {
        let mut r = 0.0f64;
        for &l in self.0.iter().rev() {
            r = r * 18446744073709551616.0 + l as f64;
        }
        r
    }
    pub fn add(&self, o: &BigU) -> BigU {
        let n = self.0.len().max(o.0.len());
        let mut r = Vec::with_capacity(n + 1);
        let mut c = 0u128;
        for i in 0..n {
            let s = *self.0.get(i).unwrap_or(&0) as u128 + *o.0.get(i).unwrap_or(&0) as u128 + c;
            r.push(s as u64);
            c = s >> 64;
        }
        if c != 0 {
            r.push(c as u64);
        }
        let mut b = BigU(r);
        b.norm();
        b
    }
    /// self - o, requires self >= o
    pub fn sub(&self, o: &BigU) -> BigU {
        assert!(self >= o, "BigU::sub underflow");
        let mut r = Vec::with_capacity(self.0.len());
        let mut borrow = 0i128;
        for i in 0..self.0.len() {
            let mut d = self.0[i] as i128 - *o.0.get(i).unwrap_or(&0) as i128 - borrow;
            if d < 0 {
                d += 1i128 << 64;
                borrow = 1;
            } else {
                borrow = 0;
            }
            r.push(d as u64);
        }
        let mut b = BigU(r);
        b.norm();
        b
    }
    pub fn mul(&self, o: &BigU) -> BigU {
        if self.is_zero() || o.is_zero() {
            return BigU::zero();
        }
        let mut r = vec![0u64; self.0.len() + o.0.len()];
        for i in 0..self.0.len() {
            let mut c = 0u128;
            for j in 0..o.0.len() {
                let t = self.0[i] as u128 * o.0[j] as u128 + r[i + j] as u128 + c;
                r[i + j] = t as u64;
                c = t >> 64;
            }
            let mut k = i + o.0.len();
            while c != 0 {
                let t = r[k] as u128 + c;
                r[k] = t as u64;
                c = t >> 64;
                k += 1;
            }
        }
        let mut b = BigU(r);
        b.norm();
        b
    }
    pub fn mul_u64(&self, o: u64) -> BigU {
        self.mul(&BigU::from_u64(o))
    }
    pub fn shl(&self, s: usize) -> BigU {
        if self.is_zero() {
            return BigU::zero();
        }
        let (w, b) = (s / 64, s % 64);
        let mut r = vec![0u64; w];
        let mut carry = 0u64;
        for &l in &self.0 {
            if b == 0 {
                r.push(l);
            } else {
                r.push((l << b) | carry);
                carry = l >> (64 - b);
            }
        }
        if carry != 0 {
            r.push(carry);
        }
        let mut x = BigU(r);
        x.norm();
        x
    }
    pub fn shr(&self, s: usize) -> BigU {
        let (w, b) = (s / 64, s % 64);
        if w >= self.0.len() {
            return BigU::zero();
        }
        let mut r = Vec::with_capacity(self.0.len() - w);
        for i in w..self.0.len() {
            let lo = self.0[i] >> b;
            let hi = if b == 0 { 0 } else { self.0.get(i + 1).map(|x| x << (64 - b)).unwrap_or(0) };
            r.push(lo | hi);
        }
        let mut x = BigU(r);
        x.norm();
        x
    }
    /// (quotient, remainder); panics on division by zero
    pub fn divrem(&self, d: &BigU) -> (BigU, BigU) {
        assert!(!d.is_zero(), "BigU division by zero");
        if self < d {
            return (BigU::zero(), self.clone());
        }
        let mut q = vec![0u64; self.0.len()];
        let mut r = BigU::zero();
        for i in (0..self.bits()).rev() {
            r = r.shl(1);
            if self.bit(i) {
                r = r.add(&BigU::one());
            }
            if &r >= d {
                r = r.sub(d);
                q[i / 64] |= 1u64 << (i % 64);
            }
        }
        let mut qb = BigU(q);
        qb.norm();
        (qb, r)
    }
    pub fn rem(&self, d: &BigU) -> BigU {
        self.divrem(d).1
    }
    pub fn div(&self, d: &BigU) -> BigU {
        self.divrem(d).0
    }
    pub fn rem_u64(&self, d: u64) -> u64 {
        assert!(d != 0);
        let mut r = 0u128;
        for &l in self.0.iter().rev() {
            r = ((r << 64) | l as u128) % d as u128;
        }
        r as u64
    }
    pub fn pow2(k: usize) -> BigU {
        BigU::one().shl(k)
    }
    pub fn product(v: &[u64]) -> BigU {
        let mut p = BigU::one();
        for &x in v {
            p = p.mul_u64(x);
        }
        p
    }
    pub fn to_hex(&self) -> String {
        if self.is_zero() {
            return "0x0".into();
        }
        let mut s = String::from("0x");
        for (i, l) in self.0.iter().rev().enumerate() {
            if i == 0 {
                s += &format!("{:x}", l);
            } else {
                s += &format!("{:016x}", l);
            }
        }
        s
    }
}

impl PartialOrd for BigU {
    fn partial_cmp(&self, o: &Self) -> Option<Ordering> {
        Some(self.cmp(o))
    }
}
impl Ord for BigU {
    fn cmp(&self, o: &Self) -> Ordering {
        if self.0.len() != o.0.len() {
            return self.0.len().cmp(&o.0.len());
        }
        for i in (0..self.0.len()).rev() {
            if self.0[i] != o.0[i] {
                return self.0[i].cmp(&o.0[i]);
            }
        }
        Ordering::Equal
    }
}

/// Signed big integer as (negative?, magnitude); zero is never negative.
#[derive(Clone, Debug, PartialEq, Eq)]
pub struct BigI {
    pub neg: bool,
    pub mag: BigU,
}

impl BigI {
    pub fn from_u(m: BigU) -> Self {
        BigI { neg: false, mag: m }
    }
    pub fn new(neg: bool, mag: BigU) -> Self {
        let neg = neg && !mag.is_zero();
        BigI { neg, mag }
    }
    pub fn from_i128(v: i128) -> Self {
        BigI::new(v < 0, BigU::from_u128(v.unsigned_abs()))
    }
    pub fn add(&self, o: &BigI) -> BigI {
        if self.neg == o.neg {
            BigI::new(self.neg, self.mag.add(&o.mag))
        } else if self.mag >= o.mag {
            BigI::new(self.neg, self.mag.sub(&o.mag))
        } else {
            BigI::new(o.neg, o.mag.sub(&self.mag))
        }
    }
    pub fn negate(&self) -> BigI {
        BigI::new(!self.neg, self.mag.clone())
    }
    pub fn sub(&self, o: &BigI) -> BigI {
        self.add(&o.negate())
    }
    pub fn mul(&self, o: &BigI) -> BigI {
        BigI::new(self.neg != o.neg, self.mag.mul(&o.mag))
    }
    /// residue in [0, m)
    pub fn rem_u(&self, m: &BigU) -> BigU {
        let r = self.mag.rem(m);
        if self.neg && !r.is_zero() {
            m.sub(&r)
        } else {
            r
        }
    }
    pub fn rem_u64(&self, m: u64) -> u64 {
        let r = self.mag.rem_u64(m);
        if self.neg && r != 0 {
            m - r
        } else {
            r
        }
    }
    /// floor division by a positive m
    pub fn div_floor(&self, m: &BigU) -> BigI {
        let (q, r) = self.mag.divrem(m);
        if self.neg {
            if r.is_zero() {
                BigI::new(true, q)
            } else {
                BigI::new(true, q.add(&BigU::one()))
            }
        } else {
            BigI::new(false, q)
        }
    }
    pub fn to_f64(&self) -> f64 {
        let m = self.mag.to_f64();
        if self.neg {
            -m
        } else {
            m
        }
    }
    pub fn cmp(&self, o: &BigI) -> Ordering {
        match (self.neg, o.neg) {
            (false, true) => Ordering::Greater,
            (true, false) => Ordering::Less,
            (false, false) => self.mag.cmp(&o.mag),
            (true, true) => o.mag.cmp(&self.mag),
        }
    }
}

/// centred representative of x mod m in (-m/2, m/2] ... precisely: x if x <= floor((m-1)/2)... see body
pub fn centered(x: &BigU, m: &BigU) -> BigI {
    // representative r with -m/2 <= r < m/2 (for even m: -m/2 included)
    let x = x.rem(m);
    let twice = x.shl(1);
    if &twice >= m {
        BigI::new(true, m.sub(&x))
    } else {
        BigI::new(false, x)
    }
}

/// Chinese remainder composition: the unique x in [0, prod) with x = r_i (mod m_i); moduli must
/// be pairwise coprime.
pub fn crt(residues: &[u64], moduli: &[u64]) -> BigU {
    assert_eq!(residues.len(), moduli.len());
    let mut x = BigU::zero();
    let mut p = BigU::one();
    for (&r, &m) in residues.iter().zip(moduli) {
        // find k with x + k*p = r (mod m): k = (r - x) * p^{-1} mod m
        let xm = x.rem_u64(m);
        let pm = p.rem_u64(m);
        let inv = inv_mod_u64(pm, m).expect("crt: moduli not coprime");
        let diff = ((r % m) as u128 + m as u128 - xm as u128) % m as u128;
        let k = (diff * inv as u128 % m as u128) as u64;
        x = x.add(&p.mul_u64(k));
        p = p.mul_u64(m);
    }
    x
}

pub fn inv_mod_u64(a: u64, m: u64) -> Option<u64> {
    // extended Euclid on i128
    let (mut r0, mut r1) = (m as i128, (a % m) as i128);
    let (mut t0, mut t1) = (0i128, 1i128);
    while r1 != 0 {
        let q = r0 / r1;
        (r0, r1) = (r1, r0 - q * r1);
        (t0, t1) = (t1, t0 - q * t1);
    }
    if r0 != 1 {
        return if m == 1 { Some(0) } else { None };
    }
    Some(((t0 % m as i128 + m as i128) % m as i128) as u64)
}

pub fn mul_mod(a: u64, b: u64, m: u64) -> u64 {
    (a as u128 * b as u128 % m as u128) as u64
}
pub fn add_mod(a: u64, b: u64, m: u64) -> u64 {
    ((a as u128 + b as u128) % m as u128) as u64
}
pub fn sub_mod(a: u64, b: u64, m: u64) -> u64 {
    ((a as u128 % m as u128 + m as u128 - b as u128 % m as u128) % m as u128) as u64
}
pub fn neg_mod(a: u64, m: u64) -> u64 {
    sub_mod(0, a, m)
}
pub fn pow_mod(mut b: u64, mut e: u64, m: u64) -> u64 {
    if m == 1 {
        return 0;
    }
    let mut r = 1u64;
    b %= m;
    while e > 0 {
        if e & 1 == 1 {
            r = mul_mod(r, b, m);
        }
        b = mul_mod(b, b, m);
        e >>= 1;
    }
    r
}

/// Deterministic Miller-Rabin, valid for all n < 2^64 (first 12 primes as bases).
pub fn is_prime_u64(n: u64) -> bool {
    if n < 2 {
        return false;
    }
    for p in [2u64, 3, 5, 7, 11, 13, 17, 19, 23, 29, 31, 37] {
        if n % p == 0 {
            return n == p;
        }
    }
    let mut d = n - 1;
    let mut r = 0;
    while d % 2 == 0 {
        d /= 2;
        r += 1;
    }
    'outer: for a in [2u64, 3, 5, 7, 11, 13, 17, 19, 23, 29, 31, 37] {
        let mut x = pow_mod(a, d, n);
        if x == 1 || x == n - 1 {
            continue;
        }
        for _ in 0..r - 1 {
            x = mul_mod(x, x, n);
            if x == n - 1 {
                continue 'outer;
            }
        }
        return false;
    }
    true
}

/// The `count` largest primes below 2^bits (and >= 2^(bits-1)) congruent to 1 modulo `factor`.
pub fn primes_1_mod(factor: u64, bits: usize, count: usize) -> Vec<u64> {
    let mut v = vec![];
    let top = if bits >= 64 { u64::MAX } else { (1u64 << bits) - 1 };
    let mut x = top / factor * factor + 1;
    if x > top {
        x -= factor;
    }
    let low = 1u64 << (bits - 1);
    while v.len() < count && x > low {
        if is_prime_u64(x) {
            v.push(x);
        }
        if x < factor {
            break;
        }
        x -= factor;
    }
    v
}

/// The `count` smallest primes of exactly `bits` bits (>= 2^(bits-1)) congruent to 1 modulo `factor`.
pub fn primes_1_mod_low(factor: u64, bits: usize, count: usize) -> Vec<u64> {
    let mut v = vec![];
    let low = 1u64 << (bits - 1);
    let top = if bits >= 64 { u64::MAX } else { (1u64 << bits) - 1 };
    let mut x = low / factor * factor + 1;
    while x < low {
        x += factor;
    }
    while v.len() < count && x <= top {
        if is_prime_u64(x) {
            v.push(x);
        }
        x += factor;
    }
    v
}

pub fn selftest() -> Result<u64, String> {
    // exhaustive over a boundary alphabet of u128 pairs
    let al: Vec<u128> = {
        let mut v = vec![0u128, 1, 2, 3, 5, 0xFFFF, 1 << 32, (1 << 63) - 1, 1 << 63, (1 << 64) - 1, 1 << 64, (1 << 64) + 1, u128::MAX >> 1, u128::MAX - 1, u128::MAX];
        for k in [7u32, 31, 33, 65, 100, 127] {
            v.push(1u128 << k);
            v.push((1u128 << k) - 1);
            v.push((1u128 << k) + 1);
        }
        v
    };
    let mut n = 0;
    for &a in &al {
        for &b in &al {
            let (ba, bb) = (BigU::from_u128(a), BigU::from_u128(b));
            let (s, c) = a.overflowing_add(b);
            let exp = if c { BigU::from_limbs(&[s as u64, (s >> 64) as u64, 1]) } else { BigU::from_u128(s) };
            if ba.add(&bb) != exp {
                return Err(format!("add {a} {b}"));
            }
            if a >= b && ba.sub(&bb) != BigU::from_u128(a - b) {
                return Err(format!("sub {a} {b}"));
            }
            if (a >> 64) == 0 && (b >> 64) == 0 && ba.mul(&bb) != BigU::from_u128(a * b) {
                return Err(format!("mul {a} {b}"));
            }
            if b != 0 {
                let (q, r) = ba.divrem(&bb);
                if q != BigU::from_u128(a / b) || r != BigU::from_u128(a % b) {
                    return Err(format!("divrem {a} {b}"));
                }
            }
            // (a*b) / b == a, (a*b + r) mod b == r
            if b != 0 {
                let p = ba.mul(&bb);
                let (q, r) = p.divrem(&bb);
                if q != ba || !r.is_zero() {
                    return Err(format!("mul/div identity {a} {b}"));
                }
            }
            if ba.cmp(&bb) != a.cmp(&b) {
                return Err(format!("cmp {a} {b}"));
            }
            n += 1;
        }
        for s in [0usize, 1, 63, 64, 65, 127] {
            let ba = BigU::from_u128(a);
            if ba.shl(s).shr(s) != ba {
                return Err(format!("shl/shr {a} {s}"));
            }
            if s < 128 && ba.shr(s) != BigU::from_u128(a >> s) {
                return Err(format!("shr {a} {s}"));
            }
        }
    }
    // crt
    let x = crt(&[2, 3, 2], &[3, 5, 7]);
    if x != BigU::from_u64(23) {
        return Err("crt".into());
    }
    Ok(n)
}
