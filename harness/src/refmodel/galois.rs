//! Reference model of the Galois group action on Z[X]/(X^N+1), its NTT evaluation order and the
//! slot layouts of the two encoders. Index arithmetic only; independent of the library.
//!
//! Conventions (SEAL semantics, confirmed by the comments in util/galois.rs):
//!  * generator 3; `rotate_rows(s)` / `rotate_vector(s)` with s > 0 rotates LEFT by s and uses
//!    the element 3^s mod 2N; s < 0 rotates right and uses 3^{-|s|} mod 2N; step 0 stands for the
//!    column swap / conjugation element 2N-1.
//!  * forward negacyclic NTT order: out[i] = a(psi^(2*brv(i)+1)).
//!  * slot i < N/2 of the batching matrix lives at the root exponent 3^i, slot N/2+i at -3^i.

use super::bigu::inv_mod_u64;
use super::poly::bit_reverse;

pub const GENERATOR: u64 = 3;

fn pow_mod_small(mut b: u64, mut e: u64, m: u64) -> u64 {
    let mut r = 1u64 % m;
    b %= m;
    while e > 0 {
        if e & 1 == 1 {
            r = r * b % m;
        }
        b = b * b % m;
        e >>= 1;
    }
    r
}

/// Galois element of a rotation step (|s| < N/2); step 0 = 2N-1.
pub fn elt_from_step(n: usize, s: isize) -> usize {
    let m = 2 * n as u64;
    if s == 0 {
        return (m - 1) as usize;
    }
    let base = if s > 0 { GENERATOR % m } else { inv_mod_u64(GENERATOR % m, m).expect("3 is a unit mod 2N") };
    pow_mod_small(base, s.unsigned_abs() as u64, m) as usize
}

/// The documented default key set: 2N-1 and 3^{±2^k} for 2^k = 1, 2, …, N/4 (as a sorted set).
pub fn default_elts(n: usize) -> Vec<usize> {
    let m = 2 * n as u64;
    let mut v = vec![(m - 1) as usize];
    let inv = inv_mod_u64(GENERATOR % m, m).unwrap_or(1);
    let mut k = 1u64;
    while k * 4 <= n as u64 {
        v.push(pow_mod_small(GENERATOR, k, m) as usize);
        v.push(pow_mod_small(inv, k, m) as usize);
        k *= 2;
    }
    v.sort();
    v.dedup();
    v
}

/// Permutation that X -> X^g induces on the NTT evaluation order: NTT(a(X^g))[i] = NTT(a)[perm[i]].
pub fn ntt_perm(n: usize, g: usize) -> Vec<usize> {
    let bits = n.trailing_zeros();
    let m = 2 * n;
    (0..n)
        .map(|i| {
            let e = 2 * bit_reverse(i, bits) + 1; // out[i] = a(psi^e)
            let eg = (e as u128 * g as u128 % m as u128) as usize; // b(psi^e) = a(psi^(e g))
            bit_reverse((eg - 1) / 2, bits)
        })
        .collect()
}

/// root exponent of slot i (0 <= i < N) of the 2 x N/2 batching matrix
pub fn slot_exponent(n: usize, i: usize) -> usize {
    let m = 2 * n as u64;
    let half = n / 2;
    if half == 0 {
        return 1;
    }
    let p = pow_mod_small(GENERATOR, (i % half) as u64, m);
    (if i < half { p } else { (m - p) % m }) as usize
}

/// BatchEncoder: decode(m(X^g))[i] = decode(m)[perm[i]]
pub fn batch_slot_perm(n: usize, g: usize) -> Vec<usize> {
    let m = 2 * n;
    let mut slot_of = vec![usize::MAX; m];
    for i in 0..n {
        slot_of[slot_exponent(n, i)] = i;
    }
    (0..n).map(|i| slot_of[(slot_exponent(n, i) as u128 * g as u128 % m as u128) as usize]).collect()
}

/// CKKSEncoder (N/2 complex slots): decode(m(X^g))[i] = old[j] or conj(old[j]); returns (j, conj)
pub fn ckks_slot_perm(n: usize, g: usize) -> Vec<(usize, bool)> {
    let half = n / 2;
    batch_slot_perm(n, g)[..half].iter().map(|&j| if j < half { (j, false) } else { (j - half, true) }).collect()
}

/// rows of the 2 x N/2 matrix rotated left by s (negative = right)
pub fn rotate_rows_left(v: &[u64], s: isize) -> Vec<u64> {
    let half = v.len() / 2;
    let mut r = vec![0u64; v.len()];
    for row in 0..2 {
        for c in 0..half {
            let src = (c as isize + s).rem_euclid(half as isize) as usize;
            r[row * half + c] = v[row * half + src];
        }
    }
    r
}

pub fn swap_rows(v: &[u64]) -> Vec<u64> {
    let half = v.len() / 2;
    let mut r = v[half..].to_vec();
    r.extend_from_slice(&v[..half]);
    r
}

/// Non-adjacent form of v as signed powers of two, least significant first (textbook algorithm).
pub fn naf_ref(v: i64) -> Vec<i64> {
    let mut x = v.abs();
    let sign = if v < 0 { -1 } else { 1 };
    let mut out = vec![];
    let mut w = 1i64;
    while x > 0 {
        if x & 1 == 1 {
            let d = 2 - (x & 3); // +1 or -1
            out.push(sign * d * w);
            x -= d;
        }
        x >>= 1;
        w <<= 1;
    }
    out
}

/// Internal consistency of the model: the exponent-based slot permutation agrees with the
/// documented row rotation / row swap. Returns the number of identities checked.
pub fn selfcheck(n: usize) -> Result<u64, String> {
    let mut cnt = 0;
    let id: Vec<u64> = (0..n as u64).collect();
    if n >= 4 {
        let half = (n / 2) as isize;
        for s in -(half - 1)..=(half - 1) {
            if s == 0 {
                continue;
            }
            let g = elt_from_step(n, s);
            let by_exp: Vec<u64> = batch_slot_perm(n, g).iter().map(|&j| id[j]).collect();
            if by_exp != rotate_rows_left(&id, s) {
                return Err(format!("N={n} step {s}: exponent model {by_exp:?} != row rotation {:?}", rotate_rows_left(&id, s)));
            }
            // 3^s * 3^-s = 1
            if (g as u128 * elt_from_step(n, -s) as u128 % (2 * n) as u128) != 1 {
                return Err(format!("N={n}: elt(s)*elt(-s) != 1 for s={s}"));
            }
            cnt += 2;
        }
    }
    if n >= 2 {
        let by_exp: Vec<u64> = batch_slot_perm(n, 2 * n - 1).iter().map(|&j| id[j]).collect();
        if by_exp != swap_rows(&id) {
            return Err(format!("N={n}: element 2N-1 is not the row swap in the exponent model"));
        }
        cnt += 1;
    }
    Ok(cnt)
}
