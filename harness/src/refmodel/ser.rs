//! Reference pieces for the serialization property (C14): the inverse of `poly::naive_ntt`
//! (O(N^2), independent of the library's butterflies) and a tiny deterministic filler.

use super::bigu::{add_mod, inv_mod_u64, mul_mod, pow_mod};
use super::poly::bit_reverse;

/// inverse of `poly::naive_ntt`: given v[i] = a(psi^(2*brv(i)+1)) recover the coefficients a[k]
pub fn naive_intt(v: &[u64], psi: u64, q: u64) -> Vec<u64> {
    let n = v.len();
    let bits = n.trailing_zeros();
    let psi_inv = inv_mod_u64(psi, q).expect("psi invertible");
    let n_inv = inv_mod_u64(n as u64 % q, q).expect("n invertible");
    (0..n)
        .map(|k| {
            let mut acc = 0u64;
            for (i, &vi) in v.iter().enumerate() {
                let e = (2 * bit_reverse(i, bits) as u64 + 1) * k as u64;
                acc = add_mod(acc, mul_mod(vi % q, pow_mod(psi_inv, e, q), q), q);
            }
            mul_mod(acc, n_inv, q)
        })
        .collect()
}

/// splitmix64 step (generic fill only; never used to *choose* cases)
pub fn sm64(x: u64) -> u64 {
    let mut z = x.wrapping_add(0x9E37_79B9_7F4A_7C15);
    z = (z ^ (z >> 30)).wrapping_mul(0xBF58_476D_1CE4_E5B9);
    z = (z ^ (z >> 27)).wrapping_mul(0x94D0_49BB_1331_11EB);
    z ^ (z >> 31)
}

/// deterministic residue below q for position `i`; positions 0..3 are the extremes
/// (q-1, 0, q-1 with the low byte cleared, 1) so that every byte of the packed width is exercised
pub fn fill(seed: u64, tag: u64, i: usize, q: u64) -> u64 {
    match i % 7 {
        0 => q - 1,
        1 => 0,
        2 => (q - 1) & !0xFF,
        3 => 1 % q,
        _ => sm64(seed ^ sm64(tag ^ (i as u64))) % q,
    }
}
