//! Naive arithmetic in Z_m[X]/(X^N+1), O(N^2), independent of the library.

use super::bigu::{add_mod, mul_mod, neg_mod, pow_mod, sub_mod};

pub fn padd(a: &[u64], b: &[u64], m: u64) -> Vec<u64> {
    a.iter().zip(b).map(|(&x, &y)| add_mod(x, y, m)).collect()
}
pub fn psub(a: &[u64], b: &[u64], m: u64) -> Vec<u64> {
    a.iter().zip(b).map(|(&x, &y)| sub_mod(x, y, m)).collect()
}
pub fn pneg(a: &[u64], m: u64) -> Vec<u64> {
    a.iter().map(|&x| neg_mod(x, m)).collect()
}
pub fn pscale(a: &[u64], s: u64, m: u64) -> Vec<u64> {
    a.iter().map(|&x| mul_mod(x, s, m)).collect()
}
/// negacyclic product
pub fn pmul(a: &[u64], b: &[u64], m: u64) -> Vec<u64> {
    let n = a.len();
    assert_eq!(n, b.len());
    let mut r = vec![0u64; n];
    for i in 0..n {
        if a[i] == 0 {
            continue;
        }
        for j in 0..n {
            if b[j] == 0 {
                continue;
            }
            let p = mul_mod(a[i], b[j], m);
            let k = i + j;
            if k < n {
                r[k] = add_mod(r[k], p, m);
            } else {
                r[k - n] = sub_mod(r[k - n], p, m);
            }
        }
    }
    r
}
/// m(X) -> m(X^g) in Z_m[X]/(X^N+1), g odd
pub fn pgalois(a: &[u64], g: usize, m: u64) -> Vec<u64> {
    let n = a.len();
    let mut r = vec![0u64; n];
    for i in 0..n {
        let e = (i * g) % (2 * n);
        if e < n {
            r[e] = add_mod(r[e], a[i], m);
        } else {
            r[e - n] = sub_mod(r[e - n], a[i], m);
        }
    }
    r
}
/// X^s * a(X), 0 <= s < 2N
pub fn pshift(a: &[u64], s: usize, m: u64) -> Vec<u64> {
    let n = a.len();
    let mut r = vec![0u64; n];
    for i in 0..n {
        let e = (i + s) % (2 * n);
        if e < n {
            r[e] = a[i] % m;
        } else {
            r[e - n] = neg_mod(a[i], m);
        }
    }
    r
}
/// evaluate a at x modulo m
pub fn peval(a: &[u64], x: u64, m: u64) -> u64 {
    let mut r = 0u64;
    for &c in a.iter().rev() {
        r = add_mod(mul_mod(r, x, m), c % m, m);
    }
    r
}
pub fn pad(a: &[u64], n: usize) -> Vec<u64> {
    let mut v = a.to_vec();
    v.resize(n, 0);
    v
}
pub fn bit_reverse(x: usize, bits: u32) -> usize {
    if bits == 0 {
        0
    } else {
        x.reverse_bits() >> (usize::BITS - bits)
    }
}
/// smallest primitive 2N-th root of unity modulo prime q (brute force), None if none
pub fn min_primitive_root_2n(n: usize, q: u64) -> Option<u64> {
    let two_n = 2 * n as u64;
    if (q - 1) % two_n != 0 {
        return None;
    }
    (1..q).find(|&x| pow_mod(x, n as u64, q) == q - 1)
}
/// reference forward negacyclic NTT: out[i] = a(psi^(2*brv(i)+1))
pub fn naive_ntt(a: &[u64], psi: u64, q: u64) -> Vec<u64> {
    let n = a.len();
    let bits = n.trailing_zeros();
    (0..n)
        .map(|i| {
            let e = 2 * bit_reverse(i, bits) as u64 + 1;
            peval(a, pow_mod(psi, e, q), q)
        })
        .collect()
}
