pub mod bigu;
pub mod poly;
