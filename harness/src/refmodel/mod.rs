pub mod bigu;
pub mod poly;
pub mod ser;
pub mod galois;
pub mod rlwe;
