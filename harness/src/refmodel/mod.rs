pub mod bigu;
pub mod poly;
pub mod ser;
pub mod galois;
pub mod rlwe;
pub mod ntt;
pub mod blakestream;
pub mod embed;
