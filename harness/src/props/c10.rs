//! C10 — RNS base tools meet their integer specifications for all inputs.
//!
//! E1 sections (every verdict is an exhaustive loop over a stated finite set, compared with BigU/BigI):
//!  * `rnsbase`    RNSBase: constructor constants, decompose/compose (single + array forms, lengths 1..5)
//!                 for every ordered sub-base of the modulus alphabet; ALL integers below the product (and
//!                 all residue vectors) when the product is small, the boundary set otherwise
//!  * `tool_tiny`  RNSTool::new(N=2, q, t) for tiny odd bases x plain moduli x routine: ALL integers in
//!                 [0, Q) (= all residue vectors of the q-base), crossed with the routine's own boundary
//!                 dimension (overshoot alpha, quotient h, ...)
//!  * `tool_real`  the same routines on 20..60-bit bases (1..6 primes, ascending/descending/mixed) over the
//!                 boundary integer set
//!  * `tool_ctx`   the contexts' own instances (every level, through hook H5 `verif_rns_tool`) with the
//!                 level's NTT tables
//!  * `big_base`   production sizes: RNSBase of 1..18 (thorough ..65) moduli x arrays of 1..1024 (thorough ..8192)
//!                 integers (63/64/65, 127/128/129, ... explicitly); array forms against BigU and against the
//!                 single-value forms coefficient by coefficient; unit-position family
//!  * `big_tool`   production sizes: RNSTool with 1..18 (thorough ..64) 60-bit primes at N = 2 and the 8/9 (thorough
//!                 1..18) boundary at N = 64..1024, 4096 (thorough ..8192); every coefficient of position-distinct
//!                 arrays judged by the same integer specifications (division-free restatement); Bsk NTT tables
//!                 checked functionally; unit-position family
//!  * `big_ctx`    the same on the tools (and NTT tables) of contexts with 9..18 (thorough ..33) primes / N up to
//!                 4096 (thorough 8192)
//!
//! Integer specifications, re-derived from /repo/src/util/rns.rs (k = |q-base|, Q = prod q, B = prod base_B,
//! Bsk = B u {m_sk}, mt = m_tilde = 2^32, g = gamma). FastBconv(x, q -> p) of BEHZ computes
//! S = sum_i |x_i (Q/q_i)^-1|_{q_i} (Q/q_i) mod p, and S = |x|_Q + a Q with a = floor(sum_i temp_i/q_i) in [0, k-1].
//!
//!  fastbconv_m_tilde(x)   one a in [0,k-1] with out_p = (|mt x|_Q + a Q) mod p for EVERY p in Bsk u {mt}
//!                         (both converters start from the same temp_i, hence the same a).
//!  sm_mrq(c'')            r = |-c'' Q^-1|_mt centred in [-mt/2, mt/2) ('>=' test on a power of two), output
//!                         y = (c'' + Q r)/mt exactly. For c'' = |mt x|_Q + a Q (a <= k-1): y = x (mod Q) and
//!                         -Q/2 <= y < Q/2 + (k-1) Q/mt. The check composes the Bsk residues (centred CRT) and
//!                         demands congruence and window.
//!  fast_floor(a)          out_p = (a_p - FastBconv(a_q)) Q^-1 = (a - |a|_Q - a' Q)/Q = floor(a/Q) - a' mod p,
//!                         a' in [0,k-1], same for every p in Bsk; holds for negative a as well (a - |a|_Q is
//!                         a multiple of Q and equals Q floor(a/Q)).
//!  fastbconv_sk(X)        FastBconv(X_B -> q) = |X|_B + aB B; alpha_sk = (aB - e) mod m_sk with e = floor(X/B);
//!                         the code reads alpha_sk > floor(m_sk/2) as negative, so the output is X mod q_i
//!                         EXACTLY iff |aB - e| <= floor(m_sk/2); guaranteed for
//!                         kB - 1 - floor(m_sk/2) <= e <= floor(m_sk/2) ("ext" domain; "core" = |X| < B/2).
//!  steps 6-8              fast_floor(t a) then fastbconv_sk: (floor(t a/Q) - a') mod q_i, a' in [0,k-1], for
//!                         |a| <= 2^30 Q^2 (needs the sizing invariant 2^32 t Q < B m_sk of RNSTool::new).
//!  divide_and_round       c_last' = (x + h) mod q_last with h = floor(q_last/2); out_i = (x + h - c_last')/q_last
//!                         = floor((x + h)/q_last) mod q_i = round(x/q_last), ties up. NTT variant identical.
//!  mod_t_and_divide       d = |-c_last q_last^-1|_t in [0,t) (NOT centred), out = (x - c_last - d q_last)/q_last
//!                         = floor(x/q_last) - d =: y; y q_last = x (mod t) and y in [F - t + 1, F] — this
//!                         determines y uniquely (the design text's (t+1)/2 window was wrong: d is one-sided).
//!  decrypt_scale_and_round  t g x = Q v + r; conversions give v - a mod t and mod g; writing t x = Q M + eps with
//!                         eps centred, v - a = g M + (floor(g eps/Q) - a); the g-residue is read centred, which
//!                         is right iff floor(g eps/Q) - a >= -(g-1)/2; so out = round(t x/Q) mod t whenever
//!                         frac(t x/Q) < 1/2 or frac >= 1/2 + k/g; inside the band [1/2, 1/2 + k/g) either
//!                         neighbour is accepted.
//!  decrypt_mod_t          exact_convey: sum temp_i/q_i = x/Q + a in f64 (error < 2^-46 for k <= 8), rounded;
//!                         out = centred |x|_Q mod t whenever |x/Q - 1/2| > 2^-41, either candidate inside.

use crate::engine::*;
use crate::he::{self, ParamSpec, Scheme};
use crate::refmodel::bigu::*;
use heathcliff::util::{NTTTables, RNSBase, RNSTool};
use heathcliff::Modulus;
use serde::{Deserialize, Serialize};
use std::time::Duration;

pub fn describe(rep: &Report) {
    rep.set_rule(
        "case = (base) resp. (N, q-base, t, routine, slice of the integer list); each case loops over ALL integers of its list \
         (all of [0,Q) for tiny bases = all residue vectors; the boundary set otherwise) x the routine's own boundary dimension. \
         traces_validated_against_impl counts individual coefficients compared with the big-integer specification. \
         non-trivial = more than one behaviour class seen in the case (overshoot alpha > 0, negative operand, upward rounding, \
         correction branch, ...).",
    );
    rep.assume("self-tested schoolbook BigU/BigI, crt() and inv_mod_u64 of refmodel::bigu are the reference");
    rep.assume("inputs are reduced residues (< modulus); unreduced inputs are outside the stated domain");
    rep.assume("q-bases of RNSTool are odd (Q invertible modulo m_tilde = 2^32) and coprime to t; other bases must be refused and are counted as skipped");
    rep.assume("bases with product >= 2^18 (thorough: 1.3*2^20) are covered on the boundary integer set only: 0,1,Q-1,Q/2 neighbourhood, q_i, Q-q_i, punctured products +-1, rounding boundaries of q_last and of t x/Q, fixed generic fill values");
    rep.assume("decrypt_scale_and_round is judged exactly outside the band frac(t x/Q) in [1/2, 1/2 + k/gamma) and decrypt_mod_t outside |x/Q - 1/2| <= 2^-41; inside, either neighbour is accepted");
    rep.assume("mod_t_and_divide_q_last: this code's (SEAL's) one-sided convention y in [floor(x/q_last) - t + 1, floor(x/q_last)] is demanded");
    rep.assume("big_* sections: structured families only (boundary integers, extreme CRT coefficients, position-distinct generic fill, unit positions), not all residue vectors; RNSTool is only constructible for power-of-two N, so fast_convert_array / exact_convey_array see the counts 2..8192 (powers of two) only — the counts 1, 63, 65, 127, ... are driven through RNSBase::decompose_array / compose_array");
    rep.assume("big_* sections: the NTT tables inside RNSTool (base_Bsk_ntt_tables) are required to be negacyclic transforms modulo Bsk[i] in the order of Bsk (convolution theorem on X * X^(N-1) and a round trip), nothing about roots or output order");
    rep.assume("BaseConverter is crate-private: fast_convert_array / exact_convey_array are observed through the RNSTool routines only; the non-array fast_convert is not reachable");
}

// ------------------------------------------------------------------------------------------
// small helpers
// ------------------------------------------------------------------------------------------

struct Bad {
    what: String,
    exp: String,
    obs: String,
}

fn bad(what: &str, exp: String, obs: String) -> Bad {
    Bad { what: what.to_string(), exp, obs }
}

fn call<T>(what: &str, f: impl FnOnce() -> T) -> Result<T, Bad> {
    guard(f).map_err(|p| Bad { what: format!("{what}:panic:{}", panic_class(&p)), exp: "no panic for an operand in range".into(), obs: p })
}

#[derive(Default)]
struct Acc {
    steps: u64,
    mask: u64,
}

fn bi(u: &BigU) -> BigI {
    BigI::from_u(u.clone())
}
fn bi64(v: u64) -> BigI {
    BigI::from_u(BigU::from_u64(v))
}
fn show(x: &BigI) -> String {
    format!("{}{}", if x.neg { "-" } else { "" }, x.mag.to_hex())
}
fn res_i(x: &BigI, mods: &[u64]) -> Vec<u64> {
    mods.iter().map(|&m| x.rem_u64(m)).collect()
}
fn res_u(x: &BigU, mods: &[u64]) -> Vec<u64> {
    mods.iter().map(|&m| x.rem_u64(m)).collect()
}
/// component-major layout: out[i*n + j] = vals[j][i]; missing coefficients are zero
fn pack(vals: &[Vec<u64>], n: usize, nmod: usize) -> Vec<u64> {
    let mut out = vec![0u64; n * nmod];
    for (j, v) in vals.iter().enumerate() {
        for i in 0..nmod {
            out[i * n + j] = v[i];
        }
    }
    out
}
fn column(buf: &[u64], n: usize, nmod: usize, j: usize) -> Vec<u64> {
    (0..nmod).map(|i| buf[i * n + j]).collect()
}
fn gcd(mut a: u64, mut b: u64) -> u64 {
    while b != 0 {
        (a, b) = (b, a % b);
    }
    a
}
fn pairwise_coprime(v: &[u64]) -> bool {
    for i in 0..v.len() {
        for j in 0..i {
            if gcd(v[i], v[j]) != 1 {
                return false;
            }
        }
    }
    true
}
fn mods(v: &[u64]) -> Vec<Modulus> {
    v.iter().map(|&x| Modulus::new(x)).collect()
}

/// boundary integers of [0, Q)
fn boundary_xs(qs: &[u64], t: u64, seed: u64) -> Vec<BigU> {
    let q = BigU::product(qs);
    let qi = bi(&q);
    let mut c: Vec<BigI> = vec![];
    let around = |c: &mut Vec<BigI>, x: BigI, r: i128| {
        for d in -r..=r {
            c.push(x.add(&BigI::from_i128(d)));
        }
    };
    around(&mut c, bi64(0), 2);
    around(&mut c, qi.clone(), 2);
    around(&mut c, bi(&q.shr(1)), 2);
    for &p in qs {
        around(&mut c, bi64(p), 1);
        around(&mut c, qi.sub(&bi64(p)), 1);
        let punct = q.div(&BigU::from_u64(p));
        around(&mut c, bi(&punct), 1);
        around(&mut c, qi.sub(&bi(&punct)), 1);
    }
    // rounding boundaries of the division by the last modulus
    let ql = *qs.last().unwrap();
    let qrest = q.div(&BigU::from_u64(ql));
    for m in [BigU::zero(), BigU::one(), BigU::from_u64(2), qrest.shr(1), qrest.sub(&BigU::one())] {
        around(&mut c, bi(&m.mul_u64(ql).add(&BigU::from_u64(ql >> 1))), 1);
    }
    if t > 0 {
        // rounding boundaries of t*x/Q and exact multiples
        for j in [0u64, 1, t / 2, t - 1] {
            let num = q.mul(&BigU::from_u64(j).shl(1).add(&BigU::one()));
            around(&mut c, bi(&num.div(&BigU::from_u64(t).shl(1))), 1);
            around(&mut c, bi(&q.mul_u64(j).div(&BigU::from_u64(t))), 1);
        }
    }
    // just outside the f64 margin of decrypt_mod_t
    let eps = q.shr(40);
    around(&mut c, bi(&q.shr(1)).sub(&bi(&eps)), 1);
    around(&mut c, bi(&q.shr(1)).add(&bi(&eps)), 1);
    // generic fill
    for i in 0..6u64 {
        let k = h64(&(seed, i, "c10-fill")) | 1;
        c.push(bi(&q.mul_u64(k).shr(64)));
    }
    // residue-level boundaries (seeded round 4: "congruent to zero taken as zero", a centred reduction wrong at exactly (m+1)/2, a
    // correction skipped when ONE residue is a multiple of ANOTHER prime): one residue is set to a special value, the others are
    // generic, the integer is recovered by CRT. Special values of residue i: 0, 1, 2, m-1, m-2, (m-1)/2, (m+1)/2 and k*m_j < m for the
    // other primes m_j (and t), k = 1, 2, 3.
    if qs.len() >= 2 && qs.iter().all(|&m| m > 2) {
        let coprime = (0..qs.len()).all(|i| (0..i).all(|j| gcd_u64(qs[i], qs[j]) == 1));
        if coprime {
            for i in 0..qs.len() {
                let m = qs[i];
                let mut sp: Vec<u64> = vec![0, 1, 2 % m, m - 1, m - 2, (m - 1) / 2, (m + 1) / 2 % m];
                for (j, &mj) in qs.iter().enumerate() {
                    if j != i {
                        for k in 1..=3u64 {
                            if let Some(v) = mj.checked_mul(k) {
                                if v < m {
                                    sp.push(v);
                                }
                            }
                        }
                    }
                }
                if t > 1 {
                    for k in 1..=2u64 {
                        if let Some(v) = t.checked_mul(k) {
                            if v < m {
                                sp.push(v);
                            }
                        }
                    }
                }
                sp.sort_unstable();
                sp.dedup();
                for (f, &v) in sp.iter().enumerate() {
                    let res: Vec<u64> = (0..qs.len()).map(|j| if j == i { v } else { (h64(&(seed, i as u64, j as u64, (f % 2) as u64, "c10-res")) % qs[j]).max(1) }).collect();
                    c.push(bi(&crt(&res, qs)));
                }
            }
        }
    }
    let mut v: Vec<BigU> = c.into_iter().filter(|x| !x.neg && x.mag < q).map(|x| x.mag).collect();
    v.sort();
    v.dedup();
    v
}

fn gcd_u64(mut a: u64, mut b: u64) -> u64 {
    while b != 0 {
        (a, b) = (b, a % b);
    }
    a
}

// ------------------------------------------------------------------------------------------
// section rnsbase
// ------------------------------------------------------------------------------------------

#[derive(Serialize, Deserialize, Clone, Debug)]
pub struct BaseCase {
    pub moduli: Vec<u64>,
    /// enumerate all integers below the product (and all residue vectors)
    pub all: bool,
}

fn base_key(c: &BaseCase, tail: &str) -> String {
    format!("rnsbase:k={}:{}:{}", c.moduli.len(), if c.all { "all" } else { "boundary" }, tail)
}

fn check_base(c: &BaseCase, seed: u64) -> CaseOut {
    he::env_real(seed, h64(&(c.moduli.as_slice(), c.all)));
    match run_base(c, seed) {
        Ok(Some(acc)) => CaseOut::pass(acc.mask.count_ones() > 1, h64(&("rnsbase", c.moduli.len(), acc.mask)), acc.steps),
        Ok(None) => CaseOut::skip("moduli not pairwise coprime: refused as required"),
        Err(b) => CaseOut::fail(base_key(c, &b.what), b.exp, b.obs),
    }
}

fn run_base(c: &BaseCase, seed: u64) -> Result<Option<Acc>, Bad> {
    let m = &c.moduli;
    let k = m.len();
    let mut acc = Acc::default();
    let built = call("new", || RNSBase::new(&mods(m)))?;
    let coprime = pairwise_coprime(m);
    let base = match (built, coprime) {
        (Ok(b), true) => b,
        (Err(_), false) => return Ok(None),
        (Ok(_), false) => return Err(bad("new:accepted-non-coprime", "Err for moduli that are not pairwise coprime".into(), format!("Ok for {m:?}"))),
        (Err(e), true) => return Err(bad("new:refused-coprime", format!("Ok for pairwise coprime {m:?}"), e)),
    };
    let p = BigU::product(m);
    // constructor constants
    if base.len() != k || base.base().iter().map(|x| x.value()).collect::<Vec<_>>() != *m {
        return Err(bad("const:base", format!("{m:?}"), format!("len {}", base.len())));
    }
    if BigU::from_limbs(base.base_prod()) != p || base.base_prod().len() != k {
        return Err(bad("const:base_prod", p.to_hex(), format!("{:x?}", base.base_prod())));
    }
    for i in 0..k {
        let punct = p.div(&BigU::from_u64(m[i]));
        if BigU::from_limbs(&base.punctured_prod()[i]) != punct {
            return Err(bad("const:punctured_prod", format!("i={i} {}", punct.to_hex()), format!("{:x?}", base.punctured_prod()[i])));
        }
        let inv = inv_mod_u64(punct.rem_u64(m[i]), m[i]).unwrap();
        let op = &base.inv_punctured_prod_mod_base()[i];
        let quo = (((inv as u128) << 64) / m[i] as u128) as u64;
        if op.operand != inv || op.quotient != quo {
            return Err(bad("const:inv_punctured_prod", format!("i={i} operand={inv} quotient={quo}"), format!("operand={} quotient={}", op.operand, op.quotient)));
        }
        acc.steps += 2;
    }
    // derived bases (extend / drop) keep the invariants
    if k >= 2 {
        let d = call("drop_last", || base.drop_last())?.map_err(|e| bad("drop_last:refused", "Ok".into(), e))?;
        let pd = p.div(&BigU::from_u64(m[k - 1]));
        if d.len() != k - 1 || BigU::from_limbs(d.base_prod()) != pd {
            return Err(bad("drop_last:wrong", pd.to_hex(), format!("{:x?}", d.base_prod())));
        }
        let e = call("extend_modulus", || d.extend_modulus(&Modulus::new(m[k - 1])))?.map_err(|e| bad("extend_modulus:refused", "Ok".into(), e))?;
        if BigU::from_limbs(e.base_prod()) != p || e.base().last().map(|x| x.value()) != Some(m[k - 1]) {
            return Err(bad("extend_modulus:wrong", p.to_hex(), format!("{:x?}", e.base_prod())));
        }
        if !(d.is_proper_subbase_of(&base) && base.is_superbase_of(&d) && !base.is_subbase_of(&d) && base.contains(&Modulus::new(m[0]))) {
            return Err(bad("subbase-predicates", "d proper subbase of base".into(), "predicate mismatch".into()));
        }
        acc.steps += 3;
    }
    // values
    let xs: Vec<BigU> = if c.all { (0..p.to_u64().unwrap()).map(BigU::from_u64).collect() } else { boundary_xs(m, 0, seed) };
    // single form
    for x in &xs {
        let exp_res = res_u(x, m);
        let mut buf = x.limbs(k);
        call("decompose", || base.decompose(&mut buf))?;
        if buf != exp_res {
            return Err(bad("decompose:wrong", format!("x={} -> {exp_res:?}", x.to_hex()), format!("{buf:?}")));
        }
        call("compose", || base.compose(&mut buf))?;
        if buf != x.limbs(k) {
            return Err(bad("compose:wrong", format!("{exp_res:?} -> {}", x.to_hex()), format!("{buf:x?}")));
        }
        acc.steps += 2;
        if exp_res.iter().zip(m).any(|(r, _)| BigU::from_u64(*r) != *x) {
            acc.mask |= 1; // a reduction took place
        } else {
            acc.mask |= 2;
        }
    }
    // every residue vector (odometer) composes to the integer the reference CRT gives, and decomposes back
    if c.all && k > 1 {
        let mut r = vec![0u64; k];
        let mut seen = vec![false; p.to_u64().unwrap() as usize];
        loop {
            let mut buf = r.clone();
            call("compose", || base.compose(&mut buf))?;
            let v = BigU::from_limbs(&buf);
            let e = crt(&r, m);
            if v != e {
                return Err(bad("compose:wrong", format!("{r:?} -> {}", e.to_hex()), format!("{buf:x?}")));
            }
            let idx = v.to_u64().unwrap() as usize;
            if seen[idx] {
                return Err(bad("compose:not-injective", "distinct integers for distinct residue vectors".into(), format!("{r:?} -> {idx} twice")));
            }
            seen[idx] = true;
            call("decompose", || base.decompose(&mut buf))?;
            if buf != r {
                return Err(bad("decompose:wrong", format!("{r:?}"), format!("{buf:?}")));
            }
            acc.steps += 2;
            // next
            let mut i = 0;
            loop {
                r[i] += 1;
                if r[i] < m[i] {
                    break;
                }
                r[i] = 0;
                i += 1;
                if i == k {
                    break;
                }
            }
            if i == k {
                break;
            }
        }
        if seen.iter().any(|s| !s) {
            return Err(bad("compose:not-surjective", "every integer below the product is reached".into(), "gap".into()));
        }
        acc.mask |= 4;
    }
    // array forms: `count` integers of k limbs each (value-major) <-> component-major residues
    for count in 1..=5usize {
        let stride = if c.all { count } else { 1 };
        let mut s = 0usize;
        while s < xs.len() {
            let win: Vec<&BigU> = (0..count).map(|j| &xs[(s + j) % xs.len()]).collect();
            let mut buf: Vec<u64> = win.iter().flat_map(|x| x.limbs(k)).collect();
            let orig = buf.clone();
            let mut exp = vec![0u64; count * k];
            for (j, x) in win.iter().enumerate() {
                for i in 0..k {
                    exp[i * count + j] = x.rem_u64(m[i]);
                }
            }
            call("decompose_array", || base.decompose_array(&mut buf))?;
            if buf != exp {
                return Err(bad("decompose_array:wrong", format!("count={count} values={orig:x?} -> {exp:?}"), format!("{buf:?}")));
            }
            call("compose_array", || base.compose_array(&mut buf))?;
            if buf != orig {
                return Err(bad("compose_array:wrong", format!("count={count} {exp:?} -> {orig:x?}"), format!("{buf:x?}")));
            }
            acc.steps += 2;
            acc.mask |= 8 << count.min(2);
            s += stride;
        }
    }
    Ok(Some(acc))
}

fn p1(bits: usize, count: usize) -> Vec<u64> {
    primes_1_mod(4, bits, count)
}

fn base_alphabet() -> Vec<u64> {
    vec![3, 5, 7, 11, 13, 16, 17, 1 << 32, p1(30, 1)[0], p1(59, 1)[0], p1(60, 1)[0], p1(61, 1)[0]]
}

fn ordered_subsets(al: &[u64], size: usize) -> Vec<Vec<u64>> {
    let mut out: Vec<Vec<u64>> = vec![vec![]];
    for _ in 0..size {
        let mut next = vec![];
        for v in &out {
            for &a in al {
                if !v.contains(&a) {
                    let mut w = v.clone();
                    w.push(a);
                    next.push(w);
                }
            }
        }
        out = next;
    }
    out
}

fn base_cases(thorough: bool) -> Vec<BaseCase> {
    let al = base_alphabet();
    let all_limit: u128 = if thorough { 1_400_000 } else { 1 << 18 };
    let mut bases: Vec<Vec<u64>> = vec![];
    for size in 1..=(if thorough { 4 } else { 3 }) {
        bases.extend(ordered_subsets(&al, size));
    }
    // larger bases: ascending / descending / rotated
    let mut big: Vec<Vec<u64>> = vec![
        vec![3, 5, 7, 11, 13, 16],
        p1(61, 8),
        p1(60, 6),
        p1(60, 4),
        p1(59, 5),
        vec![p1(30, 1)[0], p1(60, 1)[0], p1(40, 1)[0], p1(59, 1)[0], 1 << 32, 17],
        vec![p1(61, 2)[1], 3, p1(61, 1)[0], 16, p1(20, 1)[0]],
    ];
    if thorough {
        big.push(vec![3, 7, 11, 13, 16, 17]);
        big.push(vec![5, 7, 11, 13, 17, 3, 4]);
        big.push(vec![3, 5, 7, 11, 13, 17, 19]);
        big.push(p1(60, 8));
        big.push(p1(61, 7).into_iter().chain([1 << 32]).collect());
        let mut mixed = p1(60, 3);
        mixed.extend(p1(30, 3));
        mixed.extend([5, 1 << 32]);
        big.push(mixed);
    }
    for b in big {
        let mut d = b.clone();
        d.reverse();
        let mut r = b.clone();
        r.rotate_left(b.len() / 2);
        bases.push(b);
        bases.push(d);
        bases.push(r);
    }
    bases
        .into_iter()
        .map(|m| {
            let prod = m.iter().fold(1u128, |a, &x| a.saturating_mul(x as u128));
            let all = pairwise_coprime(&m) && prod < all_limit;
            BaseCase { moduli: m, all }
        })
        .collect()
}

// ------------------------------------------------------------------------------------------
// RNSTool: auxiliary data read from the accessors (validated by the routine "constants")
// ------------------------------------------------------------------------------------------

struct Aux {
    n: usize,
    q: Vec<u64>,
    qp: BigU,
    b: Vec<u64>,
    bp: BigU,
    bsk: Vec<u64>,
    bskp: BigU,
    msk: u64,
    mt: u64,
    t: u64,
    gamma: u64,
}

fn aux_of(tool: &RNSTool, n: usize, t: u64) -> Result<Aux, Bad> {
    let vals = |b: &RNSBase| b.base().iter().map(|x| x.value()).collect::<Vec<u64>>();
    let q = vals(tool.base_q());
    let b = vals(tool.base_B());
    let bsk = vals(tool.base_Bsk());
    let bskmt = vals(tool.base_Bsk_m_tilde());
    let gamma = match tool.base_t_gamma() {
        Some(tg) => {
            let v = vals(tg);
            if v.len() != 2 || v[0] != t {
                return Err(bad("const:base_t_gamma", format!("[t={t}, gamma]"), format!("{v:?}")));
            }
            v[1]
        }
        None => {
            if t != 0 {
                return Err(bad("const:base_t_gamma", "Some for t != 0".into(), "None".into()));
            }
            0
        }
    };
    if bsk.len() != b.len() + 1 || bsk[..b.len()] != b[..] || bskmt.len() != bsk.len() + 1 || bskmt[..bsk.len()] != bsk[..] {
        return Err(bad("const:aux-bases", "Bsk = B ++ [m_sk], Bsk_m_tilde = Bsk ++ [m_tilde]".into(), format!("B={b:?} Bsk={bsk:?} Bsk_mt={bskmt:?}")));
    }
    Ok(Aux {
        n,
        qp: BigU::product(&q),
        bp: BigU::product(&b),
        bskp: BigU::product(&bsk),
        msk: bsk[b.len()],
        mt: bskmt[bsk.len()],
        q,
        b,
        bsk,
        t,
        gamma,
    })
}

/// BigI X with 0 <= v < P  ->  residues;  centred CRT composition over `m`
fn crt_centered(r: &[u64], m: &[u64], p: &BigU) -> BigI {
    centered(&crt(r, m), p)
}

fn chunks<'a, T>(v: &'a [T], n: usize) -> impl Iterator<Item = &'a [T]> {
    v.chunks(n)
}

// ---- constants ---------------------------------------------------------------------------

fn r_constants(tool: &RNSTool, a: &Aux, acc: &mut Acc) -> Result<(), Bad> {
    let k = a.q.len();
    let two_n = 2 * a.n as u64;
    // auxiliary primes: distinct 61-bit primes = 1 mod 2N, coprime to q and t; m_tilde = 2^32
    let mut auxp = a.bsk.clone();
    if a.t != 0 {
        auxp.push(a.gamma);
    }
    for &p in &auxp {
        if !(is_prime_u64(p) && p >> 60 == 1 && p % two_n == 1 && !a.q.contains(&p) && p != a.t) {
            return Err(bad("const:aux-prime", "61-bit prime = 1 mod 2N not in q".into(), format!("{p}")));
        }
    }
    let mut s = auxp.clone();
    s.sort();
    s.dedup();
    if s.len() != auxp.len() || a.mt != 1 << 32 {
        return Err(bad("const:aux-distinct", "distinct auxiliary primes, m_tilde = 2^32".into(), format!("{auxp:?} mt={}", a.mt)));
    }
    if !(a.b.len() == k || a.b.len() == k + 1) {
        return Err(bad("const:B-size", format!("{k} or {}", k + 1), format!("{}", a.b.len())));
    }
    // sizing invariant quoted in RNSTool::new: K n t q^2 < q B m_sk with 32 bits reserved for K n
    let lhs = BigU::pow2(32).mul_u64(a.t.max(1)).mul(&a.qp);
    if lhs >= a.bskp {
        return Err(bad("const:aux-sizing", format!("2^32 t Q = {} < B m_sk", lhs.to_hex()), a.bskp.to_hex()));
    }
    let opchk = |what: &str, op: &heathcliff::util::MultiplyU64ModOperand, v: u64, m: u64| -> Result<(), Bad> {
        let quo = (((v as u128) << 64) / m as u128) as u64;
        if op.operand != v || op.quotient != quo {
            return Err(bad(&format!("const:{what}"), format!("operand={v} quotient={quo} (mod {m})"), format!("operand={} quotient={}", op.operand, op.quotient)));
        }
        Ok(())
    };
    for (i, &p) in a.bsk.iter().enumerate() {
        opchk("inv_prod_q_mod_Bsk", &tool.inv_prod_q_mod_Bsk()[i], inv_mod_u64(a.qp.rem_u64(p), p).unwrap(), p)?;
    }
    let iq = inv_mod_u64(a.qp.rem_u64(a.mt), a.mt).ok_or_else(|| bad("const:q-even", "odd Q".into(), "Q not invertible mod m_tilde".into()))?;
    opchk("neg_inv_prod_q_mod_m_tilde", tool.neg_inv_prod_q_mod_m_tilde(), (a.mt - iq) % a.mt, a.mt)?;
    opchk("inv_prod_B_mod_m_sk", tool.inv_prod_B_mod_m_sk(), inv_mod_u64(a.bp.rem_u64(a.msk), a.msk).unwrap(), a.msk)?;
    let pbq: Vec<u64> = a.q.iter().map(|&p| a.bp.rem_u64(p)).collect();
    if *tool.prod_B_mod_q() != pbq {
        return Err(bad("const:prod_B_mod_q", format!("{pbq:?}"), format!("{:?}", tool.prod_B_mod_q())));
    }
    let ql = a.q[k - 1];
    if tool.inv_q_last_mod_q().len() != k - 1 {
        return Err(bad("const:inv_q_last_mod_q", format!("{} entries", k - 1), format!("{}", tool.inv_q_last_mod_q().len())));
    }
    for i in 0..k - 1 {
        opchk("inv_q_last_mod_q", &tool.inv_q_last_mod_q()[i], inv_mod_u64(ql % a.q[i], a.q[i]).unwrap(), a.q[i])?;
    }
    if a.t != 0 {
        let e = inv_mod_u64(ql % a.t, a.t).unwrap();
        if tool.inv_q_last_mod_t() != e {
            return Err(bad("const:inv_q_last_mod_t", format!("{e}"), format!("{}", tool.inv_q_last_mod_t())));
        }
        match tool.inv_gamma_mod_t() {
            Some(op) => opchk("inv_gamma_mod_t", op, inv_mod_u64(a.gamma % a.t, a.t).unwrap(), a.t)?,
            None => return Err(bad("const:inv_gamma_mod_t", "Some".into(), "None".into())),
        }
    }
    if tool.base_Bsk_ntt_tables().len() != a.bsk.len() || tool.base_Bsk_ntt_tables().iter().any(|t| t.coeff_count() != a.n) {
        return Err(bad("const:Bsk_ntt_tables", format!("{} tables of degree {}", a.bsk.len(), a.n), format!("{}", tool.base_Bsk_ntt_tables().len())));
    }
    acc.steps += (a.bsk.len() + 2 * k + 6) as u64;
    acc.mask |= if a.b.len() == k { 1 } else { 2 };
    acc.mask |= 4; // always counted as non-trivial: values of 61-bit inverses
    Ok(())
}

// ---- fastbconv_m_tilde -------------------------------------------------------------------

fn r_fastbconv_m_tilde(tool: &RNSTool, a: &Aux, xs: &[BigU], acc: &mut Acc) -> Result<(), Bad> {
    let (n, k) = (a.n, a.q.len());
    let mut om = a.bsk.clone();
    om.push(a.mt);
    for ch in chunks(xs, n) {
        let input = pack(&ch.iter().map(|x| res_u(x, &a.q)).collect::<Vec<_>>(), n, k);
        let mut dest = vec![0u64; om.len() * n];
        call("fastbconv_m_tilde", || tool.fastbconv_m_tilde(&input, &mut dest))?;
        for (j, x) in ch.iter().enumerate() {
            let c = x.mul_u64(a.mt).rem(&a.qp);
            let got = column(&dest, n, om.len(), j);
            let alpha = (0..k as u64).find(|&al| res_u(&c.add(&a.qp.mul_u64(al)), &om) == got);
            match alpha {
                Some(al) => acc.mask |= 1 << al,
                None => {
                    return Err(bad(
                        "fastbconv_m_tilde:no-alpha",
                        format!("x={} : residues mod {om:?} of |m~ x|_Q + a Q = {} + a*{} for one a in [0,{}]", x.to_hex(), c.to_hex(), a.qp.to_hex(), k - 1),
                        format!("{got:?}"),
                    ))
                }
            }
            acc.steps += 1;
        }
    }
    Ok(())
}

// ---- sm_mrq ------------------------------------------------------------------------------

fn r_sm_mrq(tool: &RNSTool, a: &Aux, xs: &[BigU], acc: &mut Acc) -> Result<(), Bad> {
    let (n, k) = (a.n, a.q.len());
    let mut im = a.bsk.clone();
    im.push(a.mt);
    // every overshoot the Montgomery window allows, not only the one fastbconv_m_tilde happens to produce
    let mut items: Vec<BigU> = vec![];
    for x in xs {
        let c = x.mul_u64(a.mt).rem(&a.qp);
        for al in 0..k as u64 {
            items.push(c.add(&a.qp.mul_u64(al)));
        }
    }
    // extremes of the centred Montgomery digit r = |-c'' Q^-1|_mt: c'' = -r Q (mod mt) inside [aQ, (a+1)Q)
    if a.qp.bits() > 34 {
        let qlow = a.qp.rem_u64(a.mt);
        for al in 0..k as u64 {
            let lo = a.qp.mul_u64(al);
            for r in [1u64 << 31, (1 << 31) - 1, (1 << 31) + 1, 0, 1, (1 << 32) - 1] {
                let want = (a.mt - mul_mod(r, qlow, a.mt)) % a.mt; // -r Q mod 2^32
                let base = lo.shr(32).shl(32).add(&BigU::from_u64(want));
                let c = if base < lo { base.add(&BigU::from_u64(a.mt)) } else { base };
                items.push(c);
            }
        }
    }
    let qi = bi(&a.qp);
    let upper = bi(&a.qp.mul_u64(a.mt).add(&a.qp.mul_u64(2 * (k as u64 - 1))));
    for ch in chunks(&items, n) {
        let input = pack(&ch.iter().map(|c| res_u(c, &im)).collect::<Vec<_>>(), n, im.len());
        let mut dest = vec![0u64; a.bsk.len() * n];
        call("sm_mrq", || tool.sm_mrq(&input, &mut dest))?;
        for (j, c) in ch.iter().enumerate() {
            let got = column(&dest, n, a.bsk.len(), j);
            if got.iter().zip(&a.bsk).any(|(r, p)| r >= p) {
                return Err(bad("sm_mrq:unreduced", "residues below their moduli".into(), format!("{got:?}")));
            }
            let y = crt_centered(&got, &a.bsk, &a.bskp);
            let two_y = y.add(&y);
            // m~ y = c'' (mod Q)  <=>  y = x (mod Q) for c'' = |m~ x|_Q + aQ (m~ is invertible modulo the odd Q)
            let congruent = y.mul(&bi64(a.mt)).sub(&bi(c)).rem_u(&a.qp).is_zero();
            let lo_ok = two_y.cmp(&qi.negate()) != std::cmp::Ordering::Less;
            let hi_ok = two_y.mul(&bi64(a.mt)).cmp(&upper) == std::cmp::Ordering::Less;
            if !(congruent && lo_ok && hi_ok) {
                return Err(bad(
                    if !congruent { "sm_mrq:not-congruent" } else { "sm_mrq:outside-window" },
                    format!("c''={} (= |m~ x|_Q + aQ, a <= k-1) : m~ y = c'' (mod Q), -Q/2 <= y < Q/2 + (k-1)Q/m~", c.to_hex()),
                    format!("y={} residues {got:?}", show(&y)),
                ));
            }
            acc.mask |= if y.neg { 1 } else if two_y.cmp(&qi) == std::cmp::Ordering::Greater { 4 } else { 2 };
            acc.steps += 1;
        }
    }
    Ok(())
}

// ---- fast_floor --------------------------------------------------------------------------

fn floor_quotients(a: &Aux, all: bool) -> Vec<BigI> {
    let tq = bi(&a.qp.mul_u64(a.t.max(1)));
    let mut h = vec![bi64(0), bi64(1), BigI::from_i128(-1), BigI::from_i128(-2), tq.clone(), tq.negate()];
    if !all {
        h.extend([bi64(2), bi64(a.q.len() as u64), BigI::from_i128(-(a.q.len() as i128))]);
        let big = bi(&BigU::pow2(30).mul(&tq.mag));
        h.extend([big.clone(), big.negate(), big.sub(&bi64(1))]);
        let half = bi(&a.bskp.shr(1));
        h.extend([half.clone(), half.negate(), half.sub(&bi64(1))]);
    }
    h
}

fn find_alpha(got: &[u64], f: &BigI, k: usize, m: &[u64]) -> Option<u64> {
    (0..k as u64).find(|&al| res_i(&f.sub(&bi64(al)), m) == got)
}

fn r_fast_floor(tool: &RNSTool, a: &Aux, xs: &[BigU], all: bool, acc: &mut Acc) -> Result<(), Bad> {
    let (n, k) = (a.n, a.q.len());
    let mut im = a.q.clone();
    im.extend(&a.bsk);
    let qi = bi(&a.qp);
    let mut items: Vec<BigI> = vec![];
    for h in floor_quotients(a, all) {
        for x in xs {
            items.push(bi(x).add(&qi.mul(&h)));
        }
    }
    for ch in chunks(&items, n) {
        let input = pack(&ch.iter().map(|v| res_i(v, &im)).collect::<Vec<_>>(), n, im.len());
        let mut dest = vec![0u64; a.bsk.len() * n];
        call("fast_floor", || tool.fast_floor(&input, &mut dest))?;
        for (j, v) in ch.iter().enumerate() {
            let f = v.div_floor(&a.qp);
            let got = column(&dest, n, a.bsk.len(), j);
            match find_alpha(&got, &f, k, &a.bsk) {
                Some(al) => acc.mask |= (1 << al) | if v.neg { 1 << 32 } else { 0 },
                None => {
                    return Err(bad(
                        "fast_floor:no-alpha",
                        format!("a={} : residues mod Bsk of floor(a/Q) - a' = {} - a', a' in [0,{}]", show(v), show(&f), k - 1),
                        format!("{got:?}"),
                    ))
                }
            }
            acc.steps += 1;
        }
    }
    Ok(())
}

// ---- fastbconv_sk ------------------------------------------------------------------------

fn r_fastbconv_sk(tool: &RNSTool, a: &Aux, xs: &[BigU], all: bool, acc: &mut Acc) -> Result<(), Bad> {
    let (n, k) = (a.n, a.q.len());
    let bi_b = bi(&a.bp);
    let half_msk = (a.msk / 2) as i128;
    let e_min = a.b.len() as i128 - 1 - half_msk;
    let e_max = half_msk;
    let mut items: Vec<BigI> = vec![];
    // every residue vector of q as target (tiny bases), both signs
    for x in xs {
        items.push(bi(x));
        items.push(bi(x).negate());
    }
    // boundary positions inside [0,B) x boundary quotients e = floor(X/B)
    let mut ys: Vec<BigU> = boundary_xs(&a.b, 0, 7);
    if all {
        ys.truncate(0);
        ys.extend([BigU::zero(), BigU::one(), a.bp.shr(1), a.bp.shr(1).add(&BigU::one()), a.bp.sub(&BigU::one())]);
    }
    // quotients inside the range the specification covers, [|B|-1-m_sk/2, m_sk/2] (a 60-bit t lies inside it for the largest
    // 61-bit m_sk only: demanding exactness at e = t for whatever prime the tool picks as m_sk was a false alarm, DESIGN §10)
    let es: Vec<i128> = [0, -1, 1, 2, -2, a.t.max(1) as i128, 1 << 32, -(1 << 32), e_max, e_max - 1, e_min, e_min + 1].into_iter().filter(|e| (e_min..=e_max).contains(e)).collect();
    for &e in &es {
        for y in &ys {
            items.push(bi(y).add(&bi_b.mul(&BigI::from_i128(e))));
        }
    }
    // values congruent to 0 (and to +-1) modulo exactly one of the moduli involved, without being 0
    let mut involved: Vec<u64> = a.bsk.clone();
    involved.extend(&a.q);
    involved.extend([a.mt, a.t, a.gamma]);
    for m in involved.into_iter().filter(|&m| m > 1) {
        for k in [1i128, 2, 3, -1, -2, -3] {
            for d in [0i128, 1, -1] {
                items.push(BigI::from_i128(k * m as i128 + d));
            }
        }
    }
    for ch in chunks(&items, n) {
        let input = pack(&ch.iter().map(|v| res_i(v, &a.bsk)).collect::<Vec<_>>(), n, a.bsk.len());
        let mut dest = vec![0u64; k * n];
        call("fastbconv_sk", || tool.fastbconv_sk(&input, &mut dest))?;
        for (j, v) in ch.iter().enumerate() {
            let exp = res_i(v, &a.q);
            let got = column(&dest, n, k, j);
            let two = v.add(v);
            let core = two.cmp(&bi_b.negate()) != std::cmp::Ordering::Less && two.cmp(&bi_b) == std::cmp::Ordering::Less;
            if got != exp {
                return Err(bad(
                    if core { "fastbconv_sk:core:wrong" } else { "fastbconv_sk:ext:wrong" },
                    format!("X={} (floor(X/B)={}) -> X mod q = {exp:?}", show(v), show(&v.div_floor(&a.bp))),
                    format!("{got:?}"),
                ));
            }
            let cls: u64 = if core { 1 } else { 2 };
            acc.mask |= cls << if v.neg { 2 } else { 0 };
            acc.steps += 1;
        }
    }
    Ok(())
}

// ---- steps 6-8 of bfv_multiply -----------------------------------------------------------

fn r_floor_chain(tool: &RNSTool, a: &Aux, xs: &[BigU], all: bool, acc: &mut Acc) -> Result<(), Bad> {
    let (n, k) = (a.n, a.q.len());
    let mut im = a.q.clone();
    im.extend(&a.bsk);
    let qi = bi(&a.qp);
    let tt = bi64(a.t.max(1));
    let mut items: Vec<BigI> = vec![];
    for x in xs {
        let v = bi(x);
        items.push(v.clone());
        items.push(v.negate().sub(&bi64(1)));
        // product of two centred-size operands
        items.push(v.mul(&qi.sub(&v)));
        items.push(v.mul(&qi.sub(&v)).negate());
    }
    if !all {
        let qq = qi.mul(&qi);
        let top = bi(&BigU::pow2(30)).mul(&qq);
        for base in [top.clone(), bi(&qq.mag.shr(2)), qq.clone()] {
            for d in -1..=1i128 {
                items.push(base.add(&BigI::from_i128(d)));
                items.push(base.add(&BigI::from_i128(d)).negate());
            }
        }
    }
    for ch in chunks(&items, n) {
        let scaled: Vec<BigI> = ch.iter().map(|v| v.mul(&tt)).collect();
        let input = pack(&scaled.iter().map(|v| res_i(v, &im)).collect::<Vec<_>>(), n, im.len());
        let mut mid = vec![0u64; a.bsk.len() * n];
        call("fast_floor", || tool.fast_floor(&input, &mut mid))?;
        let mut dest = vec![0u64; k * n];
        call("fastbconv_sk", || tool.fastbconv_sk(&mid, &mut dest))?;
        for (j, v) in scaled.iter().enumerate() {
            let f = v.div_floor(&a.qp);
            let got = column(&dest, n, k, j);
            match find_alpha(&got, &f, k, &a.q) {
                Some(al) => acc.mask |= (1 << al) | if v.neg { 1 << 32 } else { 0 },
                None => {
                    return Err(bad(
                        "floor_chain:no-alpha",
                        format!("t*a={} : residues mod q of floor(t a/Q) - a' = {} - a', a' in [0,{}]", show(v), show(&f), k - 1),
                        format!("{got:?}"),
                    ))
                }
            }
            acc.steps += 1;
        }
    }
    Ok(())
}

// ---- divisions by the last modulus -------------------------------------------------------

/// which = false: divide_and_round_q_last ; true: mod_t_and_divide_q_last
fn r_div_last(tool: &RNSTool, a: &Aux, ntt: Option<&[NTTTables]>, xs: &[BigU], bgv: bool, acc: &mut Acc) -> Result<(), Bad> {
    let (n, k) = (a.n, a.q.len());
    let name = if bgv { "mod_t_and_divide_q_last" } else { "divide_and_round_q_last" };
    let ql = a.q[k - 1];
    let qlu = BigU::from_u64(ql);
    let rest = &a.q[..k - 1];
    let inv_ql_t = if bgv { inv_mod_u64(ql % a.t, a.t).unwrap() } else { 0 };
    for ch in chunks(xs, n) {
        let input = pack(&ch.iter().map(|x| res_u(x, &a.q)).collect::<Vec<_>>(), n, k);
        // expected integers
        let exp: Vec<BigI> = ch
            .iter()
            .map(|x| {
                if bgv {
                    // y in [F - t + 1, F], y = x q_last^-1 (mod t)
                    let f = x.div(&qlu);
                    let rho = mul_mod(x.rem_u64(a.t), inv_ql_t, a.t);
                    let d = sub_mod(f.rem_u64(a.t), rho, a.t);
                    bi(&f).sub(&bi64(d))
                } else {
                    bi(&x.add(&BigU::from_u64(ql >> 1)).div(&qlu))
                }
            })
            .collect();
        let mut coef = input.clone();
        call(name, || if bgv { tool.mod_t_and_divide_q_last_inplace(&mut coef) } else { tool.divide_and_round_q_last_inplace(&mut coef) })?;
        for (j, x) in ch.iter().enumerate() {
            let e = res_i(&exp[j], rest);
            let got = column(&coef, n, k - 1, j);
            if got != e {
                return Err(bad(
                    &format!("{name}:coeff:wrong"),
                    format!("x={} q_last={ql} t={} -> {} mod {rest:?} = {e:?}", x.to_hex(), a.t, show(&exp[j])),
                    format!("{got:?}"),
                ));
            }
            if bgv {
                // the defining property, stated independently of the formula above
                let lhs = mul_mod(exp[j].rem_u64(a.t), ql % a.t, a.t);
                if lhs != x.rem_u64(a.t) {
                    return Err(bad("oracle-self-check", "y q_last = x mod t".into(), format!("{lhs}")));
                }
                acc.mask |= if exp[j].neg { 1 } else { 2 };
            } else {
                acc.mask |= if x.rem_u64(ql) > (ql - 1) / 2 { 1 } else { 2 };
            }
            acc.steps += 1;
        }
        if let Some(tabs) = ntt {
            let mut f = input.clone();
            for i in 0..k {
                call("ntt", || tabs[i].ntt_negacyclic_harvey(&mut f[i * n..(i + 1) * n]))?;
            }
            call(&format!("{name}_ntt"), || {
                if bgv {
                    tool.mod_t_and_divide_q_last_ntt_inplace(&mut f, tabs)
                } else {
                    tool.divide_and_round_q_last_ntt_inplace(&mut f, tabs)
                }
            })?;
            let mut fwd = coef.clone();
            for i in 0..k - 1 {
                call("ntt", || tabs[i].ntt_negacyclic_harvey(&mut fwd[i * n..(i + 1) * n]))?;
            }
            if f[..(k - 1) * n] != fwd[..(k - 1) * n] {
                let mut back = f.clone();
                for i in 0..k - 1 {
                    call("intt", || tabs[i].inverse_ntt_negacyclic_harvey(&mut back[i * n..(i + 1) * n]))?;
                }
                return Err(bad(
                    &format!("{name}:ntt-differs"),
                    format!("x={:?} : NTT of the coefficient-form result {:?} (coefficients {:?})", ch.iter().map(|x| x.to_hex()).collect::<Vec<_>>(), &fwd[..(k - 1) * n], &coef[..(k - 1) * n]),
                    format!("{:?} (inverse transform {:?})", &f[..(k - 1) * n], &back[..(k - 1) * n]),
                ));
            }
            acc.steps += ch.len() as u64;
            acc.mask |= 1 << 8;
        }
    }
    Ok(())
}

// ---- decryption roundings ----------------------------------------------------------------

fn r_scale_round(tool: &RNSTool, a: &Aux, xs: &[BigU], acc: &mut Acc) -> Result<(), Bad> {
    let (n, k) = (a.n, a.q.len());
    let tb = BigU::from_u64(a.t);
    for ch in chunks(xs, n) {
        let input = pack(&ch.iter().map(|x| res_u(x, &a.q)).collect::<Vec<_>>(), n, k);
        let mut dest = vec![0u64; n];
        call("decrypt_scale_and_round", || tool.decrypt_scale_and_round(&input, &mut dest))?;
        for (j, x) in ch.iter().enumerate() {
            let (m0, r) = x.mul(&tb).divrem(&a.qp);
            let two_r = r.shl(1);
            let down = m0.rem_u64(a.t);
            let up = m0.add(&BigU::one()).rem_u64(a.t);
            let allowed: Vec<u64> = if two_r < a.qp {
                acc.mask |= 1;
                vec![down]
            } else if two_r == a.qp {
                acc.mask |= 8;
                vec![down, up]
            } else if two_r.sub(&a.qp).mul_u64(a.gamma) < a.qp.mul_u64(2 * k as u64) {
                acc.mask |= 4;
                vec![down, up]
            } else {
                acc.mask |= 2;
                vec![up]
            };
            if !allowed.contains(&dest[j]) {
                return Err(bad(
                    "decrypt_scale_and_round:wrong",
                    format!("x={} t={} : round(t x/Q) mod t in {allowed:?} (t x = {} Q + {})", x.to_hex(), a.t, m0.to_hex(), r.to_hex()),
                    format!("{}", dest[j]),
                ));
            }
            acc.steps += 1;
        }
    }
    Ok(())
}

fn r_mod_t(tool: &RNSTool, a: &Aux, xs: &[BigU], acc: &mut Acc) -> Result<(), Bad> {
    let (n, k) = (a.n, a.q.len());
    for ch in chunks(xs, n) {
        let input = pack(&ch.iter().map(|x| res_u(x, &a.q)).collect::<Vec<_>>(), n, k);
        let mut dest = vec![0u64; n];
        call("decrypt_mod_t", || tool.decrypt_mod_t(&input, &mut dest))?;
        for (j, x) in ch.iter().enumerate() {
            let two_x = x.shl(1);
            let pos = x.rem_u64(a.t);
            let neg = bi(x).sub(&bi(&a.qp)).rem_u64(a.t);
            let dist = if two_x >= a.qp { two_x.sub(&a.qp) } else { a.qp.sub(&two_x) }; // |2x - Q|
            let allowed: Vec<u64> = if dist.shl(40) <= a.qp {
                acc.mask |= 4;
                vec![pos, neg]
            } else if two_x < a.qp {
                acc.mask |= 1;
                vec![pos]
            } else {
                acc.mask |= 2;
                vec![neg]
            };
            if !allowed.contains(&dest[j]) {
                return Err(bad("decrypt_mod_t:wrong", format!("x={} t={} : centred |x|_Q mod t in {allowed:?}", x.to_hex(), a.t), format!("{}", dest[j])));
            }
            acc.steps += 1;
        }
    }
    Ok(())
}

// ------------------------------------------------------------------------------------------
// tool sections
// ------------------------------------------------------------------------------------------

const ROUTINES: &[&str] = &[
    "constants",
    "fastbconv_m_tilde",
    "sm_mrq",
    "fast_floor",
    "fastbconv_sk",
    "floor_chain",
    "divide_and_round_q_last",
    "mod_t_and_divide_q_last",
    "decrypt_scale_and_round",
    "decrypt_mod_t",
];

fn applicable(routine: &str, k: usize, t: u64) -> bool {
    match routine {
        "divide_and_round_q_last" => k >= 2,
        "mod_t_and_divide_q_last" => k >= 2 && t != 0,
        "decrypt_scale_and_round" | "decrypt_mod_t" => t != 0,
        _ => true,
    }
}

fn run_routine(routine: &str, tool: &RNSTool, a: &Aux, ntt: Option<&[NTTTables]>, xs: &[BigU], all: bool, acc: &mut Acc) -> Result<(), Bad> {
    match routine {
        "constants" => r_constants(tool, a, acc),
        "fastbconv_m_tilde" => r_fastbconv_m_tilde(tool, a, xs, acc),
        "sm_mrq" => r_sm_mrq(tool, a, xs, acc),
        "fast_floor" => r_fast_floor(tool, a, xs, all, acc),
        "fastbconv_sk" => r_fastbconv_sk(tool, a, xs, all, acc),
        "floor_chain" => r_floor_chain(tool, a, xs, all, acc),
        "divide_and_round_q_last" => r_div_last(tool, a, ntt, xs, false, acc),
        "mod_t_and_divide_q_last" => r_div_last(tool, a, ntt, xs, true, acc),
        "decrypt_scale_and_round" => r_scale_round(tool, a, xs, acc),
        "decrypt_mod_t" => r_mod_t(tool, a, xs, acc),
        _ => Err(bad("unknown-routine", "".into(), routine.into())),
    }
}

#[derive(Serialize, Deserialize, Clone, Debug)]
pub struct ToolCase {
    pub n: usize,
    pub q: Vec<u64>,
    pub t: u64,
    pub routine: String,
    /// all integers of [0,Q) (else the boundary set)
    pub all: bool,
    /// this case handles the integers x with x % parts == part (all-mode only)
    pub part: u64,
    pub parts: u64,
}

/// Is (q, t) a parameter pair RNSTool::new has to accept?
fn tool_valid(q: &[u64], t: u64) -> bool {
    pairwise_coprime(q) && q.iter().all(|&p| p % 2 == 1 && p >= 3 && p < (1 << 60) && (t == 0 || gcd(p, t) == 1)) && (t == 0 || (t >= 2 && t < (1 << 60)))
}

fn check_tool(section: &str, c: &ToolCase, seed: u64) -> CaseOut {
    he::env_real(seed, h64(&serde_json::to_string(c).unwrap_or_default()));
    let k = c.q.len();
    let key = |tail: &str| format!("{section}:{}:k={k}:{}", c.routine, tail.strip_prefix(&format!("{}:", c.routine)).unwrap_or(tail));
    let valid = tool_valid(&c.q, c.t);
    let built = guard(|| RNSBase::new(&mods(&c.q)).and_then(|b| RNSTool::new(c.n, &b, &Modulus::new(c.t))));
    let tool = match (built, valid) {
        (Ok(Ok(t)), true) => t,
        (Ok(Ok(_)), false) => return CaseOut::fail(format!("{section}:new:k={k}:accepted-invalid"), "refusal: q not odd / not coprime to t", format!("q={:?} t={}", c.q, c.t)),
        (Ok(Err(_)), false) | (Err(_), false) => return CaseOut::skip("parameters outside the domain: refused"),
        (Ok(Err(e)), true) => return CaseOut::fail(format!("{section}:new:k={k}:refused-valid"), "RNSTool for odd pairwise coprime q coprime to t", e),
        (Err(p), true) => return CaseOut::fail(format!("{section}:new:k={k}:panic:{}", panic_class(&p)), "RNSTool for odd pairwise coprime q coprime to t", p),
    };
    if !applicable(&c.routine, k, c.t) {
        return CaseOut::skip("routine not applicable (needs t != 0 / two moduli)");
    }
    let a = match aux_of(&tool, c.n, c.t) {
        Ok(a) => a,
        Err(b) => return CaseOut::fail(key(&b.what), b.exp, b.obs),
    };
    // NTT tables when every q_i is a prime = 1 mod 2N
    let ntt: Option<Vec<NTTTables>> = if c.q.iter().all(|&p| is_prime_u64(p) && p % (2 * c.n as u64) == 1) {
        let lg = c.n.trailing_zeros() as usize;
        match guard(|| NTTTables::create_ntt_tables(lg, &mods(&c.q))) {
            Ok(Ok(t)) => Some(t),
            Ok(Err(e)) => return CaseOut::fail(key("ntt-tables-refused"), "NTT tables for primes = 1 mod 2N", e),
            Err(p) => return CaseOut::fail(key(&format!("ntt-tables-panic:{}", panic_class(&p))), "NTT tables", p),
        }
    } else {
        None
    };
    let xs: Vec<BigU> = if c.all {
        let qv = a.qp.to_u64().expect("all-mode needs a small product");
        (0..qv).filter(|x| x % c.parts == c.part).map(BigU::from_u64).collect()
    } else {
        boundary_xs(&c.q, c.t, seed)
    };
    let mut acc = Acc::default();
    match run_routine(&c.routine, &tool, &a, ntt.as_deref(), &xs, c.all, &mut acc) {
        Ok(()) => CaseOut::pass(acc.mask.count_ones() > 1, h64(&(c.routine.as_str(), k, acc.mask, ntt.is_some())), acc.steps),
        Err(b) => CaseOut::fail(key(&b.what), format!("q={:?} t={} N={} | {}", c.q, c.t, c.n, b.exp), b.obs),
    }
}

fn plain_moduli() -> Vec<u64> {
    // 0 = no plain modulus (CKKS); 60-bit prime = 3 mod 4 so that it never collides with the q primes (= 1 mod 4)
    let mut t60 = (1u64 << 60) - 1;
    while !(is_prime_u64(t60) && t60 % 4 == 3) {
        t60 -= 2;
    }
    vec![0, 2, 17, 1 << 20, t60]
}

fn tiny_bases(thorough: bool) -> Vec<Vec<u64>> {
    let mut v: Vec<Vec<u64>> = vec![
        vec![3],
        vec![13],
        vec![3, 5],
        vec![5, 3],
        vec![13, 17],
        vec![17, 13],
        vec![3, 5, 7],
        vec![7, 5, 3],
        vec![5, 7, 3],
        vec![5, 13, 17],
        vec![17, 13, 5],
        vec![13, 5, 17],
        vec![5, 7, 11, 13],
        vec![13, 11, 7, 5],
        vec![7, 13, 5, 11],
        vec![5, 13, 17, 29],
        vec![29, 17, 13, 5],
        vec![17, 29, 5, 13],
        vec![3, 5, 7, 11, 13],
        vec![13, 11, 7, 5, 3],
        // not acceptable: even product (Q must be invertible modulo m_tilde)
        vec![4, 3, 5],
    ];
    if thorough {
        v.extend([
            vec![3, 5, 7, 11, 13, 17],
            vec![17, 13, 11, 7, 5, 3],
            vec![5, 13, 17, 29, 37],
            vec![37, 29, 17, 13, 5],
            vec![29, 5, 37, 13, 17],
            vec![41, 29, 17, 13, 5],
            vec![3, 5, 7, 11, 13, 17, 19][1..6].to_vec(),
        ]);
    }
    v
}

fn tool_tiny_cases(thorough: bool) -> Vec<ToolCase> {
    let mut out = vec![];
    for q in tiny_bases(thorough) {
        let prod: u64 = q.iter().product();
        let parts = (prod / 6_000).max(1);
        for &t in &plain_moduli() {
            for r in ROUTINES {
                if *r == "constants" {
                    out.push(ToolCase { n: 2, q: q.clone(), t, routine: r.to_string(), all: true, part: 0, parts: 1 });
                    continue;
                }
                for part in 0..parts {
                    out.push(ToolCase { n: 2, q: q.clone(), t, routine: r.to_string(), all: true, part, parts });
                }
            }
        }
    }
    // simplest first
    out.sort_by_key(|c| (c.q.iter().product::<u64>(), c.q.len()));
    out
}

fn real_bases(thorough: bool) -> Vec<Vec<u64>> {
    let p60 = p1(60, 8);
    let p30 = p1(30, 4);
    let asc = |v: &[u64]| {
        let mut w = v.to_vec();
        w.sort();
        w
    };
    let desc = |v: &[u64]| {
        let mut w = asc(v);
        w.reverse();
        w
    };
    let mut v = vec![
        vec![p60[0]],
        vec![p30[0]],
        asc(&p60[..2]),
        desc(&p60[..2]),
        asc(&p60[..4]),
        desc(&p60[..4]),
        asc(&p60[..6]),
        desc(&p60[..6]),
        asc(&p30[..3]),
        desc(&p30[..3]),
        vec![p30[0], p60[0], p1(40, 1)[0], p1(59, 1)[0]],
        vec![p60[1], p1(20, 1)[0], p60[0]],
        vec![p1(59, 1)[0], 5, p60[2]],
    ];
    if thorough {
        v.extend([
            asc(&p60[..8]),
            desc(&p60[..8]),
            asc(&p60[..3]),
            desc(&p60[..5]),
            asc(&p1(59, 6)),
            desc(&p1(50, 7)),
            vec![p60[3], p30[1], p60[0], p30[0], p60[5], 13, p1(45, 1)[0]],
            asc(&p1(40, 5)),
            vec![p1(13, 1)[0], p1(20, 1)[0], p1(31, 1)[0]],
        ]);
    }
    v
}

fn tool_real_cases(thorough: bool) -> Vec<ToolCase> {
    let mut out = vec![];
    for q in real_bases(thorough) {
        for &t in &plain_moduli() {
            for r in ROUTINES {
                out.push(ToolCase { n: 2, q: q.clone(), t, routine: r.to_string(), all: false, part: 0, parts: 1 });
            }
        }
    }
    out.sort_by_key(|c| c.q.len());
    out
}

// ---- contexts' own instances ---------------------------------------------------------------

#[derive(Serialize, Deserialize, Clone, Debug)]
pub struct CtxCase {
    pub spec: ParamSpec,
    pub routine: String,
}

fn check_ctx(c: &CtxCase, seed: u64) -> CaseOut {
    he::env_real(seed, h64(&(serde_json::to_string(&c.spec).unwrap_or_default(), c.routine.as_str())));
    let ctx = match guard(|| c.spec.context()) {
        Ok(x) => x,
        Err(p) => return CaseOut::fail(format!("tool_ctx:context:panic:{}", panic_class(&p)), "context", p),
    };
    if !ctx.parameters_set() {
        return CaseOut::skip("parameter set rejected by the library");
    }
    let mut acc = Acc::default();
    let mut levels = 0u64;
    let mut cd = Some(ctx.key_context_data().unwrap());
    let mut first = true;
    while let Some(d) = cd {
        let qv: Vec<u64> = d.parms().coeff_modulus().iter().map(|m| m.value()).collect();
        let t = if c.spec.scheme == Scheme::CKKS { 0 } else { c.spec.t };
        let k = qv.len();
        if applicable(&c.routine, k, t) {
            let tool = d.verif_rns_tool();
            let key = |tail: &str| format!("tool_ctx:{}:k={k}:{}", c.routine, tail.strip_prefix(&format!("{}:", c.routine)).unwrap_or(tail));
            let a = match aux_of(tool, c.spec.n, t) {
                Ok(a) => a,
                Err(b) => return CaseOut::fail(key(&b.what), b.exp, b.obs),
            };
            if a.q != qv {
                return CaseOut::fail(key("base_q"), format!("{qv:?}"), format!("{:?}", a.q));
            }
            let xs = boundary_xs(&qv, t, seed);
            if let Err(b) = run_routine(&c.routine, tool, &a, Some(d.small_ntt_tables().as_slice()), &xs, false, &mut acc) {
                return CaseOut::fail(key(&b.what), format!("{} level q={qv:?} | {}", c.spec.label(), b.exp), b.obs);
            }
            levels += 1;
        }
        // key level -> first data level -> ... -> last
        cd = if first {
            first = false;
            let f = ctx.first_context_data().unwrap();
            if f.parms_id() == d.parms_id() {
                d.next_context_data()
            } else {
                Some(f)
            }
        } else {
            d.next_context_data()
        };
    }
    if levels == 0 {
        return CaseOut::skip("routine not applicable at any level");
    }
    CaseOut::pass(acc.mask.count_ones() > 1, h64(&(c.routine.as_str(), acc.mask, levels)), acc.steps)
}

fn ctx_cases(thorough: bool) -> Vec<CtxCase> {
    let mut specs = vec![
        ParamSpec::new(Scheme::BFV, 8, he::chain(8, &[60, 60, 60]), 17),
        ParamSpec::new(Scheme::BFV, 4, he::chain(4, &[30, 30, 30, 30]), 1 << 20),
        ParamSpec::new(Scheme::BGV, 8, he::chain(8, &[40, 59, 60]), 17),
        ParamSpec::new(Scheme::BGV, 4, he::chain(4, &[60, 60]), 97),
        ParamSpec::new(Scheme::CKKS, 8, he::chain(8, &[60, 40, 40, 60]), 0),
        ParamSpec::new(Scheme::CKKS, 4, he::chain(4, &[30, 30]), 0),
        // every prime = 1 (mod 2N*t): q_last^-1 mod t == 1 at every level, the special case of the BGV division
        // (this is what a SEAL-style "create with plain modulus" prime choice produces) — added after seeded change C10-D
        ParamSpec::new(Scheme::BGV, 4, crate::refmodel::bigu::primes_1_mod(8 * 17, 40, 3), 17),
        ParamSpec::new(Scheme::BGV, 8, crate::refmodel::bigu::primes_1_mod(16 * 97, 50, 4), 97),
    ];
    if thorough {
        specs.extend([
            ParamSpec::new(Scheme::BFV, 16, he::chain(16, &[60, 60, 60, 60, 60, 60]), 97),
            ParamSpec::new(Scheme::BFV, 2, he::chain(2, &[20, 30]), 5),
            ParamSpec::new(Scheme::BGV, 16, he::chain(16, &[59, 60, 30, 60, 40]), 1 << 20),
            ParamSpec::new(Scheme::BGV, 8, he::chain(8, &[60, 60, 60, 60]), he::ntt_primes(8, 59, 1)[0]),
            ParamSpec::new(Scheme::CKKS, 16, he::chain(16, &[60, 60, 60, 60, 60, 60, 60, 60]), 0),
        ]);
        let mut s = ParamSpec::new(Scheme::BFV, 8, he::chain(8, &[60, 60, 60]), 17);
        s.special_enc = true;
        specs.push(s);
    }
    let mut out = vec![];
    for s in specs {
        for r in ROUTINES {
            out.push(CtxCase { spec: s.clone(), routine: r.to_string() });
        }
    }
    out
}

// ==========================================================================================
// production-size sections: big_base, big_tool, big_ctx
//
// The sections above stop at 8 moduli and N = 2..16. The ones below drive the two dimensions every loop of rns.rs
// runs over — the number of moduli of the base(s) and the number of coefficients of the arrays — across
// 8/9, 16/17, 18 (thorough: 32/33, 64) moduli and 1, 2, 63, 64, 65, 128, 256, 1024 (thorough: 4096, 8192)
// coefficients. The per-coefficient oracles are the same integer specifications as above, re-stated so that no
// multi-word division is needed (the bit-by-bit BigU division would dominate at 18 x 61 bits x 4096 coefficients):
// quotients are known by construction (a = x + Q h with 0 <= x < Q), congruences modulo Q are tested modulo every
// q_i, and a claimed quotient M is verified by M Q <= t x < (M+1) Q instead of being computed.
// Every array holds pairwise different integers (boundary integers at its head and at its tail, generic ones between),
// so a transposed / strided / block-shifted coefficient is seen; the "unit" families put one non-zero integer at
// every single position of an otherwise zero array.
// ==========================================================================================

/// x / d and x % d for a one-word divisor (limb-wise schoolbook long division)
fn div_small(x: &BigU, d: u64) -> (BigU, u64) {
    let mut out = vec![0u64; x.0.len()];
    let mut r: u128 = 0;
    for i in (0..x.0.len()).rev() {
        let cur = (r << 64) | x.0[i] as u128;
        out[i] = (cur / d as u128) as u64;
        r = cur % d as u128;
    }
    (BigU::from_limbs(&out), r as u64)
}

/// (prod_{j != i} m_j) mod p
fn punct_mod(m: &[u64], i: usize, p: u64) -> u64 {
    m.iter().enumerate().filter(|(j, _)| *j != i).fold(1 % p, |acc, (_, &x)| mul_mod(acc, x % p, p))
}

/// the integer x in [0, P) whose CRT coefficients |x (P/p_i)^-1|_{p_i} are c_i:  x = c_i (P/p_i) (mod p_i)
fn from_crt_coeffs(m: &[u64], c: &[u64]) -> BigU {
    let r: Vec<u64> = (0..m.len()).map(|i| mul_mod(c[i] % m[i], punct_mod(m, i, m[i]), m[i])).collect();
    crt(&r, m)
}

/// integers whose CRT coefficients are extreme (all p_i - 1, all but one, alternating, all halves): the sums
/// sum_i c_i (P/p_i mod p') formed by a base conversion are then as large as the base allows, and the overshoot is k-1
fn lazy_extremes(m: &[u64]) -> Vec<BigU> {
    let k = m.len();
    let top: Vec<u64> = m.iter().map(|&p| p - 1).collect();
    let mut sets: Vec<Vec<u64>> = vec![top.clone(), m.iter().map(|&p| (p - 1) / 2).collect(), m.iter().map(|&p| p / 2 + 1).collect()];
    let mut a = top.clone();
    a[0] = 0;
    sets.push(a);
    let mut b = top.clone();
    b[k - 1] = 0;
    sets.push(b);
    sets.push((0..k).map(|i| if i % 2 == 0 { top[i] } else { 0 }).collect());
    sets.push((0..k).map(|i| if i % 2 == 1 { top[i] } else { 1 }).collect());
    sets.iter().map(|c| from_crt_coeffs(m, c)).collect()
}

/// the integer whose every single term c_i (P/p_i) mod pt of the conversion to the prime pt is within 64 of pt - 1
/// (a sum of individually reduced terms is then about k*pt)
fn term_extremes(m: &[u64], pt: u64) -> BigU {
    let c: Vec<u64> = (0..m.len())
        .map(|i| {
            let mi = punct_mod(m, i, pt);
            match inv_mod_u64(mi, pt) {
                Some(inv) if pt > 128 && mi != 0 => (0..64u64).map(|d| mul_mod(pt - 1 - d, inv, pt)).find(|&c| c < m[i]).unwrap_or(m[i] - 1),
                _ => m[i] - 1,
            }
        })
        .collect();
    from_crt_coeffs(m, &c)
}

fn sort_dedup(mut v: Vec<BigU>) -> Vec<BigU> {
    v.sort();
    v.dedup();
    v
}

fn generic_below(p: &BigU, seed: u64, j: usize, tag: &str) -> BigU {
    p.mul_u64(h64(&(seed, j as u64, tag)) | 1).shr(64)
}

fn zero_col(got: &[u64]) -> bool {
    got.iter().all(|&g| g == 0)
}

/// How the integers of a case are laid out into arrays of n coefficients.
///  fill: the special integers, then generic ones up to a multiple of n, the last positions overwritten with the
///        special integers again (head and tail of the arrays both see boundary values)
///  unit: n arrays; array c is zero except for position c, which holds special integer c mod #specials
struct Feed<T> {
    n: usize,
    unit: bool,
    specials: Vec<T>,
    zero: T,
    flat: Vec<T>,
}

impl<T: Clone> Feed<T> {
    fn new(n: usize, unit: bool, specials: Vec<T>, zero: T, generic: impl Fn(usize) -> T) -> Self {
        assert!(!specials.is_empty());
        let flat = if unit {
            vec![]
        } else {
            let len = specials.len().div_ceil(n) * n;
            let mut v = specials.clone();
            while v.len() < len {
                let j = v.len();
                v.push(generic(j));
            }
            let tail = specials.len().min(len - specials.len());
            for i in 0..tail {
                v[len - 1 - i] = specials[i].clone();
            }
            v
        };
        Feed { n, unit, specials, zero, flat }
    }
    fn chunks(&self) -> usize {
        if self.unit {
            self.n
        } else {
            self.flat.len() / self.n
        }
    }
    fn chunk(&self, c: usize) -> Vec<T> {
        if self.unit {
            let mut v = vec![self.zero.clone(); self.n];
            v[c] = self.specials[c % self.specials.len()].clone();
            v
        } else {
            self.flat[c * self.n..(c + 1) * self.n].to_vec()
        }
    }
}

/// special integers of [0, Q) for the routines that take a q-residue vector
fn q_specials(a: &Aux, seed: u64) -> Vec<BigU> {
    let mut v = boundary_xs(&a.q, a.t, seed);
    v.extend(lazy_extremes(&a.q));
    for &p in &a.bsk {
        v.push(term_extremes(&a.q, p));
    }
    if a.t != 0 {
        v.push(term_extremes(&a.q, a.gamma));
    }
    sort_dedup(v)
}

fn x_feed(a: &Aux, seed: u64, unit: bool) -> Feed<BigU> {
    let qp = a.qp.clone();
    Feed::new(a.n, unit, q_specials(a, seed), BigU::zero(), move |j| generic_below(&qp, seed, j, "c10-big-x"))
}

/// |m~ x|_Q from the residues of x: the integer below Q with residues m~ x_i mod q_i
fn mt_times(a: &Aux, xr: &[u64]) -> BigU {
    crt(&xr.iter().zip(&a.q).map(|(&r, &p)| mul_mod(r, a.mt % p, p)).collect::<Vec<_>>(), &a.q)
}

// ---- Bsk NTT tables: functional (order- and root-agnostic) ------------------------------------

/// table i has to be a negacyclic transform modulo Bsk[i]: INTT(NTT(X) . NTT(X^(N-1))) = X^N = -1 with the pointwise
/// products taken modulo Bsk[i], and INTT(NTT(c)) = c for the constant-(p-1) vector
fn f_bsk_tables(tool: &RNSTool, a: &Aux, acc: &mut Acc) -> Result<(), Bad> {
    let n = a.n;
    let tabs = tool.base_Bsk_ntt_tables();
    for (i, &p) in a.bsk.iter().enumerate() {
        let tab = &tabs[i];
        let mut x1 = vec![0u64; n];
        x1[1] = 1;
        let mut x2 = vec![0u64; n];
        x2[n - 1] = 1;
        let mut c = vec![p - 1; n];
        call("const:Bsk_ntt_tables", || {
            tab.ntt_negacyclic_harvey(&mut x1);
            tab.ntt_negacyclic_harvey(&mut x2);
            tab.ntt_negacyclic_harvey(&mut c);
            tab.inverse_ntt_negacyclic_harvey(&mut c);
        })?;
        let mut prod: Vec<u64> = x1.iter().zip(&x2).map(|(&u, &v)| mul_mod(u % p, v % p, p)).collect();
        call("const:Bsk_ntt_tables", || tab.inverse_ntt_negacyclic_harvey(&mut prod))?;
        let ok = prod[0] == p - 1 && prod[1..].iter().all(|&v| v == 0) && c.iter().all(|&v| v == p - 1);
        if !ok {
            return Err(bad(
                "const:Bsk_ntt_tables:not-for-modulus",
                format!("table {i} of {} transforms modulo Bsk[{i}] = {p}: X * X^(N-1) = -1 and INTT(NTT(p-1,...)) = (p-1,...)", a.bsk.len()),
                format!("product {:?}.. roundtrip {:?}..", &prod[..n.min(4)], &c[..n.min(4)]),
            ));
        }
        acc.steps += 2;
    }
    acc.mask |= 8;
    Ok(())
}

// ---- fast per-coefficient oracles -------------------------------------------------------------

fn f_fastbconv_m_tilde(tool: &RNSTool, a: &Aux, feed: &Feed<BigU>, acc: &mut Acc) -> Result<(), Bad> {
    let (n, k) = (a.n, a.q.len());
    let mut om = a.bsk.clone();
    om.push(a.mt);
    let q_om = res_u(&a.qp, &om);
    for ci in 0..feed.chunks() {
        let ch = feed.chunk(ci);
        let rs: Vec<Vec<u64>> = ch.iter().map(|x| res_u(x, &a.q)).collect();
        let input = pack(&rs, n, k);
        let mut dest = vec![0u64; om.len() * n];
        call("fastbconv_m_tilde", || tool.fastbconv_m_tilde(&input, &mut dest))?;
        for (j, x) in ch.iter().enumerate() {
            let got = column(&dest, n, om.len(), j);
            acc.steps += 1;
            if x.is_zero() && zero_col(&got) {
                continue;
            }
            let c = mt_times(a, &rs[j]);
            let c_om = res_u(&c, &om);
            let alpha = (0..k as u64).find(|&al| (0..om.len()).all(|i| add_mod(c_om[i], mul_mod(al % om[i], q_om[i], om[i]), om[i]) == got[i]));
            match alpha {
                Some(al) => acc.mask |= 1 << al.min(40),
                None => {
                    return Err(bad(
                        "fastbconv_m_tilde:no-alpha",
                        format!("coefficient {j} of {n}: x={} : residues mod {om:?} of |m~ x|_Q + a Q = {} + a*{} for one a in [0,{}]", x.to_hex(), c.to_hex(), a.qp.to_hex(), k - 1),
                        format!("{got:?}"),
                    ))
                }
            }
        }
    }
    Ok(())
}

fn f_sm_mrq(tool: &RNSTool, a: &Aux, seed: u64, unit: bool, acc: &mut Acc) -> Result<(), Bad> {
    let (n, k) = (a.n, a.q.len());
    let mut im = a.bsk.clone();
    im.push(a.mt);
    let nb = a.bsk.len();
    // c'' = |m~ x|_Q + aQ for a in {0, 1, k-1}, and the extremes of the centred Montgomery digit in every window [aQ, (a+1)Q)
    let mut alphas = vec![0u64, 1.min(k as u64 - 1), k as u64 - 1];
    alphas.dedup();
    let mut specials: Vec<BigU> = vec![];
    for x in q_specials(a, seed) {
        let c = mt_times(a, &res_u(&x, &a.q));
        for &al in &alphas {
            specials.push(c.add(&a.qp.mul_u64(al)));
        }
    }
    if a.qp.bits() > 34 {
        let qlow = a.qp.rem_u64(a.mt);
        for al in 0..k as u64 {
            let lo = a.qp.mul_u64(al);
            for r in [1u64 << 31, (1 << 31) - 1, (1 << 31) + 1, 0, 1, (1 << 32) - 1] {
                let want = (a.mt - mul_mod(r, qlow, a.mt)) % a.mt;
                let base = lo.shr(32).shl(32).add(&BigU::from_u64(want));
                specials.push(if base < lo { base.add(&BigU::from_u64(a.mt)) } else { base });
            }
        }
    }
    let qp = a.qp.clone();
    let kk = k as u64;
    let feed = Feed::new(n, unit, specials, BigU::zero(), move |j| generic_below(&qp, seed, j, "c10-big-mrq").add(&qp.mul_u64(j as u64 % kk)));
    let qi = bi(&a.qp);
    let upper = bi(&a.qp.mul_u64(a.mt).add(&a.qp.mul_u64(2 * (k as u64 - 1))));
    for ci in 0..feed.chunks() {
        let ch = feed.chunk(ci);
        let input = pack(&ch.iter().map(|c| res_u(c, &im)).collect::<Vec<_>>(), n, im.len());
        let mut dest = vec![0u64; nb * n];
        call("sm_mrq", || tool.sm_mrq(&input, &mut dest))?;
        for (j, c) in ch.iter().enumerate() {
            let got = column(&dest, n, nb, j);
            acc.steps += 1;
            if c.is_zero() && zero_col(&got) {
                continue;
            }
            if got.iter().zip(&a.bsk).any(|(r, p)| r >= p) {
                return Err(bad("sm_mrq:unreduced", "residues below their moduli".into(), format!("coefficient {j}: {got:?}")));
            }
            let y = crt_centered(&got, &a.bsk, &a.bskp);
            let two_y = y.add(&y);
            // m~ y = c'' modulo every q_i (<=> modulo Q)
            let congruent = a.q.iter().all(|&p| mul_mod(y.rem_u64(p), a.mt % p, p) == c.rem_u64(p));
            let lo_ok = two_y.cmp(&qi.negate()) != std::cmp::Ordering::Less;
            let hi_ok = two_y.mul(&bi64(a.mt)).cmp(&upper) == std::cmp::Ordering::Less;
            if !(congruent && lo_ok && hi_ok) {
                return Err(bad(
                    if !congruent { "sm_mrq:not-congruent" } else { "sm_mrq:outside-window" },
                    format!("coefficient {j} of {n}: c''={} (= |m~ x|_Q + aQ, a <= k-1) : m~ y = c'' (mod Q), -Q/2 <= y < Q/2 + (k-1)Q/m~", c.to_hex()),
                    format!("y={} residues {got:?}", show(&y)),
                ));
            }
            acc.mask |= if y.neg { 1 } else if two_y.cmp(&qi) == std::cmp::Ordering::Greater { 4 } else { 2 };
        }
    }
    Ok(())
}

/// (x, h) stands for the integer a = x + Q h, 0 <= x < Q: floor(a/Q) = h by construction
#[derive(Clone)]
struct XH {
    x: BigU,
    h: BigI,
}

impl XH {
    fn val(&self, a: &Aux) -> BigI {
        bi(&self.x).add(&bi(&a.qp).mul(&self.h))
    }
    fn is_zero(&self) -> bool {
        self.x.is_zero() && self.h.mag.is_zero()
    }
}

fn xh_feed(a: &Aux, seed: u64, unit: bool, hs_special: &[BigI], hs_generic: Vec<BigI>, tag: &'static str) -> Feed<XH> {
    let mut specials = vec![];
    for x in q_specials(a, seed) {
        for h in hs_special {
            specials.push(XH { x: x.clone(), h: h.clone() });
        }
    }
    let qp = a.qp.clone();
    Feed::new(a.n, unit, specials, XH { x: BigU::zero(), h: bi64(0) }, move |j| XH { x: generic_below(&qp, seed, j, tag), h: hs_generic[j % hs_generic.len()].clone() })
}

fn f_fast_floor(tool: &RNSTool, a: &Aux, seed: u64, unit: bool, acc: &mut Acc) -> Result<(), Bad> {
    let (n, k) = (a.n, a.q.len());
    let nb = a.bsk.len();
    let mut im = a.q.clone();
    im.extend(&a.bsk);
    let tq = bi(&a.qp.mul_u64(a.t.max(1)));
    let big = bi(&BigU::pow2(30).mul(&tq.mag));
    let half = bi(&a.bskp.shr(1));
    let hs_special = [bi64(0), BigI::from_i128(-1), big.clone(), big.negate().sub(&bi64(1)), half.clone()];
    let hs_generic = vec![bi64(0), bi64(1), BigI::from_i128(-1), BigI::from_i128(-2), tq.clone(), tq.negate(), bi64(k as u64), big.clone(), big.negate(), big.sub(&bi64(1)), half.clone(), half.negate(), half.sub(&bi64(1))];
    let feed = xh_feed(a, seed, unit, &hs_special, hs_generic, "c10-big-floor");
    for ci in 0..feed.chunks() {
        let ch = feed.chunk(ci);
        let input = pack(&ch.iter().map(|v| res_i(&v.val(a), &im)).collect::<Vec<_>>(), n, im.len());
        let mut dest = vec![0u64; nb * n];
        call("fast_floor", || tool.fast_floor(&input, &mut dest))?;
        for (j, v) in ch.iter().enumerate() {
            let got = column(&dest, n, nb, j);
            acc.steps += 1;
            if v.is_zero() && zero_col(&got) {
                continue;
            }
            let hres = res_i(&v.h, &a.bsk);
            let alpha = (0..k as u64).find(|&al| (0..nb).all(|i| sub_mod(hres[i], al % a.bsk[i], a.bsk[i]) == got[i]));
            match alpha {
                Some(al) => acc.mask |= (1 << al.min(40)) | if v.h.neg { 1 << 42 } else { 0 },
                None => {
                    return Err(bad(
                        "fast_floor:no-alpha",
                        format!("coefficient {j} of {n}: a = x + Q h, x={} h={} : residues mod Bsk of floor(a/Q) - a' = h - a', a' in [0,{}]", v.x.to_hex(), show(&v.h), k - 1),
                        format!("{got:?}"),
                    ))
                }
            }
        }
    }
    Ok(())
}

fn f_fastbconv_sk(tool: &RNSTool, a: &Aux, seed: u64, unit: bool, acc: &mut Acc) -> Result<(), Bad> {
    let (n, k) = (a.n, a.q.len());
    let nb = a.bsk.len();
    let bi_b = bi(&a.bp);
    let half_msk = (a.msk / 2) as i128;
    let e_min = a.b.len() as i128 - 1 - half_msk;
    let e_max = half_msk;
    let mut specials: Vec<BigI> = vec![];
    // every special integer of [0,Q) as target, both signs (|X| < Q < B/2: the core domain)
    for x in q_specials(a, seed) {
        specials.push(bi(&x));
        specials.push(bi(&x).negate());
    }
    // positions inside [0,B) (boundary integers of B, extreme CRT coefficients of B) x quotients e = floor(X/B) of the specified range
    let mut ys = boundary_xs(&a.b, 0, 7);
    ys.extend(lazy_extremes(&a.b));
    ys.push(term_extremes(&a.b, a.msk));
    ys.push(term_extremes(&a.b, a.q[0]));
    let ys = sort_dedup(ys);
    let es: Vec<i128> = [0, -1, 1, 2, -2, a.t.max(1) as i128, 1 << 32, -(1 << 32), e_max, e_max - 1, e_min, e_min + 1].into_iter().filter(|e| (e_min..=e_max).contains(e)).collect();
    for (ei, &e) in es.iter().enumerate() {
        // e = 0 with every position; the other quotients with every 4th position (rotating), to keep many-prime bases affordable
        for (yi, y) in ys.iter().enumerate() {
            if e == 0 || (yi + ei) % 4 == 0 {
                specials.push(bi(y).add(&bi_b.mul(&BigI::from_i128(e))));
            }
        }
    }
    let bp = a.bp.clone();
    let bb = bi_b.clone();
    let es2 = es.clone();
    let feed = Feed::new(n, unit, specials, bi64(0), move |j| bi(&generic_below(&bp, seed, j, "c10-big-sk")).add(&bb.mul(&BigI::from_i128(es2[j % es2.len()]))));
    for ci in 0..feed.chunks() {
        let ch = feed.chunk(ci);
        let input = pack(&ch.iter().map(|v| res_i(v, &a.bsk)).collect::<Vec<_>>(), n, nb);
        let mut dest = vec![0u64; k * n];
        call("fastbconv_sk", || tool.fastbconv_sk(&input, &mut dest))?;
        for (j, v) in ch.iter().enumerate() {
            let got = column(&dest, n, k, j);
            acc.steps += 1;
            if v.mag.is_zero() && zero_col(&got) {
                continue;
            }
            let exp = res_i(v, &a.q);
            let two = v.add(v);
            let core = two.cmp(&bi_b.negate()) != std::cmp::Ordering::Less && two.cmp(&bi_b) == std::cmp::Ordering::Less;
            if got != exp {
                return Err(bad(
                    if core { "fastbconv_sk:core:wrong" } else { "fastbconv_sk:ext:wrong" },
                    format!("coefficient {j} of {n}: X={} (floor(X/B) in [{e_min},{e_max}]) -> X mod q = {exp:?}", show(v)),
                    format!("{got:?}"),
                ));
            }
            let cls: u64 = if core { 1 } else { 2 };
            acc.mask |= cls << if v.neg { 2 } else { 0 };
        }
    }
    Ok(())
}

fn f_floor_chain(tool: &RNSTool, a: &Aux, seed: u64, unit: bool, acc: &mut Acc) -> Result<(), Bad> {
    let (n, k) = (a.n, a.q.len());
    let nb = a.bsk.len();
    let mut im = a.q.clone();
    im.extend(&a.bsk);
    // |floor(a/Q)| <= 2^30 t Q: inside the exact range of fastbconv_sk by the sizing invariant 2^32 t Q < B m_sk
    let tq = bi(&a.qp.mul_u64(a.t.max(1)));
    let big = bi(&BigU::pow2(30).mul(&tq.mag));
    let hs_special = [bi64(0), BigI::from_i128(-1), big.clone(), big.negate()];
    let hs_generic = vec![bi64(0), bi64(1), BigI::from_i128(-1), BigI::from_i128(-2), tq.clone(), tq.negate(), bi(&a.qp), bi(&a.qp).negate(), big.clone(), big.negate(), big.sub(&bi64(1))];
    let feed = xh_feed(a, seed, unit, &hs_special, hs_generic, "c10-big-chain");
    for ci in 0..feed.chunks() {
        let ch = feed.chunk(ci);
        let input = pack(&ch.iter().map(|v| res_i(&v.val(a), &im)).collect::<Vec<_>>(), n, im.len());
        let mut mid = vec![0u64; nb * n];
        call("fast_floor", || tool.fast_floor(&input, &mut mid))?;
        let mut dest = vec![0u64; k * n];
        call("fastbconv_sk", || tool.fastbconv_sk(&mid, &mut dest))?;
        for (j, v) in ch.iter().enumerate() {
            let got = column(&dest, n, k, j);
            acc.steps += 1;
            if v.is_zero() && zero_col(&got) {
                continue;
            }
            let hres = res_i(&v.h, &a.q);
            let alpha = (0..k as u64).find(|&al| (0..k).all(|i| sub_mod(hres[i], al % a.q[i], a.q[i]) == got[i]));
            match alpha {
                Some(al) => acc.mask |= (1 << al.min(40)) | if v.h.neg { 1 << 42 } else { 0 },
                None => {
                    return Err(bad(
                        "floor_chain:no-alpha",
                        format!("coefficient {j} of {n}: a = x + Q h, x={} h={} : residues mod q of floor(a/Q) - a' = h - a', a' in [0,{}]", v.x.to_hex(), show(&v.h), k - 1),
                        format!("{got:?}"),
                    ))
                }
            }
        }
    }
    Ok(())
}

fn f_div_last(tool: &RNSTool, a: &Aux, ntt: Option<&[NTTTables]>, feed: &Feed<BigU>, bgv: bool, acc: &mut Acc) -> Result<(), Bad> {
    let (n, k) = (a.n, a.q.len());
    let name = if bgv { "mod_t_and_divide_q_last" } else { "divide_and_round_q_last" };
    let ql = a.q[k - 1];
    let rest = &a.q[..k - 1];
    let inv_ql_t = if bgv { inv_mod_u64(ql % a.t, a.t).unwrap() } else { 0 };
    for ci in 0..feed.chunks() {
        let ch = feed.chunk(ci);
        let input = pack(&ch.iter().map(|x| res_u(x, &a.q)).collect::<Vec<_>>(), n, k);
        let mut coef = input.clone();
        call(name, || if bgv { tool.mod_t_and_divide_q_last_inplace(&mut coef) } else { tool.divide_and_round_q_last_inplace(&mut coef) })?;
        for (j, x) in ch.iter().enumerate() {
            let got = column(&coef, n, k - 1, j);
            acc.steps += 1;
            if x.is_zero() && zero_col(&got) {
                continue;
            }
            let exp: BigI = if bgv {
                // y in [F - t + 1, F], y = x q_last^-1 (mod t)
                let (f, _) = div_small(x, ql);
                let rho = mul_mod(x.rem_u64(a.t), inv_ql_t, a.t);
                let d = sub_mod(f.rem_u64(a.t), rho, a.t);
                let y = bi(&f).sub(&bi64(d));
                if mul_mod(y.rem_u64(a.t), ql % a.t, a.t) != x.rem_u64(a.t) {
                    return Err(bad("oracle-self-check", "y q_last = x mod t".into(), show(&y)));
                }
                acc.mask |= if y.neg { 1 } else { 2 };
                y
            } else {
                let xh = x.add(&BigU::from_u64(ql >> 1));
                let (f, r) = div_small(&xh, ql);
                if f.mul_u64(ql).add(&BigU::from_u64(r)) != xh {
                    return Err(bad("oracle-self-check", "f q_last + r = x + floor(q_last/2)".into(), f.to_hex()));
                }
                acc.mask |= if x.rem_u64(ql) > (ql - 1) / 2 { 1 } else { 2 };
                bi(&f)
            };
            let e = res_i(&exp, rest);
            if got != e {
                return Err(bad(
                    &format!("{name}:coeff:wrong"),
                    format!("coefficient {j} of {n}: x={} q_last={ql} t={} -> {} mod {rest:?} = {e:?}", x.to_hex(), a.t, show(&exp)),
                    format!("{got:?}"),
                ));
            }
        }
        if let Some(tabs) = ntt {
            let mut f = input.clone();
            for i in 0..k {
                call("ntt", || tabs[i].ntt_negacyclic_harvey(&mut f[i * n..(i + 1) * n]))?;
            }
            call(&format!("{name}_ntt"), || {
                if bgv {
                    tool.mod_t_and_divide_q_last_ntt_inplace(&mut f, tabs)
                } else {
                    tool.divide_and_round_q_last_ntt_inplace(&mut f, tabs)
                }
            })?;
            let mut fwd = coef.clone();
            for i in 0..k - 1 {
                call("ntt", || tabs[i].ntt_negacyclic_harvey(&mut fwd[i * n..(i + 1) * n]))?;
            }
            if f[..(k - 1) * n] != fwd[..(k - 1) * n] {
                let pos = (0..(k - 1) * n).find(|&i| f[i] != fwd[i]).unwrap();
                return Err(bad(
                    &format!("{name}:ntt-differs"),
                    format!("array {ci}: the NTT-form result equals the transform of the coefficient-form result (component {} slot {}: {})", pos / n, pos % n, fwd[pos]),
                    format!("{}", f[pos]),
                ));
            }
            acc.steps += ch.len() as u64;
            acc.mask |= 1 << 8;
        }
    }
    Ok(())
}

fn f_scale_round(tool: &RNSTool, a: &Aux, feed: &Feed<BigU>, acc: &mut Acc) -> Result<(), Bad> {
    let (n, k) = (a.n, a.q.len());
    for ci in 0..feed.chunks() {
        let ch = feed.chunk(ci);
        let input = pack(&ch.iter().map(|x| res_u(x, &a.q)).collect::<Vec<_>>(), n, k);
        let mut dest = vec![0u64; n];
        call("decrypt_scale_and_round", || tool.decrypt_scale_and_round(&input, &mut dest))?;
        for (j, x) in ch.iter().enumerate() {
            acc.steps += 1;
            let d = dest[j];
            if x.is_zero() && d == 0 {
                continue;
            }
            // M = floor(t x/Q) is the integer with M Q <= t x < (M+1) Q; the output d has to be M or M+1 (mod t), so M is d or d-1
            let tx = x.mul_u64(a.t);
            let mut verdict: Option<bool> = None;
            if d < a.t {
                for (m, up) in [(d, false), ((d + a.t - 1) % a.t, true)] {
                    let lo = a.qp.mul_u64(m);
                    if lo <= tx && tx < lo.add(&a.qp) {
                        let two_r = tx.sub(&lo).shl(1);
                        let in_band = two_r >= a.qp && (two_r == a.qp || two_r.sub(&a.qp).mul_u64(a.gamma) < a.qp.mul_u64(2 * k as u64));
                        let cls = if two_r < a.qp { 1 } else if in_band { 4 } else { 2 };
                        acc.mask |= cls;
                        // down is right below 1/2 and tolerated inside the band; up is right from 1/2 on
                        verdict = Some(if up { two_r >= a.qp } else { two_r < a.qp || in_band });
                        break;
                    }
                }
            }
            if verdict != Some(true) {
                let (m0, r) = tx.divrem(&a.qp);
                return Err(bad(
                    "decrypt_scale_and_round:wrong",
                    format!("coefficient {j} of {n}: x={} t={} : round(t x/Q) mod t, t x = {} Q + {} (either neighbour inside frac in [1/2, 1/2 + k/gamma))", x.to_hex(), a.t, m0.to_hex(), r.to_hex()),
                    format!("{d}"),
                ));
            }
        }
    }
    Ok(())
}

fn f_mod_t(tool: &RNSTool, a: &Aux, feed: &Feed<BigU>, acc: &mut Acc) -> Result<(), Bad> {
    let (n, k) = (a.n, a.q.len());
    for ci in 0..feed.chunks() {
        let ch = feed.chunk(ci);
        let input = pack(&ch.iter().map(|x| res_u(x, &a.q)).collect::<Vec<_>>(), n, k);
        let mut dest = vec![0u64; n];
        call("decrypt_mod_t", || tool.decrypt_mod_t(&input, &mut dest))?;
        for (j, x) in ch.iter().enumerate() {
            acc.steps += 1;
            if x.is_zero() && dest[j] == 0 {
                continue;
            }
            let two_x = x.shl(1);
            let pos = x.rem_u64(a.t);
            let neg = bi(x).sub(&bi(&a.qp)).rem_u64(a.t);
            let dist = if two_x >= a.qp { two_x.sub(&a.qp) } else { a.qp.sub(&two_x) };
            let allowed: Vec<u64> = if dist.shl(40) <= a.qp {
                acc.mask |= 4;
                vec![pos, neg]
            } else if two_x < a.qp {
                acc.mask |= 1;
                vec![pos]
            } else {
                acc.mask |= 2;
                vec![neg]
            };
            if !allowed.contains(&dest[j]) {
                return Err(bad("decrypt_mod_t:wrong", format!("coefficient {j} of {n}: x={} t={} : centred |x|_Q mod t in {allowed:?}", x.to_hex(), a.t), format!("{}", dest[j])));
            }
        }
    }
    Ok(())
}

fn run_fast(routine: &str, tool: &RNSTool, a: &Aux, ntt: Option<&[NTTTables]>, seed: u64, unit: bool, acc: &mut Acc) -> Result<(), Bad> {
    match routine {
        "constants" => {
            r_constants(tool, a, acc)?;
            f_bsk_tables(tool, a, acc)
        }
        "fastbconv_m_tilde" => f_fastbconv_m_tilde(tool, a, &x_feed(a, seed, unit), acc),
        "sm_mrq" => f_sm_mrq(tool, a, seed, unit, acc),
        "fast_floor" => f_fast_floor(tool, a, seed, unit, acc),
        "fastbconv_sk" => f_fastbconv_sk(tool, a, seed, unit, acc),
        "floor_chain" => f_floor_chain(tool, a, seed, unit, acc),
        "divide_and_round_q_last" => f_div_last(tool, a, ntt, &x_feed(a, seed, unit), false, acc),
        "mod_t_and_divide_q_last" => f_div_last(tool, a, ntt, &x_feed(a, seed, unit), true, acc),
        "decrypt_scale_and_round" => f_scale_round(tool, a, &x_feed(a, seed, unit), acc),
        "decrypt_mod_t" => f_mod_t(tool, a, &x_feed(a, seed, unit), acc),
        _ => Err(bad("unknown-routine", "".into(), routine.into())),
    }
}

// ---- section big_tool ---------------------------------------------------------------------------

#[derive(Serialize, Deserialize, Clone, Debug)]
pub struct BigToolCase {
    pub n: usize,
    pub q: Vec<u64>,
    pub t: u64,
    pub routine: String,
    /// unit family (one non-zero integer at every single position) instead of the filled arrays
    pub unit: bool,
}

fn check_big_tool(c: &BigToolCase, seed: u64) -> CaseOut {
    he::env_real(seed, h64(&serde_json::to_string(c).unwrap_or_default()));
    let k = c.q.len();
    let key = |tail: &str| format!("big_tool:{}:k={k}:{}", c.routine, tail.strip_prefix(&format!("{}:", c.routine)).unwrap_or(tail));
    if !tool_valid(&c.q, c.t) {
        return CaseOut::skip("parameters outside the domain");
    }
    let tool = match guard(|| RNSBase::new(&mods(&c.q)).and_then(|b| RNSTool::new(c.n, &b, &Modulus::new(c.t)))) {
        Ok(Ok(t)) => t,
        Ok(Err(e)) => return CaseOut::fail(format!("big_tool:new:k={k}:refused-valid"), "RNSTool for odd pairwise coprime q coprime to t", e),
        Err(p) => return CaseOut::fail(format!("big_tool:new:k={k}:panic:{}", panic_class(&p)), "RNSTool for odd pairwise coprime q coprime to t", p),
    };
    if !applicable(&c.routine, k, c.t) {
        return CaseOut::skip("routine not applicable (needs t != 0 / two moduli)");
    }
    let a = match aux_of(&tool, c.n, c.t) {
        Ok(a) => a,
        Err(b) => return CaseOut::fail(key(&b.what), b.exp, b.obs),
    };
    let ntt: Option<Vec<NTTTables>> = if c.routine.contains("q_last") && c.q.iter().all(|&p| is_prime_u64(p) && p % (2 * c.n as u64) == 1) {
        let lg = c.n.trailing_zeros() as usize;
        match guard(|| NTTTables::create_ntt_tables(lg, &mods(&c.q))) {
            Ok(Ok(t)) => Some(t),
            Ok(Err(e)) => return CaseOut::fail(key("ntt-tables-refused"), "NTT tables for primes = 1 mod 2N", e),
            Err(p) => return CaseOut::fail(key(&format!("ntt-tables-panic:{}", panic_class(&p))), "NTT tables", p),
        }
    } else {
        None
    };
    let mut acc = Acc::default();
    match run_fast(&c.routine, &tool, &a, ntt.as_deref(), seed, c.unit, &mut acc) {
        Ok(()) => CaseOut::pass(acc.mask.count_ones() > 1, h64(&(c.routine.as_str(), k, acc.mask, ntt.is_some(), c.unit)), acc.steps),
        Err(b) => CaseOut::fail(key(&b.what), format!("q={:?} t={} N={} {} | {}", c.q, c.t, c.n, if c.unit { "unit" } else { "fill" }, b.exp), b.obs),
    }
}

fn t60() -> u64 {
    *plain_moduli().last().unwrap()
}

/// the first k of the 60-bit primes = 1 mod 2n, largest first (reversed: ascending)
fn q60(n: usize, k: usize, ascending: bool) -> Vec<u64> {
    let mut v = primes_1_mod(2 * n as u64, 60, k);
    assert_eq!(v.len(), k);
    if ascending {
        v.reverse();
    }
    v
}

fn big_tool_cases(thorough: bool) -> Vec<BigToolCase> {
    let mut shapes: Vec<(usize, Vec<u64>, u64, bool)> = vec![];
    let ts_quick = [0u64, 17, t60()];
    let ts_full = [0u64, 17, 1 << 20, t60()];
    if !thorough {
        // many primes at tiny N
        for k in 1..=18usize {
            for &t in &ts_quick {
                shapes.push((2, q60(2, k, false), t, false));
            }
        }
        for k in [8usize, 9, 16, 17] {
            shapes.push((8, q60(8, k, true), t60(), false));
        }
        // the boundaries 8/9 at production-size arrays
        for n in [64usize, 128, 256, 512, 1024] {
            for k in [1usize, 2, 8, 9] {
                for &t in &ts_quick {
                    shapes.push((n, q60(n, k, false), t, false));
                }
            }
        }
        shapes.push((128, q60(128, 17, true), t60(), false));
        for n in [64usize, 1024] {
            for k in [16usize, 17, 18] {
                shapes.push((n, q60(n, k, false), 17, false));
                shapes.push((n, q60(n, k, false), t60(), false));
            }
        }
        shapes.push((4096, q60(4096, 2, false), t60(), false));
        shapes.push((4096, q60(4096, 9, false), t60(), false));
        // unit positions
        for (n, k) in [(64usize, 3usize), (64, 9), (128, 9), (256, 2)] {
            shapes.push((n, q60(n, k, false), t60(), true));
        }
    } else {
        for n in [2usize, 4, 64, 128, 256, 512, 1024, 2048, 4096] {
            for k in 1..=18usize {
                for &t in &ts_full {
                    shapes.push((n, q60(n, k, k % 2 == 0), t, false));
                }
            }
        }
        for n in [2usize, 64] {
            for k in [24usize, 32, 33, 63, 64] {
                for &t in &[0u64, t60()] {
                    shapes.push((n, q60(n, k, false), t, false));
                }
            }
        }
        for k in [1usize, 2, 8, 9, 16, 17, 18] {
            shapes.push((8192, q60(8192, k, false), 0, false));
            shapes.push((8192, q60(8192, k, false), t60(), false));
        }
        // mixed sizes among many primes (B stays at k primes, limbs of Q not aligned with the primes)
        for n in [8usize, 1024] {
            let mut m = q60(n, 9, false);
            m.extend(primes_1_mod(2 * n as u64, 30, 4));
            m.extend(primes_1_mod(2 * n as u64, 45, 4));
            m.rotate_left(5);
            shapes.push((n, m.clone(), 17, false));
            shapes.push((n, m, t60(), false));
        }
        for (n, k) in [(64usize, 3usize), (64, 9), (128, 9), (256, 2), (256, 9), (256, 17), (1024, 3), (1024, 9)] {
            shapes.push((n, q60(n, k, false), t60(), true));
        }
    }
    let mut out = vec![];
    for (n, q, t, unit) in shapes {
        for r in ROUTINES {
            if unit && *r == "constants" {
                continue;
            }
            out.push(BigToolCase { n, q: q.clone(), t, routine: r.to_string(), unit });
        }
    }
    // simplest first
    out.sort_by_key(|c| (c.unit, c.n * c.q.len() * if c.unit { c.n } else { 1 }));
    out
}

// ---- section big_ctx ----------------------------------------------------------------------------

fn check_big_ctx(c: &CtxCase, seed: u64) -> CaseOut {
    he::env_real(seed, h64(&(serde_json::to_string(&c.spec).unwrap_or_default(), c.routine.as_str(), "big")));
    let ctx = match guard(|| c.spec.context()) {
        Ok(x) => x,
        Err(p) => return CaseOut::fail(format!("big_ctx:context:panic:{}", panic_class(&p)), "context", p),
    };
    if !ctx.parameters_set() {
        return CaseOut::skip("parameter set rejected by the library");
    }
    let mut acc = Acc::default();
    let mut levels = 0u64;
    let mut cd = Some(ctx.key_context_data().unwrap());
    let mut first = true;
    while let Some(d) = cd {
        let qv: Vec<u64> = d.parms().coeff_modulus().iter().map(|m| m.value()).collect();
        let t = if c.spec.scheme == Scheme::CKKS { 0 } else { c.spec.t };
        let k = qv.len();
        if applicable(&c.routine, k, t) {
            let tool = d.verif_rns_tool();
            let key = |tail: &str| format!("big_ctx:{}:k={k}:{}", c.routine, tail.strip_prefix(&format!("{}:", c.routine)).unwrap_or(tail));
            let a = match aux_of(tool, c.spec.n, t) {
                Ok(a) => a,
                Err(b) => return CaseOut::fail(key(&b.what), b.exp, b.obs),
            };
            if a.q != qv {
                return CaseOut::fail(key("base_q"), format!("{qv:?}"), format!("{:?}", a.q));
            }
            if d.small_ntt_tables().len() != k {
                return CaseOut::fail(key("small_ntt_tables"), format!("{k} tables"), format!("{}", d.small_ntt_tables().len()));
            }
            if let Err(b) = run_fast(&c.routine, tool, &a, Some(d.small_ntt_tables().as_slice()), seed, false, &mut acc) {
                return CaseOut::fail(key(&b.what), format!("{} level q={qv:?} | {}", c.spec.label(), b.exp), b.obs);
            }
            levels += 1;
        }
        cd = if first {
            first = false;
            let f = ctx.first_context_data().unwrap();
            if f.parms_id() == d.parms_id() {
                d.next_context_data()
            } else {
                Some(f)
            }
        } else {
            d.next_context_data()
        };
    }
    if levels == 0 {
        return CaseOut::skip("routine not applicable at any level");
    }
    CaseOut::pass(acc.mask.count_ones() > 1, h64(&(c.routine.as_str(), acc.mask, levels)), acc.steps)
}

fn big_ctx_cases(thorough: bool) -> Vec<CtxCase> {
    let c60 = |n: usize, k: usize| he::chain(n, &vec![60usize; k]);
    let mut specs = vec![
        ParamSpec::new(Scheme::BFV, 1024, c60(1024, 10), 17),
        ParamSpec::new(Scheme::BGV, 1024, c60(1024, 9), 65537),
        ParamSpec::new(Scheme::CKKS, 8, c60(8, 18), 0),
    ];
    if thorough {
        specs.extend([
            ParamSpec::new(Scheme::BFV, 4096, c60(4096, 9), 65537),
            ParamSpec::new(Scheme::CKKS, 1024, c60(1024, 18), 0),
            ParamSpec::new(Scheme::BGV, 2048, c60(2048, 12), 65537),
            ParamSpec::new(Scheme::BFV, 4096, c60(4096, 17), t60()),
            ParamSpec::new(Scheme::BFV, 8192, c60(8192, 9), 65537),
            ParamSpec::new(Scheme::BGV, 4, c60(4, 33), 17),
        ]);
    }
    let mut out = vec![];
    for s in specs {
        for r in ROUTINES {
            out.push(CtxCase { spec: s.clone(), routine: r.to_string() });
        }
    }
    out
}

// ---- section big_base ---------------------------------------------------------------------------

#[derive(Serialize, Deserialize, Clone, Debug)]
pub struct BigBaseCase {
    pub moduli: Vec<u64>,
    /// number of integers per array
    pub count: usize,
    /// unit family: `count` arrays, array c zero except for position c
    pub unit: bool,
}

fn check_big_base(c: &BigBaseCase, seed: u64) -> CaseOut {
    he::env_real(seed, h64(&(c.moduli.as_slice(), c.count, c.unit)));
    let k = c.moduli.len();
    match run_big_base(c, seed) {
        Ok(acc) => CaseOut::pass(acc.mask.count_ones() > 1, h64(&("big_base", k, c.count.min(65), acc.mask)), acc.steps),
        Err(b) => CaseOut::fail(format!("big_base:k={k}:{}:{}", if c.unit { "unit" } else { "fill" }, b.what), format!("moduli={:?} count={} | {}", c.moduli, c.count, b.exp), b.obs),
    }
}

fn run_big_base(c: &BigBaseCase, seed: u64) -> Result<Acc, Bad> {
    let m = &c.moduli;
    let (k, count) = (m.len(), c.count);
    let mut acc = Acc::default();
    let base = call("new", || RNSBase::new(&mods(m)))?.map_err(|e| bad("new:refused-coprime", format!("Ok for pairwise coprime {m:?}"), e))?;
    let p = BigU::product(m);
    // constructor constants at this size
    if base.len() != k || BigU::from_limbs(base.base_prod()) != p || base.base_prod().len() != k {
        return Err(bad("const:base_prod", p.to_hex(), format!("{:x?}", base.base_prod())));
    }
    for i in 0..k {
        let (punct, r) = div_small(&p, m[i]);
        if r != 0 || punct.mul_u64(m[i]) != p {
            return Err(bad("oracle-self-check", "P / m_i exact".into(), format!("i={i}")));
        }
        if BigU::from_limbs(&base.punctured_prod()[i]) != punct {
            return Err(bad("const:punctured_prod", format!("i={i} {}", punct.to_hex()), format!("{:x?}", base.punctured_prod()[i])));
        }
        let inv = inv_mod_u64(punct.rem_u64(m[i]), m[i]).unwrap();
        let op = &base.inv_punctured_prod_mod_base()[i];
        let quo = (((inv as u128) << 64) / m[i] as u128) as u64;
        if op.operand != inv || op.quotient != quo {
            return Err(bad("const:inv_punctured_prod", format!("i={i} operand={inv} quotient={quo}"), format!("operand={} quotient={}", op.operand, op.quotient)));
        }
        acc.steps += 2;
    }
    let mut specials = boundary_xs(m, 0, seed);
    specials.extend(lazy_extremes(m));
    let specials = sort_dedup(specials);
    let pp = p.clone();
    let feed = Feed::new(count, c.unit, specials, BigU::zero(), move |j| generic_below(&pp, seed, j, "c10-big-base"));
    for ci in 0..feed.chunks() {
        let xs = feed.chunk(ci);
        let orig: Vec<u64> = xs.iter().flat_map(|x| x.limbs(k)).collect();
        let rs: Vec<Vec<u64>> = xs.iter().map(|x| if x.is_zero() { vec![0; k] } else { res_u(x, m) }).collect();
        let exp = pack(&rs, count, k);
        let mut buf = orig.clone();
        call("decompose_array", || base.decompose_array(&mut buf))?;
        if buf != exp {
            let pos = (0..buf.len()).find(|&i| buf[i] != exp[i]).unwrap();
            return Err(bad(
                "decompose_array:wrong",
                format!("array {ci}: component-major residues, [modulus {} = {}][integer {} = {}] = {}", pos / count, m[pos / count], pos % count, xs[pos % count].to_hex(), exp[pos]),
                format!("{}", buf[pos]),
            ));
        }
        call("compose_array", || base.compose_array(&mut buf))?;
        if buf != orig {
            let pos = (0..buf.len()).find(|&i| buf[i] != orig[i]).unwrap();
            return Err(bad("compose_array:wrong", format!("array {ci}: integer {} = {} (limb {} = {:#x})", pos / k, xs[pos / k].to_hex(), pos % k, orig[pos]), format!("{:#x}", buf[pos])));
        }
        acc.steps += 2;
        // single-value forms, coefficient by coefficient (in the unit family only the non-zero position and its neighbours)
        for (j, x) in xs.iter().enumerate() {
            if c.unit && x.is_zero() && j != 0 && j + 1 != count {
                continue;
            }
            let mut one = x.limbs(k);
            call("decompose", || base.decompose(&mut one))?;
            if one != rs[j] {
                return Err(bad("decompose:wrong", format!("x={} -> {:?}", x.to_hex(), rs[j]), format!("{one:?}")));
            }
            call("compose", || base.compose(&mut one))?;
            if one != x.limbs(k) {
                return Err(bad("compose:wrong", format!("{:?} -> {}", rs[j], x.to_hex()), format!("{one:x?}")));
            }
            acc.steps += 2;
        }
        acc.mask |= (if c.unit { 1 } else { 2 }) | (if rs.iter().any(|r| r.iter().any(|&v| v != 0)) { 4 } else { 0 });
    }
    if !c.unit {
        // residue vectors that do not come from a decomposition: per modulus {0, 1, m-1, (m-1)/2, generic}, rotating with the
        // position; composed against the reference CRT, decomposed back
        let arrays = (40 / count).max(1);
        for ai in 0..arrays {
            let rs: Vec<Vec<u64>> = (0..count)
                .map(|j| {
                    (0..k)
                        .map(|i| match (i + j + ai) % 5 {
                            0 => 0,
                            1 => 1 % m[i],
                            2 => m[i] - 1,
                            3 => (m[i] - 1) / 2,
                            _ => h64(&(seed, ai as u64, j as u64, i as u64, "c10-big-res")) % m[i],
                        })
                        .collect()
                })
                .collect();
            let input = pack(&rs, count, k);
            let mut buf = input.clone();
            call("compose_array", || base.compose_array(&mut buf))?;
            for j in 0..count {
                let e = crt(&rs[j], m);
                if buf[j * k..(j + 1) * k] != e.limbs(k)[..] {
                    return Err(bad("compose_array:wrong", format!("integer {j} of {count}: {:?} -> {}", rs[j], e.to_hex()), format!("{:x?}", &buf[j * k..(j + 1) * k])));
                }
            }
            call("decompose_array", || base.decompose_array(&mut buf))?;
            if buf != input {
                let pos = (0..buf.len()).find(|&i| buf[i] != input[i]).unwrap();
                return Err(bad("decompose_array:wrong", format!("[modulus {}][integer {}] = {}", pos / count, pos % count, input[pos]), format!("{}", buf[pos])));
            }
            acc.steps += 2 * count as u64;
            acc.mask |= 8;
        }
    }
    Ok(acc)
}

fn big_base_shapes(thorough: bool) -> Vec<Vec<u64>> {
    let kmax = 65;
    let p61 = p1(61, kmax);
    let p60 = p1(60, kmax);
    let mut v: Vec<Vec<u64>> = vec![];
    let ks: Vec<usize> = if thorough { (1..=18).chain([24, 32, 33, 63, 64, 65]).collect() } else { (1..=18).collect() };
    for &k in &ks {
        // 61-bit primes, largest first
        v.push(p61[..k].to_vec());
        let corner = [8, 9, 16, 17].contains(&k);
        if thorough || corner {
            // 60-bit primes ascending
            let mut asc = p60[..k].to_vec();
            asc.reverse();
            v.push(asc);
        }
        if k >= 4 && (thorough || corner) {
            // mixed sizes: the limbs of the product are not aligned with the moduli
            let mut mix: Vec<u64> = (0..k - 2).map(|i| if i % 2 == 0 { p60[i] } else { p61[i] }).collect();
            mix.insert(k / 2, 1 << 32);
            mix.push(3);
            v.push(mix);
        }
    }
    v
}

fn big_base_cases(thorough: bool) -> Vec<BigBaseCase> {
    let counts: Vec<usize> = if thorough { vec![1, 2, 8, 16, 32, 63, 64, 65, 127, 128, 129, 255, 256, 257, 511, 512, 513, 1024, 4095, 4096, 4097, 8192] } else { vec![1, 2, 63, 64, 65, 128, 256, 1024] };
    let unit_counts: Vec<usize> = if thorough { vec![63, 64, 65, 128, 129, 256, 1024] } else { vec![63, 64, 65, 128] };
    let mut out = vec![];
    for m in big_base_shapes(thorough) {
        let k = m.len();
        for &count in &counts {
            if k > 18 && count > 1024 {
                continue;
            }
            out.push(BigBaseCase { moduli: m.clone(), count, unit: false });
        }
        if [2, 9, 17, 33].contains(&k) {
            for &count in &unit_counts {
                out.push(BigBaseCase { moduli: m.clone(), count, unit: true });
            }
        }
    }
    out.sort_by_key(|c| (c.moduli.len() * c.count * if c.unit { c.count } else { 1 }, c.moduli.len()));
    out
}

pub fn sections(cfg: &RunCfg) -> Vec<Box<dyn AnySection>> {
    let seed = cfg.seed;
    let th = cfg.thorough();
    vec![
        E1::new(
            "rnsbase",
            if th {
                "ordered sub-bases of size 1..4 of {3,5,7,11,13,16,17,2^32,p30,p59,p60,p61} + bases of 5..8 moduli (asc/desc/rotated); all integers < P for P < 1.4e6, boundary set otherwise; arrays 1..5"
            } else {
                "ordered sub-bases of size 1..3 of {3,5,7,11,13,16,17,2^32,p30,p59,p60,p61} + bases of 4..8 moduli (asc/desc/rotated); all integers < P for P < 2^18, boundary set otherwise; arrays 1..5"
            },
            base_cases(th).into_iter(),
            move |c| check_base(c, seed),
        )
        .deadline(Duration::from_secs(120)),
        E1::new(
            "tool_tiny",
            if th {
                "N=2, tiny odd q-bases up to 5 moduli (Q <= 1.2e6) x t in {0,2,17,2^20,p60} x 10 routines: ALL integers of [0,Q) x routine boundary dimension"
            } else {
                "N=2, 20 tiny odd q-bases of 1..5 moduli (Q <= 32045) x t in {0,2,17,2^20,p60} x 10 routines: ALL integers of [0,Q) x routine boundary dimension"
            },
            tool_tiny_cases(th).into_iter(),
            move |c| check_tool("tool_tiny", c, seed),
        )
        .deadline(Duration::from_secs(120)),
        E1::new(
            "tool_real",
            "N=2, q-bases of 1..6 (thorough 8) primes of 13..60 bits, ascending/descending/mixed x t in {0,2,17,2^20,p60} x 10 routines: boundary integer set x routine boundary dimension",
            tool_real_cases(th).into_iter(),
            move |c| check_tool("tool_real", c, seed),
        )
        .deadline(Duration::from_secs(120)),
        E1::new(
            "tool_ctx",
            "RNS tools owned by BFV/BGV/CKKS contexts (N=4,8; thorough also 2,16), every level incl. the key level, with the level's NTT tables: boundary integer set",
            ctx_cases(th).into_iter(),
            move |c| check_ctx(c, seed),
        )
        .deadline(Duration::from_secs(120)),
        E1::new("big_base", BIG_BASE_BOUND[th as usize], big_base_cases(th).into_iter(), move |c| check_big_base(c, seed)).batch(2).deadline(Duration::from_secs(300)),
        E1::new("big_tool", BIG_TOOL_BOUND[th as usize], big_tool_cases(th).into_iter(), move |c| check_big_tool(c, seed)).batch(2).deadline(Duration::from_secs(300)),
        E1::new("big_ctx", BIG_CTX_BOUND[th as usize], big_ctx_cases(th).into_iter(), move |c| check_big_ctx(c, seed)).batch(1).deadline(Duration::from_secs(600)),
    ]
}

const BIG_BASE_BOUND: [&str; 2] = [
    "RNSBase of k = 1..18 moduli (61-bit primes largest first; for k in {8,9,16,17} also 60-bit ascending and mixed 60/61-bit + 2^32 + 3) x arrays of count in {1,2,63,64,65,128,256,1024} integers: boundary integers + extreme CRT coefficients at head and tail, pairwise different generic integers between; decompose_array/compose_array against BigU and against the single-value forms coefficient by coefficient; rotating boundary residue vectors against the reference CRT; unit family (one non-zero integer at EVERY position) for k in {2,9,17}, count in {63,64,65,128}",
    "RNSBase of k = 1..18, 24, 32, 33, 63, 64, 65 moduli in three shapes (61-bit largest first, 60-bit ascending, mixed 60/61-bit + 2^32 + 3) x arrays of count in {1,2,8,16,32,63,64,65,127,128,129,255,256,257,511,512,513,1024,4095,4096,4097,8192} (k > 18: count <= 1024) integers: boundary integers + extreme CRT coefficients at head and tail, pairwise different generic integers between; array forms against BigU and against the single-value forms coefficient by coefficient; rotating boundary residue vectors against the reference CRT; unit family (one non-zero integer at EVERY position) for k in {2,9,17,33}, count in {63,64,65,128,129,256,1024}",
];
const BIG_TOOL_BOUND: [&str; 2] = [
    "RNSTool::new(N, q, t) x 10 routines, q = the k largest 60-bit primes = 1 mod 2N (auxiliary primes 61 bits), t in {0,17,p60}: N=2 x k=1..18; N=8 x k in {8,9,16,17}; N in {64,128,256,512,1024} x k in {1,2,8,9}; N in {64,1024} x k in {16,17,18} (t in {17,p60}); (128,17), (4096,2), (4096,9) (t = p60); arrays filled with boundary integers, extreme CRT coefficients (all q_i-1 ..., per-target-prime maximal terms) at head and tail and pairwise different generic integers between, every coefficient judged by the integer specification; Bsk NTT tables checked functionally; unit family (one non-zero integer at EVERY position) for (N,k) in {(64,3),(64,9),(128,9),(256,2)}",
    "RNSTool::new(N, q, t) x 10 routines, q = k 60-bit primes = 1 mod 2N (auxiliary primes 61 bits), t in {0,17,2^20,p60}: N in {2,4,64,128,256,512,1024,2048,4096} x k = 1..18; N in {2,64} x k in {24,32,33,63,64} (t in {0,p60}); N=8192 x k in {1,2,8,9,16,17,18} (t in {0,p60}); 17 mixed 30/45/60-bit primes at N in {8,1024}; arrays filled with boundary integers, extreme CRT coefficients at head and tail and pairwise different generic integers between, every coefficient judged by the integer specification; Bsk NTT tables checked functionally; unit family (one non-zero integer at EVERY position) for (N,k) in {(64,3),(64,9),(128,9),(256,2),(256,9),(256,17),(1024,3),(1024,9)}",
];
const BIG_CTX_BOUND: [&str; 2] = [
    "RNS tools owned by contexts with long chains / large degrees (BFV N=1024 10 primes, BGV N=1024 9 primes, CKKS N=8 18 primes; 60-bit primes), every level incl. the key level, with the level's own NTT tables: filled arrays as in big_tool, every coefficient judged",
    "RNS tools owned by contexts with long chains / large degrees (BFV N=1024 10 primes, BGV N=1024 9, CKKS N=8 18, BFV N=4096 9, CKKS N=1024 18, BGV N=2048 12, BFV N=4096 17, BFV N=8192 9, BGV N=4 33; 60-bit primes), every level incl. the key level, with the level's own NTT tables: filled arrays as in big_tool, every coefficient judged",
];
