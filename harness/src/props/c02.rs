//! C02 — BFV/BGV evaluation is an exact ring homomorphism for every operation program (engine E2).
use crate::e2::*;
use crate::engine::*;
use crate::he::*;
use crate::refmodel::bigu::{inv_mod_u64, mul_mod};
use crate::refmodel::poly::{padd, pscale, psub};
use heathcliff::*;
use serde::{Deserialize, Serialize};

pub fn describe(rep: &Report) {
    rep.set_rule(
        "E2 explicit-state exploration on the real Evaluator: states = real ciphertext + shadow polynomial in Z_t[X]/(X^N+1); \
         phase A = every program of depth <= 2 over (6 messages x {pk, sk+seed}) x {negate, square, relinearize (standard / all-power keys), \
         to/from NTT, mod_switch_to_next, add, sub, multiply, add/sub/multiply_plain x 8 plain operands x {coeff, NTT}, add_many, multiply_many}, \
         deduplicated by (level, size, representation, factor, shadow); phase B = closure of the abstract key (level, size, representation, factor) \
         to fixpoint, every (operation, abstract operand tuple) executed on witnesses. Judged per transition: acceptance of well-typed operations, \
         predicted metadata (size a+b-1 / max / 2, level, representation, BGV factor product / q_last^-1), and decrypt == shadow whenever the \
         a-priori noise bound is below the threshold. distinct_nontrivial = distinct concrete states + abstract states.",
    );
    rep.assume("a-priori noise calculus of e2.rs (upper bounds in bits) decides when decryption is demanded");
    rep.assume("entropy scripted by hook H1 (Real noise), one secret key per parameter set");
    rep.assume("refusals of ill-typed operands are judged by C06, budgets by C07 on the same exploration");
}

#[derive(Serialize, Deserialize, Clone, Debug)]
pub struct BalCase {
    pub t: u64,
    pub f1: u64,
}

/// All ordered pairs of correction factors (f1, f2) of units modulo t: add and sub of two fresh
/// ciphertexts whose factors were set to f1 resp. f2 (a ciphertext of message m with factor f
/// decrypts to m * f^-1).
fn balance(c: &BalCase, seed: u64) -> CaseOut {
    let n = 4;
    let spec = ParamSpec::new(Scheme::BGV, n, chain(n, &[60, 60, 60]), c.t);
    env_real(seed, h64(&("c02-balance", c.t)));
    let kit = match Kit::new(&spec) {
        Ok(k) => k,
        Err(e) => return CaseOut::skip(&e),
    };
    let t = c.t;
    if e2_gcd(c.f1, t) != 1 {
        return CaseOut::skip("f1 is not a unit");
    }
    let m1: Vec<u64> = vec![1, t - 1, 2 % t, t / 2];
    let m2: Vec<u64> = vec![t - 2, 3 % t, 0, 1];
    let a0 = kit.enc.encrypt_new(&kit.plain(&m1));
    let b0 = kit.enc.encrypt_new(&kit.plain(&m2));
    let mut steps = 0;
    let mut cfs = std::collections::BTreeSet::new();
    for f2 in 1..t {
        if e2_gcd(f2, t) != 1 {
            continue;
        }
        let (mut a, mut b) = (a0.clone(), b0.clone());
        a.set_correction_factor(c.f1);
        b.set_correction_factor(f2);
        let sa = pscale(&m1, inv_mod_u64(c.f1, t).unwrap(), t);
        let sb = pscale(&m2, inv_mod_u64(f2, t).unwrap(), t);
        for sub in [false, true] {
            let exp = if sub { psub(&sa, &sb, t) } else { padd(&sa, &sb, t) };
            let r = guard(|| if sub { kit.eval.sub_new(&a, &b) } else { kit.eval.add_new(&a, &b) });
            let op = if sub { "Sub" } else { "Add" };
            match r {
                Err(e) => return CaseOut::fail(format!("balance:{op}:t={t}:{}", panic_class(&e)), format!("f1={} f2={f2} computed", c.f1), e),
                Ok(r) => {
                    steps += 1;
                    let cf = r.correction_factor();
                    cfs.insert(cf);
                    if cf == 0 || cf >= t || e2_gcd(cf, t) != 1 {
                        return CaseOut::fail(format!("balance:{op}:t={t}:factor-not-a-unit"), "result factor is a unit in [1,t)", format!("f1={} f2={f2} -> {cf}", c.f1));
                    }
                    if (c.f1 == f2) != (cf == c.f1 && c.f1 == f2) && c.f1 == f2 {
                        return CaseOut::fail(format!("balance:{op}:t={t}:equal-factors-changed"), format!("factor stays {}", c.f1), format!("{cf}"));
                    }
                    match guard(|| kit.dec_coeffs(&r)) {
                        Ok(d) if d == exp => {}
                        Ok(d) => return CaseOut::fail(format!("balance:{op}:t={t}:wrong"), format!("f1={} f2={f2}: {:?}", c.f1, exp), format!("{:?} (result factor {cf})", d)),
                        Err(e) => return CaseOut::fail(format!("balance:{op}:t={t}:decrypt-{}", panic_class(&e)), "decrypts", e),
                    }
                    let _ = mul_mod(cf, 1, t);
                }
            }
        }
    }
    CaseOut::pass(true, h64(&(cfs.len().min(8), c.f1 == 1)), steps)
}

fn e2_gcd(a: u64, b: u64) -> u64 {
    gcd_u64(a, b)
}

pub fn sections(cfg: &RunCfg) -> Vec<Box<dyn AnySection>> {
    let seed = cfg.seed;
    let mut bal: Vec<BalCase> = vec![];
    for t in if cfg.thorough() { vec![17u64, 97, 257, 16, 18, 1153] } else { vec![17u64, 97, 257, 16] } {
        for f1 in 1..t {
            bal.push(BalCase { t, f1 });
        }
    }
    let mut v: Vec<Box<dyn AnySection>> = param_sets(cfg)
        .into_iter()
        .map(|(name, spec, depth, abs)| {
            Box::new(E2Section {
                name,
                spec,
                oracles: Oracles { ring: true, forms: false, budget: false },
                judged: vec!["ring", "meta", "accept"],
                thorough: cfg.thorough(),
                seed: cfg.seed,
                depth,
                abstract_closure: abs,
            }) as Box<dyn AnySection>
        })
        .collect();
    v.push(E1::new(
        "bgv_factor_pairs",
        "every ordered pair (f1,f2) of units modulo t in {17, 97, 257, 16} (thorough: + 18, 1153) as correction factors of the operands of add and sub",
        bal.into_iter(),
        move |c: &BalCase| balance(c, seed),
    ));
    v
}
