//! C02 — BFV/BGV evaluation is an exact ring homomorphism for every operation program (engine E2).
use crate::e2::*;
use crate::engine::*;

pub fn describe(rep: &Report) {
    rep.set_rule(
        "E2 explicit-state exploration on the real Evaluator: states = real ciphertext + shadow polynomial in Z_t[X]/(X^N+1); \
         phase A = every program of depth <= 2 over (6 messages x {pk, sk+seed}) x {negate, square, relinearize (standard / all-power keys), \
         to/from NTT, mod_switch_to_next, add, sub, multiply, add/sub/multiply_plain x 8 plain operands x {coeff, NTT}, add_many, multiply_many}, \
         deduplicated by (level, size, representation, factor, shadow); phase B = closure of the abstract key (level, size, representation, factor) \
         to fixpoint, every (operation, abstract operand tuple) executed on witnesses. Judged per transition: acceptance of well-typed operations, \
         predicted metadata (size a+b-1 / max / 2, level, representation, BGV factor product / q_last^-1), and decrypt == shadow whenever the \
         a-priori noise bound is below the threshold. distinct_nontrivial = distinct concrete states + abstract states.",
    );
    rep.assume("a-priori noise calculus of e2.rs (upper bounds in bits) decides when decryption is demanded");
    rep.assume("entropy scripted by hook H1 (Real noise), one secret key per parameter set");
    rep.assume("refusals of ill-typed operands are judged by C06, budgets by C07 on the same exploration");
}

pub fn sections(cfg: &RunCfg) -> Vec<Box<dyn AnySection>> {
    param_sets(cfg)
        .into_iter()
        .map(|(name, spec, depth, abs)| {
            Box::new(E2Section {
                name,
                spec,
                oracles: Oracles { ring: true, forms: false, budget: false },
                judged: vec!["ring", "meta", "accept"],
                thorough: cfg.thorough(),
                seed: cfg.seed,
                depth,
                abstract_closure: abs,
            }) as Box<dyn AnySection>
        })
        .collect()
}
