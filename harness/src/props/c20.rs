//! C20 — homomorphic matrix products and convolutions equal the plaintext ones, all shapes.
//!
//! E1 sections (every case runs the real helpers end to end and compares the decrypted result
//! with a u128 reference product / valid cross-correlation modulo t):
//!  * `cheetah`   coefficient-packing `MatmulHelper`: all (m,r,n) of a box x objective x pack_lwe x
//!                {matmul, matmul_reverse, sum of both} x transport x operand fills
//!  * `bolt`      `MatmulBoltCp` / `MatmulBoltCcCr` / `MatmulBoltCcDc`: all (m,r,n) of a box (+ values that
//!                force the m > N/2 splitting) x transport x operand fills
//!  * `conv2d`    `Conv2dHelper`: all (batch, c_in, c_out, H, W, k_h, k_w) of a box x objective x
//!                {conv2d, conv2d_reverse} x transport x operand fills
//!  * `ckks`      CKKS variants of the Cheetah and convolution helpers on a sub-box, a-priori error bound
//!  * `rnsp`      RNS-plaintext wrapper: values modulo the product of 2-3 plain moduli, every operation
//!                against big-integer arithmetic
//! `encode_outputs` / `decrypt_outputs` (resp. `decode_outputs`) inverse is checked once per case and the
//! `encode_outputs` layout is also checked against the product layout (bias added with `add_plain_inplace`).
//!
//! Production-size sections (`big_cheetah`, `big_bolt`, `big_conv2d`, `big_ckks`, `big_rnsp`): the same pipelines and
//! oracles at N = 128 .. 8192 on structured shape families that drive every block dimension the helpers' own
//! searches choose (and every rotate-and-add depth of the slot-packing helpers) across 8, 16, 32, 64, 65, 127, 128,
//! 129, 255, 256, 257 ...; operand fills are dense + all-(t-1) + ONE-SIDED unit families (every unit input against
//! the dense weights, every unit weight against the dense inputs; at the boundary indices only when the tensor is large).

use crate::engine::*;
use crate::he::*;
use crate::refmodel::bigu::*;
use heathcliff::app::conv2d::Conv2dHelper;
use heathcliff::app::matmul::bolt_cc_cr::MatmulBoltCcCr;
use heathcliff::app::matmul::bolt_cc_dc::MatmulBoltCcDc;
use heathcliff::app::matmul::bolt_cp::MatmulBoltCp;
use heathcliff::app::matmul::cheetah::{MatmulHelper, MatmulHelperObjective};
use heathcliff::app::matmul::{Cipher2d, Plain2d};
use heathcliff::app::rns_plain::*;
use heathcliff::{BatchEncoder, CKKSEncoder, Ciphertext, ExpandSeed, GaloisKeys, RelinKeys, SerializableWithHeContext};
use serde::{Deserialize, Serialize};
use std::cell::{Cell, RefCell};
use std::collections::{BTreeMap, BTreeSet};
use std::rc::Rc;
use std::sync::{Arc, Mutex, OnceLock};
use std::time::Duration;

pub fn describe(rep: &Report) {
    rep.set_rule(
        "case = (explicit parameter set, helper, shape, objective, pack_lwe, direction, transport); each case builds the helper for \
         that shape and loops over the operand fills: every pair of unit operands (E_a, E_b) when the pair count is <= the stated cap \
         (bilinearity => the whole value space up to overflow), one dense fill derived from the seed (with a dense bias added through \
         encode_outputs + add_plain_inplace), and the all-(t-1) fill; steps = pipelines compared with the reference. non-trivial = an \
         operand or the result needs more than one ciphertext (the shape is cut into blocks). The big_* sections run the same \
         pipelines on structured shape families at N = 128 .. 8192; their fills are dense, all-(t-1) and one-sided units (every selected \
         unit input against the dense weights, every selected unit weight against the dense inputs).",
    );
    rep.assume("u128 schoolbook matrix product / valid cross-correlation modulo t is the reference; BigU schoolbook arithmetic for the RNS-plaintext wrapper");
    rep.assume("parameter sets are chosen with >= 20 bits of noise head-room for the deepest pipeline (small t against q of 2 x 50..60 bits at the data level), so every result must be exact; a mismatch is judged, never excused by noise");
    rep.assume("a panic raised by the helper's constructor with an explicit assertion message is a refusal of the shape (skipped, message recorded); any panic after the constructor accepted the shape is a violation");
    rep.assume("convolution shapes whose kernel has more coefficients than the ring (k_h*k_w > N) admit no blocking at all and are outside the domain (skipped; the helper does not refuse them explicitly, it divides by zero later)");
    rep.assume("pack_lwe outputs travel through the full Cipher2d serializer (as in the repository's tests): output_terms() describes the un-packed layout only");
    rep.assume("CKKS: |values| <= 4, scale 2^40, bound = 4*terms*N*4*(21(2N+1)+N+2)/scale + 2^-30 (fresh-noise and rounding calculus of DESIGN.md section 5)");
    rep.assume("the complete shape boxes are enumerated at N <= 64; at N = 128 .. 8192 the big_* sections enumerate exactly the stated structured shape families (every axis long in turn, lengths around 64 / 128 / 256 / ... / N, every gap of the slot-packing helpers) with dense, all-(t-1) and one-sided unit fills (unit x dense on either side, not unit pairs) - nothing else at those degrees is claimed");
    rep.assume("big_ckks: |values| <= 4, scale 2^55 on q = [60,60,55 | 60] bits, same a-priori bound formula (it is proportional to 1/scale)");
    rep.assume("big_bolt / big_cheetah / big_conv2d publish the smallest invariant noise budget seen at the outputs of the BFV pipelines as an observation (head-room evidence for the 'every result must be exact' assumption at the large degrees)");
}

// ---------------------------------------------------------------------------------------------
// notes collected during a section (distinct refusal messages), published as observations
// ---------------------------------------------------------------------------------------------

fn notes() -> &'static Mutex<BTreeMap<String, u64>> {
    static N: OnceLock<Mutex<BTreeMap<String, u64>>> = OnceLock::new();
    N.get_or_init(|| Mutex::new(BTreeMap::new()))
}
fn note(s: String) {
    let mut n = notes().lock().unwrap();
    if n.len() < 150 || n.contains_key(&s) {
        *n.entry(s).or_insert(0) += 1;
    }
}

/// values a blocking parameter took during a section ("<section>: <what>" -> set), published as observations
fn reach() -> &'static Mutex<BTreeMap<String, BTreeSet<usize>>> {
    static N: OnceLock<Mutex<BTreeMap<String, BTreeSet<usize>>>> = OnceLock::new();
    N.get_or_init(|| Mutex::new(BTreeMap::new()))
}
fn reached(what: String, v: usize) {
    reach().lock().unwrap().entry(what).or_default().insert(v);
}
/// smallest value seen ("<section>: <what>" -> minimum), published as observations
fn lowest() -> &'static Mutex<BTreeMap<String, usize>> {
    static N: OnceLock<Mutex<BTreeMap<String, usize>>> = OnceLock::new();
    N.get_or_init(|| Mutex::new(BTreeMap::new()))
}
fn low_mark(what: String, v: usize) {
    let mut l = lowest().lock().unwrap();
    let e = l.entry(what).or_insert(usize::MAX);
    *e = (*e).min(v);
}

struct Observed {
    inner: Box<dyn AnySection>,
}
impl AnySection for Observed {
    fn name(&self) -> String {
        self.inner.name()
    }
    fn run(self: Box<Self>, rep: &Arc<Report>) {
        let name = self.inner.name();
        self.inner.run(rep);
        let n = notes().lock().unwrap();
        for (k, v) in n.iter().filter(|(k, _)| k.starts_with(&format!("{name}:"))) {
            rep.observe(format!("{k} ({v} cases)"));
        }
        for (k, v) in reach().lock().unwrap().iter().filter(|(k, _)| k.starts_with(&format!("{name}:"))) {
            rep.observe(format!("{k} took the values {v:?}"));
        }
        for (k, v) in lowest().lock().unwrap().iter().filter(|(k, _)| k.starts_with(&format!("{name}:"))) {
            rep.observe(format!("{k}: minimum {v}"));
        }
    }
    fn replay(&self, case: &serde_json::Value) -> Result<CaseOut, String> {
        self.inner.replay(case)
    }
}

// ---------------------------------------------------------------------------------------------
// kits (context + keys), cached per thread, built under an environment that depends on the
// parameter set only (so a cached kit is identical to a freshly built one)
// ---------------------------------------------------------------------------------------------

#[derive(Clone, Copy, PartialEq, Eq, Debug, Hash)]
enum Keys {
    None,
    Auto,
    GaloisRelin,
}

struct KitX {
    kit: Kit,
    be: Option<BatchEncoder>,
    ce: Option<CKKSEncoder>,
    auto: Option<GaloisKeys>,
    galois: Option<GaloisKeys>,
    relin: Option<RelinKeys>,
}

thread_local! {
    static KITS: RefCell<Vec<(u64, Rc<KitX>)>> = const { RefCell::new(Vec::new()) };
}

fn kitx(spec: &ParamSpec, keys: Keys, seed: u64) -> Result<Rc<KitX>, String> {
    let tag = h64(&("c20-kit", spec, keys));
    if let Some(k) = KITS.with(|c| c.borrow().iter().find(|(t, _)| *t == tag).map(|(_, k)| k.clone())) {
        return Ok(k);
    }
    env_real(seed, tag);
    let built = guard(|| -> Result<KitX, String> {
        let kit = Kit::new(spec)?;
        let (be, ce) = if spec.scheme == Scheme::CKKS { (None, Some(CKKSEncoder::new(kit.ctx.clone()))) } else { (Some(BatchEncoder::new(kit.ctx.clone())), None) };
        let auto = if keys == Keys::Auto { Some(kit.keygen.create_automorphism_keys(false)) } else { None };
        let (galois, relin) = if keys == Keys::GaloisRelin { (Some(kit.keygen.create_galois_keys(false)), Some(kit.keygen.create_relin_keys(false))) } else { (None, None) };
        Ok(KitX { kit, be, ce, auto, galois, relin })
    });
    let k = match built {
        Ok(Ok(k)) => Rc::new(k),
        Ok(Err(e)) => return Err(e),
        Err(p) => return Err(format!("context/key construction panicked: {p}")),
    };
    KITS.with(|c| {
        let mut c = c.borrow_mut();
        if c.len() >= 6 {
            c.remove(0);
        }
        c.push((tag, k.clone()));
    });
    Ok(k)
}

// ---------------------------------------------------------------------------------------------
// common enums and small helpers
// ---------------------------------------------------------------------------------------------

#[derive(Serialize, Deserialize, Clone, Copy, Debug, PartialEq, Eq, Hash)]
pub enum Obj {
    CipherPlain,
    PlainCipher,
    CpAddPc,
}
impl Obj {
    fn all() -> [Obj; 3] {
        [Obj::CipherPlain, Obj::PlainCipher, Obj::CpAddPc]
    }
    fn to(self) -> MatmulHelperObjective {
        match self {
            Obj::CipherPlain => MatmulHelperObjective::CipherPlain,
            Obj::PlainCipher => MatmulHelperObjective::PlainCipher,
            Obj::CpAddPc => MatmulHelperObjective::CpAddPc,
        }
    }
}

#[derive(Serialize, Deserialize, Clone, Copy, Debug, PartialEq, Eq, Hash)]
pub enum Dir {
    /// `[y] = [x] * w`
    Forward,
    /// `[y] = x * [w]`
    Reverse,
    /// `[y] = [x1] * w0 + x0 * [w1]` (only enumerated with the CpAddPc objective)
    Sum,
}

#[derive(Serialize, Deserialize, Clone, Copy, Debug, PartialEq, Eq, Hash)]
pub enum Transport {
    /// public-key encryption of the inputs, result decrypted directly
    Direct,
    /// symmetric encryption + expand_seed + full serializer round trip of the inputs;
    /// result through serialize_terms(output_terms) (full serializer when pack_lwe / Bolt)
    Wire,
}

fn dense(seed: u64, tag: u64, len: usize, t: u64) -> Vec<u64> {
    (0..len).map(|i| h64(&(seed, tag, i as u64)) % t).collect()
}
fn unit(len: usize, at: usize, v: u64) -> Vec<u64> {
    let mut x = vec![0u64; len];
    x[at] = v;
    x
}

/// A case of one of the small-size sections, run by a production-size section (`big_*`) with one-sided unit fills.
#[derive(Serialize, Deserialize, Clone, Debug)]
pub struct Big<C> {
    pub c: C,
    /// one-sided unit fills (every selected unit input against the dense weights, every selected unit weight against the
    /// dense inputs): 0 none (dense and all-(t-1) fills only), 1 the boundary indices of every axis, 2 every index,
    /// 3 the coarse boundary indices of every axis (0, p-1, p, p+1 for p = 64 .. 8192, len-1)
    pub side: u8,
}

/// boundary indices of an axis of length `len`: 0, 1, 2, p-1, p, p+1 for p = 8, 16, ..., 8192, len-2, len-1
fn bset(len: usize) -> Vec<usize> {
    let mut v = vec![0usize, 1, 2, len.saturating_sub(2), len.saturating_sub(1)];
    let mut p = 8usize;
    while p <= 8192 {
        v.extend([p - 1, p, p + 1]);
        p *= 2;
    }
    v.retain(|&i| i < len);
    v.sort();
    v.dedup();
    v
}

/// flat row-major indices of a tensor with the given axes: none (side 0), the product of the axes' boundary sets (1), all (2),
/// the product of the axes' coarse boundary sets {0, p-1, p, p+1 for p = 64 .. 8192, len-1} (3)
fn side_indices(axes: &[usize], side: u8) -> Vec<usize> {
    let total: usize = axes.iter().product();
    match side {
        0 => vec![],
        1 => {
            let mut v = vec![0usize];
            for &a in axes {
                let b = bset(a);
                v = v.iter().flat_map(|&i| b.iter().map(move |&j| i * a + j)).collect();
            }
            v
        }
        2 => (0..total).collect(),
        _ => {
            let mut v = vec![0usize];
            for &a in axes {
                let b: Vec<usize> = bset(a).into_iter().filter(|&i| i == 0 || i + 1 == a || i >= 63).collect();
                v = v.iter().flat_map(|&i| b.iter().map(move |&j| i * a + j)).collect();
            }
            v
        }
    }
}

/// operand fill of one pipeline
#[derive(Clone, Copy, Debug)]
enum FD {
    Dense,
    Max,
    /// unit input against unit weight
    Pair(usize, usize),
    /// unit input against the dense weights
    UnitX(usize),
    /// dense inputs against a unit weight
    UnitW(usize),
}

fn fill_list(pairs: Option<(usize, usize)>, side: Option<(u8, &[usize], &[usize])>, dense_first: bool) -> Vec<FD> {
    let mut u = vec![];
    if let Some((lx, lw)) = pairs {
        for a in 0..lx {
            for b in 0..lw {
                u.push(FD::Pair(a, b));
            }
        }
    }
    if let Some((side, xa, wa)) = side {
        u.extend(side_indices(xa, side).into_iter().map(FD::UnitX));
        u.extend(side_indices(wa, side).into_iter().map(FD::UnitW));
    }
    if dense_first {
        let mut v = vec![FD::Dense, FD::Max];
        v.extend(u);
        v
    } else {
        u.extend([FD::Dense, FD::Max]);
        u
    }
}

/// `name: value` of the `Debug` rendering of a helper (the block sizes are private fields)
fn debug_field(dbg: &str, name: &str) -> Option<usize> {
    let at = dbg.find(&format!("{name}: "))? + name.len() + 2;
    let digits: String = dbg[at..].chars().take_while(|c| c.is_ascii_digit()).collect();
    digits.parse().ok()
}

fn ceil2(n: usize) -> usize {
    n.max(1).next_power_of_two()
}

fn min_budget(kx: &KitX, y: &Cipher2d) -> usize {
    y.data.iter().flat_map(|d| d.data.iter()).map(|ct| kx.kit.dec.invariant_noise_budget(ct)).min().unwrap_or(0)
}

fn matmul_ref(x: &[u64], w: &[u64], m: usize, r: usize, n: usize, t: u64) -> Vec<u64> {
    let mut y = vec![0u64; m * n];
    for i in 0..m {
        for j in 0..n {
            let mut s: u128 = 0;
            for k in 0..r {
                s = (s + (x[i * r + k] as u128 * w[k * n + j] as u128) % t as u128) % t as u128;
            }
            y[i * n + j] = s as u64;
        }
    }
    y
}
fn vadd(a: &[u64], b: &[u64], t: u64) -> Vec<u64> {
    a.iter().zip(b).map(|(&x, &y)| ((x as u128 + y as u128) % t as u128) as u64).collect()
}

/// explicit refusal (assertion with or without message, bracketed library error) as opposed to a crash
fn is_explicit_refusal(p: &str) -> bool {
    let crash = ["index out of bounds", "attempt to", "out of range for slice", "called `Option::unwrap()`", "called `Result::unwrap()`", "slice index", "overflow", "capacity"];
    !crash.iter().any(|c| p.contains(c)) && (p.contains("assertion") || p.starts_with('[') || p.contains("must"))
}

struct SoftErr {
    stage: &'static str,
    msg: String,
}
fn soft<T>(stage: &'static str, r: std::io::Result<T>) -> Result<T, SoftErr> {
    r.map_err(|e| SoftErr { stage, msg: format!("io error: {e}") })
}

fn encrypt2d(kx: &KitX, p: &Plain2d, wire: bool, stage: &Cell<&'static str>) -> Result<Cipher2d, SoftErr> {
    let ctx = &kx.kit.ctx;
    if !wire {
        stage.set("encrypt");
        Ok(p.encrypt(&kx.kit.enc))
    } else {
        stage.set("encrypt_symmetric");
        let c = p.encrypt_symmetric(&kx.kit.enc).expand_seed(ctx);
        stage.set("serialize_inputs");
        let mut buf = vec![];
        let nw = soft("serialize_inputs", c.serialize(ctx, &mut buf))?;
        if nw != buf.len() || buf.len() != c.serialized_size(ctx) {
            return Err(SoftErr { stage: "serialize_inputs", msg: format!("returned {nw}, wrote {}, serialized_size {}", buf.len(), c.serialized_size(ctx)) });
        }
        soft("deserialize_inputs", Cipher2d::deserialize(ctx, &mut buf.as_slice()))
    }
}

/// result transport: `terms` = Some(..) -> serialize_terms round trip, None -> full serializer
fn transport2d(kx: &KitX, y: Cipher2d, terms: Option<&[usize]>, stage: &Cell<&'static str>) -> Result<Cipher2d, SoftErr> {
    let ctx = &kx.kit.ctx;
    let mut buf = vec![];
    match terms {
        Some(t) => {
            stage.set("serialize_terms");
            let nw = soft("serialize_terms", y.serialize_terms(ctx, t, &mut buf))?;
            let sz = y.serialized_terms_size(ctx, t.len());
            if nw != buf.len() || buf.len() != sz {
                return Err(SoftErr { stage: "serialized_terms_size", msg: format!("returned {nw}, wrote {}, serialized_terms_size {sz}", buf.len()) });
            }
            stage.set("deserialize_terms");
            soft("deserialize_terms", Cipher2d::deserialize_terms(ctx, t, &mut buf.as_slice()))
        }
        None => {
            stage.set("serialize_outputs");
            let nw = soft("serialize_outputs", y.serialize(ctx, &mut buf))?;
            if nw != buf.len() || buf.len() != y.serialized_size(ctx) {
                return Err(SoftErr { stage: "serialized_size", msg: format!("returned {nw}, wrote {}, serialized_size {}", buf.len(), y.serialized_size(ctx)) });
            }
            stage.set("deserialize_outputs");
            soft("deserialize_outputs", Cipher2d::deserialize(ctx, &mut buf.as_slice()))
        }
    }
}

fn dims_p(p: &Plain2d) -> (usize, usize) {
    (p.data.len(), p.data.first().map(|d| d.len()).unwrap_or(0))
}
fn dims_c(c: &Cipher2d) -> (usize, usize) {
    (c.data.len(), c.data.first().map(|d| d.len()).unwrap_or(0))
}

fn short(v: &[u64]) -> String {
    if v.len() <= 48 {
        format!("{v:?}")
    } else {
        format!("{:?}…({} values)", &v[..48], v.len())
    }
}

/// outcome of running all fills of a case
struct Tally {
    steps: u64,
    shape: u64,
    multi: bool,
}

// ---------------------------------------------------------------------------------------------
// Cheetah MatmulHelper (BFV / BGV)
// ---------------------------------------------------------------------------------------------

#[derive(Serialize, Deserialize, Clone, Debug)]
pub struct MCase {
    pub spec: ParamSpec,
    pub m: usize,
    pub r: usize,
    pub n: usize,
    pub obj: Obj,
    pub pack: bool,
    pub dir: Dir,
    pub transport: Transport,
    /// loop over every pair of unit operands
    pub units: bool,
}

struct MFill {
    kind: &'static str,
    x: Vec<u64>,
    w: Vec<u64>,
    /// second product of Dir::Sum
    x2: Vec<u64>,
    w2: Vec<u64>,
    bias: Option<Vec<u64>>,
}

fn cheetah_fill(c: &MCase, seed: u64, fd: FD) -> MFill {
    let (m, r, n, t) = (c.m, c.r, c.n, c.spec.t);
    let (lx, lw) = (m * r, r * n);
    match fd {
        FD::Dense => MFill { kind: "dense", x: dense(seed, 1, lx, t), w: dense(seed, 2, lw, t), x2: dense(seed, 3, lx, t), w2: dense(seed, 4, lw, t), bias: Some(dense(seed, 5, m * n, t)) },
        FD::Max => MFill { kind: "max", x: vec![t - 1; lx], w: vec![t - 1; lw], x2: vec![t - 1; lx], w2: vec![t - 1; lw], bias: Some(vec![t - 1; m * n]) },
        // second product (Sum): the mirrored unit pair
        FD::Pair(a, b) => MFill { kind: "unit", x: unit(lx, a, 1), w: unit(lw, b, 1), x2: unit(lx, lx - 1 - a, t - 1), w2: unit(lw, lw - 1 - b, 1), bias: None },
        // second product (Sum): the mirrored unit against the second dense operand
        FD::UnitX(a) => MFill { kind: "unit-x", x: unit(lx, a, 1), w: dense(seed, 2, lw, t), x2: unit(lx, lx - 1 - a, t - 1), w2: dense(seed, 4, lw, t), bias: None },
        FD::UnitW(b) => MFill { kind: "unit-w", x: dense(seed, 1, lx, t), w: unit(lw, b, 1), x2: dense(seed, 3, lx, t), w2: unit(lw, lw - 1 - b, t - 1), bias: None },
    }
}

fn check_cheetah(c: &MCase, seed: u64) -> CaseOut {
    run_cheetah(c, "cheetah", None, h64(&serde_json::to_string(c).unwrap_or_default()), seed)
}
fn check_big_cheetah(b: &Big<MCase>, seed: u64) -> CaseOut {
    run_cheetah(&b.c, "big_cheetah", Some(b.side), h64(&serde_json::to_string(b).unwrap_or_default()), seed)
}

/// `side` = None: the fills of the small-size section (unit pairs when `c.units`); Some(s): one-sided unit fills (see `Big`)
fn run_cheetah(c: &MCase, sec: &str, side: Option<u8>, tag: u64, seed: u64) -> CaseOut {
    let sch = c.spec.scheme;
    let kx = match kitx(&c.spec, if c.pack { Keys::Auto } else { Keys::None }, seed) {
        Ok(k) => k,
        Err(e) => return CaseOut::skip(&format!("parameter set rejected: {e}")),
    };
    env_real(seed, tag);
    let valid = c.m >= 1 && c.r >= 1 && c.n >= 1 && c.spec.n >= 2;
    let kp = format!("{sec}:{sch:?}:pack={}", c.pack as u8);
    let helper = match guard(|| MatmulHelper::new(c.m, c.r, c.n, c.spec.n, c.obj.to(), c.pack)) {
        Ok(h) => h,
        Err(p) => {
            if !valid || is_explicit_refusal(&p) {
                note(format!("{sec}: constructor refusal: {}", panic_class(&p)));
                if valid {
                    return CaseOut::fail(format!("{kp}:new:refused-valid-shape:{}", panic_class(&p)), "shapes with all dimensions >= 1 are accepted", p);
                }
                return CaseOut::skip(&format!("shape refused: {}", panic_class(&p)));
            }
            return CaseOut::fail(format!("{kp}:new:panic:{}", panic_class(&p)), format!("MatmulHelper::new({},{},{},N={}) returns", c.m, c.r, c.n, c.spec.n), p);
        }
    };
    if !valid {
        // the constructor accepted a shape with a zero dimension: nothing to compute, outside the domain
        return CaseOut::skip("zero dimension accepted by the constructor");
    }
    let be = kx.be.as_ref().unwrap();
    let (ev, dec) = (&kx.kit.eval, &kx.kit.dec);
    let t = c.spec.t;
    let wire = c.transport == Transport::Wire;
    let mut tally = Tally { steps: 0, shape: 0, multi: false };
    let big = side.is_some();
    if big {
        let dbg = format!("{helper:?}");
        for f in ["batch_block", "input_block", "output_block"] {
            if let Some(v) = debug_field(&dbg, f) {
                reached(format!("{sec}: {f} (pack_lwe = {})", c.pack), v);
            }
        }
    }
    let (xa, wa) = ([c.m, c.r], [c.r, c.n]);
    let fds = fill_list(if c.units { Some((c.m * c.r, c.r * c.n)) } else { None }, side.map(|s| (s, &xa[..], &wa[..])), true);

    for fd in fds {
        let f = cheetah_fill(c, seed, fd);
        let stage = Cell::new("");
        let shape = Cell::new(0u64);
        let multi = Cell::new(false);
        let run = guard(|| -> Result<Vec<u64>, SoftErr> {
            let product = |x: &[u64], w: &[u64], reverse: bool| -> Result<Cipher2d, SoftErr> {
                stage.set("encode_inputs");
                let xe = helper.encode_inputs_bfv(be, x);
                stage.set("encode_weights");
                let we = helper.encode_weights_bfv(be, w);
                let (dx, dw) = (dims_p(&xe), dims_p(&we));
                let y = if !reverse {
                    let xc = encrypt2d(&kx, &xe, wire, &stage)?;
                    stage.set("matmul");
                    helper.matmul(ev, &xc, &we)
                } else {
                    let wc = encrypt2d(&kx, &we, wire, &stage)?;
                    stage.set("matmul_reverse");
                    helper.matmul_reverse(ev, &xe, &wc)
                };
                shape.set(h64(&(dx, dw, dims_c(&y))));
                multi.set(dx.0 * dx.1 > 1 || dw.0 * dw.1 > 1);
                Ok(y)
            };
            let mut y = match c.dir {
                Dir::Forward => product(&f.x, &f.w, false)?,
                Dir::Reverse => product(&f.x, &f.w, true)?,
                Dir::Sum => {
                    let mut a = product(&f.x, &f.w, false)?;
                    let b = product(&f.x2, &f.w2, true)?;
                    stage.set("add_inplace");
                    a.add_inplace(ev, &b);
                    a
                }
            };
            if c.pack {
                stage.set("pack_outputs");
                y = helper.pack_outputs(ev, kx.auto.as_ref().unwrap(), &y);
            }
            if let Some(b) = &f.bias {
                stage.set("encode_outputs");
                let pb = helper.encode_outputs_bfv(be, b);
                stage.set("add_plain_inplace");
                y.add_plain_inplace(ev, &pb);
            }
            if big && sch == Scheme::BFV && f.bias.is_some() {
                stage.set("noise_budget");
                low_mark(format!("{sec}: invariant noise budget (bits) of the outputs of the dense and all-(t-1) fills"), min_budget(&kx, &y));
            }
            if wire {
                let terms = if c.pack { None } else { Some(helper.output_terms()) };
                y = transport2d(&kx, y, terms.as_deref(), &stage)?;
            }
            stage.set("decrypt_outputs");
            Ok(helper.decrypt_outputs_bfv(be, dec, &y))
        });
        let mut exp = matmul_ref(&f.x, &f.w, c.m, c.r, c.n, t);
        if c.dir == Dir::Sum {
            exp = vadd(&exp, &matmul_ref(&f.x2, &f.w2, c.m, c.r, c.n, t), t);
        }
        if let Some(b) = &f.bias {
            exp = vadd(&exp, b, t);
        }
        let inp = || format!("fill={} x={} w={}{} bias={}", f.kind, short(&f.x), short(&f.w), if c.dir == Dir::Sum { format!(" x0={} w1={}", short(&f.x2), short(&f.w2)) } else { String::new() }, f.bias.as_ref().map(|b| short(b)).unwrap_or("none".into()));
        tally.steps += 1;
        tally.shape = shape.get();
        tally.multi |= multi.get();
        match run {
            Ok(Ok(o)) if o == exp => {}
            Ok(Ok(o)) => return CaseOut::fail(format!("{kp}:{:?}:{:?}:wrong", c.dir, c.transport), format!("{} -> {}", inp(), short(&exp)), short(&o)),
            Ok(Err(e)) => return CaseOut::fail(format!("{kp}:{}:error", e.stage), format!("{} -> {}", inp(), short(&exp)), e.msg),
            Err(p) => return CaseOut::fail(format!("{kp}:{}:panic:{}", stage.get(), panic_class(&p)), format!("{} -> {}", inp(), short(&exp)), p),
        }
    }
    // encode_outputs / decrypt_outputs inverse (dense, sparse and zero tensors)
    // the inverse does not depend on direction / transport: checked once per (shape, objective, pack)
    let inv: Vec<(&str, Vec<u64>)> = if c.transport == Transport::Direct && c.dir != Dir::Reverse { vec![("dense", dense(seed, 9, c.m * c.n, t)), ("first", unit(c.m * c.n, 0, 1)), ("last", unit(c.m * c.n, c.m * c.n - 1, t - 1)), ("zero", vec![0; c.m * c.n])] } else { vec![] };
    for (what, y) in inv {
        let stage = Cell::new("");
        let r = guard(|| {
            stage.set("encode_outputs");
            let p = helper.encode_outputs_bfv(be, &y);
            stage.set("encrypt");
            let ct = p.encrypt(&kx.kit.enc);
            stage.set("decrypt_outputs");
            helper.decrypt_outputs_bfv(be, dec, &ct)
        });
        tally.steps += 1;
        match r {
            Ok(o) if o == y => {}
            Ok(o) => return CaseOut::fail(format!("{kp}:outputs_inverse:wrong"), format!("decrypt_outputs(encrypt(encode_outputs(y))) = y for the {what} tensor y = {}", short(&y)), short(&o)),
            Err(p) => {
                return CaseOut::fail(format!("{kp}:outputs_inverse:{}:panic:{}", stage.get(), panic_class(&p)), format!("decrypt_outputs(encrypt(encode_outputs(y))) = y for the {what} tensor y = {}", short(&y)), p)
            }
        }
    }

    CaseOut::pass(tally.multi, h64(&(sec, sch, c.pack, c.dir, c.transport, tally.shape)), tally.steps)
}

fn cheetah_cases(specs: &[(ParamSpec, Vec<usize>)], cap: usize, zero_dims: bool) -> Vec<MCase> {
    let mut v = vec![];
    for (spec, dims) in specs {
        let mut shapes: Vec<(usize, usize, usize)> = vec![];
        for &m in dims {
            for &r in dims {
                for &n in dims {
                    shapes.push((m, r, n));
                }
            }
        }
        shapes.sort_by_key(|&(m, r, n)| (m * r * n, m, r, n));
        if zero_dims {
            shapes.extend([(0, 1, 1), (1, 0, 1), (1, 1, 0)]);
        }
        for (m, r, n) in shapes {
            for obj in Obj::all() {
                for pack in [false, true] {
                    for dir in [Dir::Forward, Dir::Reverse, Dir::Sum] {
                        if dir == Dir::Sum && obj != Obj::CpAddPc {
                            continue;
                        }
                        for transport in [Transport::Direct, Transport::Wire] {
                            let ucap = if transport == Transport::Wire { cap / 4 } else { cap };
                            v.push(MCase { spec: spec.clone(), m, r, n, obj, pack, dir, transport, units: m * r * r * n <= ucap && m * r * n > 0 });
                        }
                    }
                }
            }
        }
    }
    v
}

// ---------------------------------------------------------------------------------------------
// BOLT slot-packing helpers (BFV / BGV, batching t)
// ---------------------------------------------------------------------------------------------

#[derive(Serialize, Deserialize, Clone, Copy, Debug, PartialEq, Eq, Hash)]
pub enum Bolt {
    Cp,
    CcCr,
    CcDc,
}

#[derive(Serialize, Deserialize, Clone, Debug)]
pub struct BCase {
    pub spec: ParamSpec,
    pub kind: Bolt,
    pub m: usize,
    pub r: usize,
    pub n: usize,
    pub transport: Transport,
    pub units: bool,
}

enum BoltH {
    Cp(MatmulBoltCp),
    CcCr(MatmulBoltCcCr),
    CcDc(MatmulBoltCcDc),
}

impl BoltH {
    fn encode_inputs(&self, be: &BatchEncoder, x: &[u64]) -> Plain2d {
        match self {
            BoltH::Cp(h) => h.encode_inputs(be, x),
            BoltH::CcCr(h) => h.encode_inputs(be, x),
            BoltH::CcDc(h) => h.encode_inputs(be, x),
        }
    }
    fn encode_weights(&self, be: &BatchEncoder, w: &[u64]) -> Plain2d {
        match self {
            BoltH::Cp(h) => h.encode_weights(be, w),
            BoltH::CcCr(h) => h.encode_weights(be, w),
            BoltH::CcDc(h) => h.encode_weights(be, w),
        }
    }
    fn encode_outputs(&self, be: &BatchEncoder, y: &[u64]) -> Plain2d {
        match self {
            BoltH::Cp(h) => h.encode_outputs(be, y),
            BoltH::CcCr(h) => h.encode_outputs(be, y),
            BoltH::CcDc(h) => h.encode_outputs(be, y),
        }
    }
    fn decode_outputs(&self, be: &BatchEncoder, y: &Plain2d) -> Vec<u64> {
        match self {
            BoltH::Cp(h) => h.decode_outputs(be, y),
            BoltH::CcCr(h) => h.decode_outputs(be, y),
            BoltH::CcDc(h) => h.decode_outputs(be, y),
        }
    }
}

fn check_bolt(c: &BCase, seed: u64) -> CaseOut {
    run_bolt(c, "bolt", None, h64(&serde_json::to_string(c).unwrap_or_default()), seed)
}
fn check_big_bolt(b: &Big<BCase>, seed: u64) -> CaseOut {
    run_bolt(&b.c, "big_bolt", Some(b.side), h64(&serde_json::to_string(b).unwrap_or_default()), seed)
}

/// `side` = None: the fills of the small-size section (unit pairs when `c.units`); Some(s): one-sided unit fills (see `Big`)
fn run_bolt(c: &BCase, sec: &str, side: Option<u8>, tag: u64, seed: u64) -> CaseOut {
    let sch = c.spec.scheme;
    let kx = match kitx(&c.spec, Keys::GaloisRelin, seed) {
        Ok(k) => k,
        Err(e) => return CaseOut::skip(&format!("parameter set rejected: {e}")),
    };
    env_real(seed, tag);
    let kp = format!("{sec}:{:?}:{sch:?}", c.kind);
    let nn = c.spec.n;
    let helper = match guard(|| match c.kind {
        Bolt::Cp => BoltH::Cp(MatmulBoltCp::new(c.m, c.r, c.n, nn)),
        Bolt::CcCr => BoltH::CcCr(MatmulBoltCcCr::new(c.m, c.r, c.n, nn)),
        Bolt::CcDc => BoltH::CcDc(MatmulBoltCcDc::new(c.m, c.r, c.n, nn)),
    }) {
        Ok(h) => h,
        Err(p) => {
            note(format!("{sec}: constructor panic: {}", panic_class(&p)));
            return CaseOut::fail(format!("{kp}:new:panic:{}", panic_class(&p)), format!("new({},{},{},N={nn}) returns (all dimensions >= 1)", c.m, c.r, c.n), p);
        }
    };
    let be = kx.be.as_ref().unwrap();
    let (ev, dec) = (&kx.kit.eval, &kx.kit.dec);
    let (gk, rk) = (kx.galois.as_ref().unwrap(), kx.relin.as_ref().unwrap());
    let t = c.spec.t;
    let (m, r, n) = (c.m, c.r, c.n);
    let wire = c.transport == Transport::Wire;
    let mut tally = Tally { steps: 0, shape: 0, multi: false };

    for (what, y) in [("dense", dense(seed, 9, m * n, t)), ("first", unit(m * n, 0, 1)), ("last", unit(m * n, m * n - 1, t - 1))] {
        let stage = Cell::new("");
        let res = guard(|| {
            stage.set("encode_outputs");
            let p = helper.encode_outputs(be, &y);
            stage.set("decode_outputs");
            helper.decode_outputs(be, &p)
        });
        tally.steps += 1;
        match res {
            Ok(o) if o == y => {}
            Ok(o) => return CaseOut::fail(format!("{kp}:outputs_inverse:wrong"), format!("decode_outputs(encode_outputs(y)) = y for the {what} tensor y = {}", short(&y)), short(&o)),
            Err(p) => return CaseOut::fail(format!("{kp}:outputs_inverse:{}:panic:{}", stage.get(), panic_class(&p)), format!("decode_outputs(encode_outputs(y)) = y for the {what} tensor y = {}", short(&y)), p),
        }
    }

    let big = side.is_some();
    if big {
        // blocking as documented in the helpers' headers: g = ceil_two_power(M), s = N / g slots groups, log2(s) rotate-and-add steps
        let half = nn / 2;
        let mm = match c.kind {
            Bolt::Cp => m.min(half),
            Bolt::CcCr => m.max(n).min(half),
            Bolt::CcDc => m.max(r).min(half),
        };
        let s = nn / ceil2(mm);
        reached(format!("{sec}: {:?} N = {nn}: gap g", c.kind), ceil2(mm));
        reached(format!("{sec}: {:?} N = {nn}: rotate-and-add depth log2(N/g)", c.kind), s.trailing_zeros() as usize);
        let (inner, outer) = match c.kind {
            Bolt::Cp => (r, n),
            Bolt::CcCr => (r, mm),
            Bolt::CcDc => (mm, n),
        };
        reached(format!("{sec}: {:?}: ciphertexts per packed operand, ceil(dim/s)", c.kind), (inner + s - 1) / s);
        reached(format!("{sec}: {:?}: ciphertexts per packed result, ceil(dim/s)", c.kind), (outer + s - 1) / s);
    }
    let (xa, wa) = ([m, r], [r, n]);
    let fds = fill_list(if c.units { Some((m * r, r * n)) } else { None }, side.map(|s| (s, &xa[..], &wa[..])), big);

    for fd in fds {
        let (kind, x, w, bias): (&'static str, Vec<u64>, Vec<u64>, Option<Vec<u64>>) = match fd {
            FD::Pair(a, b) => ("unit", unit(m * r, a, 1), unit(r * n, b, t - 1), None),
            FD::UnitX(a) => ("unit-x", unit(m * r, a, 1), dense(seed, 2, r * n, t), None),
            FD::UnitW(b) => ("unit-w", dense(seed, 1, m * r, t), unit(r * n, b, t - 1), None),
            FD::Dense => ("dense", dense(seed, 1, m * r, t), dense(seed, 2, r * n, t), Some(dense(seed, 5, m * n, t))),
            FD::Max => ("max", vec![t - 1; m * r], vec![t - 1; r * n], Some(vec![t - 1; m * n])),
        };
        let stage = Cell::new("");
        let shape = Cell::new(0u64);
        let multi = Cell::new(false);
        let budget = Cell::new(usize::MAX);
        let run = guard(|| -> Result<Vec<u64>, SoftErr> {
            stage.set("encode_inputs");
            let xe = helper.encode_inputs(be, &x);
            stage.set("encode_weights");
            let we = helper.encode_weights(be, &w);
            let xc = encrypt2d(&kx, &xe, wire, &stage)?;
            let mut y = match &helper {
                BoltH::Cp(h) => {
                    stage.set("multiply");
                    h.multiply(ev, gk, &xc, &we)
                }
                BoltH::CcCr(h) => {
                    let wc = encrypt2d(&kx, &we, wire, &stage)?;
                    stage.set("multiply");
                    h.multiply(be, ev, gk, rk, &xc, &wc)
                }
                BoltH::CcDc(h) => {
                    let wc = encrypt2d(&kx, &we, wire, &stage)?;
                    stage.set("multiply");
                    h.multiply(be, ev, gk, rk, &xc, &wc)
                }
            };
            shape.set(h64(&(dims_p(&xe), dims_p(&we), dims_c(&y))));
            multi.set(xe.data.iter().map(|d| d.len()).sum::<usize>() > 1 || y.data.iter().map(|d| d.len()).sum::<usize>() > 1);
            if let Some(b) = &bias {
                stage.set("encode_outputs");
                let pb = helper.encode_outputs(be, b);
                stage.set("add_plain_inplace");
                y.add_plain_inplace(ev, &pb);
            }
            if wire {
                y = transport2d(&kx, y, None, &stage)?;
            }
            if sch == Scheme::BFV {
                stage.set("noise_budget");
                budget.set(y.data.iter().flat_map(|d| d.data.iter()).map(|ct| dec.invariant_noise_budget(ct)).min().unwrap_or(0));
                if big {
                    low_mark(format!("{sec}: invariant noise budget (bits) of the outputs"), budget.get());
                }
            }
            stage.set("decrypt");
            let yp = y.decrypt(dec);
            stage.set("decode_outputs");
            Ok(helper.decode_outputs(be, &yp))
        });
        let mut exp = matmul_ref(&x, &w, m, r, n, t);
        if let Some(b) = &bias {
            exp = vadd(&exp, b, t);
        }
        let inp = || format!("fill={kind} x={} w={} bias={}", short(&x), short(&w), bias.as_ref().map(|b| short(b)).unwrap_or("none".into()));
        tally.steps += 1;
        tally.shape = shape.get();
        tally.multi |= multi.get();
        match run {
            Ok(Ok(o)) if o == exp => {}
            Ok(Ok(o)) => return CaseOut::fail(format!("{kp}:{:?}:wrong", c.transport), format!("{} -> {}", inp(), short(&exp)), format!("{} (minimum noise budget of the outputs: {} bits)", short(&o), budget.get())),
            Ok(Err(e)) => return CaseOut::fail(format!("{kp}:{}:error", e.stage), format!("{} -> {}", inp(), short(&exp)), e.msg),
            Err(p) => return CaseOut::fail(format!("{kp}:{}:panic:{}", stage.get(), panic_class(&p)), format!("{} -> {}", inp(), short(&exp)), p),
        }
    }
    CaseOut::pass(tally.multi, h64(&(sec, c.kind, sch, c.transport, tally.shape)), tally.steps)
}

fn bolt_cases(specs: &[(ParamSpec, Vec<usize>, usize)]) -> Vec<BCase> {
    let mut v = vec![];
    for (spec, dims, cap) in specs {
        let mut shapes: Vec<(usize, usize, usize)> = vec![];
        for &m in dims {
            for &r in dims {
                for &n in dims {
                    shapes.push((m, r, n));
                }
            }
        }
        shapes.sort_by_key(|&(m, r, n)| (m * r * n, m, r, n));
        for (m, r, n) in shapes {
            for kind in [Bolt::Cp, Bolt::CcCr, Bolt::CcDc] {
                for transport in [Transport::Direct, Transport::Wire] {
                    v.push(BCase { spec: spec.clone(), kind, m, r, n, transport, units: transport == Transport::Direct && m * r * r * n <= *cap });
                }
            }
        }
    }
    v
}

// ---------------------------------------------------------------------------------------------
// Conv2dHelper (BFV / BGV)
// ---------------------------------------------------------------------------------------------

#[derive(Serialize, Deserialize, Clone, Copy, Debug, PartialEq, Eq, Hash)]
pub struct ConvShape {
    pub b: usize,
    pub ci: usize,
    pub co: usize,
    pub h: usize,
    pub w: usize,
    pub kh: usize,
    pub kw: usize,
}
impl ConvShape {
    fn in_len(&self) -> usize {
        self.b * self.ci * self.h * self.w
    }
    fn w_len(&self) -> usize {
        self.co * self.ci * self.kh * self.kw
    }
    fn out_len(&self) -> usize {
        self.b * self.co * (self.h - self.kh + 1) * (self.w - self.kw + 1)
    }
}

#[derive(Serialize, Deserialize, Clone, Debug)]
pub struct VCase {
    pub spec: ParamSpec,
    pub s: ConvShape,
    pub obj: Obj,
    pub dir: Dir,
    pub transport: Transport,
    /// 0: dense + max only, 1: + every input unit against dense weights and every weight unit against dense inputs,
    /// 2: + every pair of unit operands, 3: as 1 at the boundary indices of every axis only (production-size section)
    pub units: u8,
}

/// valid cross-correlation: y[b,oc,i,j] = sum_{ic,ki,kj} x[b,ic,i+ki,j+kj] * w[oc,ic,ki,kj] mod t
fn conv_ref(x: &[u64], w: &[u64], s: &ConvShape, t: u64) -> Vec<u64> {
    let (oh, ow) = (s.h - s.kh + 1, s.w - s.kw + 1);
    let mut y = vec![0u64; s.out_len()];
    for b in 0..s.b {
        for oc in 0..s.co {
            for i in 0..oh {
                for j in 0..ow {
                    let mut acc: u128 = 0;
                    for ic in 0..s.ci {
                        for ki in 0..s.kh {
                            for kj in 0..s.kw {
                                let xi = ((b * s.ci + ic) * s.h + i + ki) * s.w + j + kj;
                                let wi = ((oc * s.ci + ic) * s.kh + ki) * s.kw + kj;
                                acc = (acc + (x[xi] as u128 * w[wi] as u128) % t as u128) % t as u128;
                            }
                        }
                    }
                    y[((b * s.co + oc) * oh + i) * ow + j] = acc as u64;
                }
            }
        }
    }
    y
}

fn conv_fill_list(c: &VCase) -> Vec<FD> {
    let s = &c.s;
    // dense fills first: a defect of the blocking shows up before the sparse fills are reached
    let (xa, wa) = ([s.b, s.ci, s.h, s.w], [s.co, s.ci, s.kh, s.kw]);
    match c.units {
        0 => fill_list(None, None, true),
        1 => fill_list(None, Some((2, &xa[..], &wa[..])), true),
        2 => fill_list(Some((s.in_len(), s.w_len())), None, true),
        _ => fill_list(None, Some((1, &xa[..], &wa[..])), true),
    }
}

fn conv_fill(c: &VCase, seed: u64, fd: FD) -> (&'static str, Vec<u64>, Vec<u64>, Option<Vec<u64>>) {
    let (s, t) = (&c.s, c.spec.t);
    let (li, lw, lo) = (s.in_len(), s.w_len(), s.out_len());
    match fd {
        FD::Dense => ("dense", dense(seed, 1, li, t), dense(seed, 2, lw, t), Some(dense(seed, 5, lo, t))),
        FD::Max => ("max", vec![t - 1; li], vec![t - 1; lw], Some(vec![t - 1; lo])),
        FD::Pair(a, b) => ("unit", unit(li, a, 1), unit(lw, b, t - 1), None),
        FD::UnitX(a) => ("unit-x", unit(li, a, 1), dense(seed, 2, lw, t), None),
        FD::UnitW(b) => ("unit-w", dense(seed, 1, li, t), unit(lw, b, 1), None),
    }
}

fn check_conv(c: &VCase, seed: u64) -> CaseOut {
    run_conv(c, "conv2d", seed)
}
fn check_big_conv(c: &VCase, seed: u64) -> CaseOut {
    run_conv(c, "big_conv2d", seed)
}

fn run_conv(c: &VCase, sec: &str, seed: u64) -> CaseOut {
    let sch = c.spec.scheme;
    let s = c.s;
    let big = sec != "conv2d";
    let kx = match kitx(&c.spec, Keys::None, seed) {
        Ok(k) => k,
        Err(e) => return CaseOut::skip(&format!("parameter set rejected: {e}")),
    };
    let json = serde_json::to_string(c).unwrap_or_default();
    env_real(seed, if big { h64(&(sec, &json)) } else { h64(&json) });
    let kp = format!("{sec}:{sch:?}");
    let nn = c.spec.n;
    let fits = s.kh * s.kw <= nn;
    let helper = match guard(|| Conv2dHelper::new(s.b, s.ci, s.co, s.h, s.w, s.kh, s.kw, nn, c.obj.to())) {
        Ok(h) => h,
        Err(p) => {
            note(format!("{sec}: constructor panic: {}", panic_class(&p)));
            if !fits {
                return CaseOut::skip(&format!("kernel larger than the ring, constructor: {}", panic_class(&p)));
            }
            return CaseOut::fail(format!("{kp}:new:panic:{}", panic_class(&p)), format!("Conv2dHelper::new({s:?}, N={nn}) returns"), p);
        }
    };
    let be = kx.be.as_ref().unwrap();
    let (ev, dec) = (&kx.kit.eval, &kx.kit.dec);
    let t = c.spec.t;
    let wire = c.transport == Transport::Wire;
    let mut tally = Tally { steps: 0, shape: 0, multi: false };

    if !fits {
        // no blocking exists; whatever happens is outside the domain, but record how the helper reacts
        let x = vec![1u64; s.in_len()];
        let r = guard(|| helper.encode_inputs_bfv(be, &x));
        let how = match r {
            Ok(_) => "accepted".to_string(),
            Err(p) => panic_class(&p),
        };
        note(format!("{sec}: kernel with more coefficients than the ring (k_h*k_w > N) is not refused by the constructor; encode_inputs: {how}"));
        return CaseOut::skip(&format!("kernel larger than the ring: {how}"));
    }

    for fd in conv_fill_list(c) {
        let (kind, x, w, bias) = conv_fill(c, seed, fd);
        let stage = Cell::new("");
        let shape = Cell::new(0u64);
        let multi = Cell::new(false);
        let run = guard(|| -> Result<Vec<u64>, SoftErr> {
            stage.set("encode_inputs");
            let xe = helper.encode_inputs_bfv(be, &x);
            stage.set("encode_weights");
            let we = helper.encode_weights_bfv(be, &w);
            let mut y = if c.dir == Dir::Forward {
                let xc = encrypt2d(&kx, &xe, wire, &stage)?;
                stage.set("conv2d");
                helper.conv2d(ev, &xc, &we)
            } else {
                let wc = encrypt2d(&kx, &we, wire, &stage)?;
                stage.set("conv2d_reverse");
                helper.conv2d_reverse(ev, &xe, &wc)
            };
            shape.set(h64(&(dims_p(&xe), dims_p(&we), dims_c(&y))));
            let (dx, dw) = (dims_p(&xe), dims_p(&we));
            multi.set(dx.0 * dx.1 > 1 || dw.0 * dw.1 > 1);
            if let Some(b) = &bias {
                stage.set("encode_outputs");
                let pb = helper.encode_outputs_bfv(be, b);
                stage.set("add_plain_inplace");
                y.add_plain_inplace(ev, &pb);
            }
            if big && bias.is_some() {
                reached(format!("{sec}: ciphertexts of the encoded inputs, batch x height x width cuts"), dx.0);
                reached(format!("{sec}: ciphertexts of the encoded inputs, input channel cuts"), dx.1);
                reached(format!("{sec}: plaintexts of the encoded weights, output channel cuts"), dw.0);
                if sch == Scheme::BFV {
                    stage.set("noise_budget");
                    low_mark(format!("{sec}: invariant noise budget (bits) of the outputs of the dense and all-(t-1) fills"), min_budget(&kx, &y));
                }
            }
            if wire {
                let terms = helper.output_terms();
                y = transport2d(&kx, y, Some(&terms), &stage)?;
            }
            stage.set("decrypt_outputs");
            Ok(helper.decrypt_outputs_bfv(be, dec, &y))
        });
        let mut exp = conv_ref(&x, &w, &s, t);
        if let Some(b) = &bias {
            exp = vadd(&exp, b, t);
        }
        let inp = || format!("fill={kind} x={} w={} bias={}", short(&x), short(&w), bias.as_ref().map(|b| short(b)).unwrap_or("none".into()));
        tally.steps += 1;
        tally.shape = shape.get();
        tally.multi |= multi.get();
        match run {
            Ok(Ok(o)) if o == exp => {}
            Ok(Ok(o)) => return CaseOut::fail(format!("{kp}:{:?}:{:?}:wrong", c.dir, c.transport), format!("{} -> {}", inp(), short(&exp)), short(&o)),
            Ok(Err(e)) => return CaseOut::fail(format!("{kp}:{}:error", e.stage), format!("{} -> {}", inp(), short(&exp)), e.msg),
            Err(p) => return CaseOut::fail(format!("{kp}:{}:panic:{}", stage.get(), panic_class(&p)), format!("{} -> {}", inp(), short(&exp)), p),
        }
    }
    // the inverse does not depend on direction / transport: checked once per (shape, objective)
    let inv: Vec<(&str, Vec<u64>)> = if c.transport == Transport::Direct && c.dir == Dir::Forward { vec![("dense", dense(seed, 9, s.out_len(), t)), ("first", unit(s.out_len(), 0, 1)), ("last", unit(s.out_len(), s.out_len() - 1, t - 1)), ("zero", vec![0; s.out_len()])] } else { vec![] };
    for (what, y) in inv {
        let stage = Cell::new("");
        let r = guard(|| {
            stage.set("encode_outputs");
            let p = helper.encode_outputs_bfv(be, &y);
            stage.set("encrypt");
            let ct = p.encrypt(&kx.kit.enc);
            stage.set("decrypt_outputs");
            helper.decrypt_outputs_bfv(be, dec, &ct)
        });
        tally.steps += 1;
        match r {
            Ok(o) if o == y => {}
            Ok(o) => return CaseOut::fail(format!("{kp}:outputs_inverse:wrong"), format!("decrypt_outputs(encrypt(encode_outputs(y))) = y for the {what} tensor y = {}", short(&y)), short(&o)),
            Err(p) => {
                return CaseOut::fail(format!("{kp}:outputs_inverse:{}:panic:{}", stage.get(), panic_class(&p)), format!("decrypt_outputs(encrypt(encode_outputs(y))) = y for the {what} tensor y = {}", short(&y)), p)
            }
        }
    }

    CaseOut::pass(tally.multi, h64(&(sec, sch, c.dir, c.transport, tally.shape)), tally.steps)
}

fn conv_shapes(bmax: usize, cmax: usize, hmax: usize, wmax: usize, kmax: usize) -> Vec<ConvShape> {
    let mut v = vec![];
    for b in 1..=bmax {
        for ci in 1..=cmax {
            for co in 1..=cmax {
                for h in 1..=hmax {
                    for w in 1..=wmax {
                        for kh in 1..=h.min(kmax) {
                            for kw in 1..=w.min(kmax) {
                                v.push(ConvShape { b, ci, co, h, w, kh, kw });
                            }
                        }
                    }
                }
            }
        }
    }
    v.sort_by_key(|s| (s.in_len() * s.w_len(), s.in_len(), s.b, s.ci, s.co, s.h, s.w, s.kh, s.kw));
    v
}

fn conv_cases(specs: &[(ParamSpec, Vec<ConvShape>, usize, usize)]) -> Vec<VCase> {
    let mut v = vec![];
    for (spec, shapes, pair_cap, side_cap) in specs {
        let (pair_cap, side_cap) = (*pair_cap, *side_cap);
        for s in shapes {
            for obj in Obj::all() {
                for dir in [Dir::Forward, Dir::Reverse] {
                    for transport in [Transport::Direct, Transport::Wire] {
                        let units = if transport == Transport::Wire {
                            0
                        } else if s.in_len() * s.w_len() <= pair_cap {
                            2
                        } else if s.in_len() + s.w_len() <= side_cap {
                            1
                        } else {
                            0
                        };
                        v.push(VCase { spec: spec.clone(), s: *s, obj, dir, transport, units });
                    }
                }
            }
        }
    }
    v
}

// ---------------------------------------------------------------------------------------------
// CKKS variants (Cheetah matmul and conv2d) on a sub-box, a-priori bound
// ---------------------------------------------------------------------------------------------

#[derive(Serialize, Deserialize, Clone, Debug)]
pub enum KShape {
    Matmul { m: usize, r: usize, n: usize, pack: bool },
    Conv(ConvShape),
}

#[derive(Serialize, Deserialize, Clone, Debug)]
pub struct KCase {
    pub spec: ParamSpec,
    pub log_scale: u32,
    pub shape: KShape,
    pub obj: Obj,
    pub dir: Dir,
    pub transport: Transport,
}

const CK_B: f64 = 4.0;

/// deterministic values in [-4, 4], multiples of 1/8 (products are multiples of 1/64: any index
/// mistake is far above the bound)
fn fdense(seed: u64, tag: u64, len: usize) -> Vec<f64> {
    (0..len).map(|i| ((h64(&(seed, tag, i as u64)) % 65) as f64 - 32.0) / 8.0).collect()
}

fn fmatmul_ref(x: &[f64], w: &[f64], m: usize, r: usize, n: usize) -> Vec<f64> {
    let mut y = vec![0.0; m * n];
    for i in 0..m {
        for j in 0..n {
            for k in 0..r {
                y[i * n + j] += x[i * r + k] * w[k * n + j];
            }
        }
    }
    y
}
fn fconv_ref(x: &[f64], w: &[f64], s: &ConvShape) -> Vec<f64> {
    let (oh, ow) = (s.h - s.kh + 1, s.w - s.kw + 1);
    let mut y = vec![0.0; s.out_len()];
    for b in 0..s.b {
        for oc in 0..s.co {
            for i in 0..oh {
                for j in 0..ow {
                    let mut acc = 0.0;
                    for ic in 0..s.ci {
                        for ki in 0..s.kh {
                            for kj in 0..s.kw {
                                acc += x[((b * s.ci + ic) * s.h + i + ki) * s.w + j + kj] * w[((oc * s.ci + ic) * s.kh + ki) * s.kw + kj];
                            }
                        }
                    }
                    y[((b * s.co + oc) * oh + i) * ow + j] = acc;
                }
            }
        }
    }
    y
}

fn fshort(v: &[f64]) -> String {
    let s: Vec<String> = v.iter().take(32).map(|x| format!("{x:.6}")).collect();
    format!("[{}]{}", s.join(", "), if v.len() > 32 { format!("…({} values)", v.len()) } else { String::new() })
}

fn check_ckks(c: &KCase, seed: u64) -> CaseOut {
    run_ckks(c, false, seed)
}
fn check_big_ckks(c: &KCase, seed: u64) -> CaseOut {
    run_ckks(c, true, seed)
}

fn run_ckks(c: &KCase, big: bool, seed: u64) -> CaseOut {
    let pack = matches!(c.shape, KShape::Matmul { pack: true, .. });
    let kx = match kitx(&c.spec, if pack { Keys::Auto } else { Keys::None }, seed) {
        Ok(k) => k,
        Err(e) => return CaseOut::skip(&format!("parameter set rejected: {e}")),
    };
    let json = serde_json::to_string(c).unwrap_or_default();
    env_real(seed, if big { h64(&("big_ckks", &json)) } else { h64(&json) });
    let nn = c.spec.n;
    let ce = kx.ce.as_ref().unwrap();
    let (ev, dec) = (&kx.kit.eval, &kx.kit.dec);
    let scale = 2f64.powi(c.log_scale as i32);
    let wire = c.transport == Transport::Wire;
    let what = match &c.shape {
        KShape::Matmul { pack, .. } => format!("{}cheetah:CKKS:pack={}", if big { "big_ckks:" } else { "" }, *pack as u8),
        KShape::Conv(_) => format!("{}conv2d:CKKS", if big { "big_ckks:" } else { "" }),
    };
    enum H {
        M(MatmulHelper, usize, usize, usize),
        C(Conv2dHelper, ConvShape),
    }
    let built = guard(|| match &c.shape {
        KShape::Matmul { m, r, n, pack } => H::M(MatmulHelper::new(*m, *r, *n, nn, c.obj.to(), *pack), *m, *r, *n),
        KShape::Conv(s) => H::C(Conv2dHelper::new(s.b, s.ci, s.co, s.h, s.w, s.kh, s.kw, nn, c.obj.to()), *s),
    });
    let helper = match built {
        Ok(h) => h,
        Err(p) => return CaseOut::fail(format!("{what}:new:panic:{}", panic_class(&p)), "constructor returns for a shape with all dimensions >= 1", p),
    };
    let (lx, lw, lo, terms) = match &helper {
        H::M(_, m, r, n) => (m * r, r * n, m * n, *r),
        H::C(_, s) => {
            if s.kh * s.kw > nn {
                return CaseOut::skip("kernel larger than the ring");
            }
            (s.in_len(), s.w_len(), s.out_len(), s.ci * s.kh * s.kw)
        }
    };
    // a-priori bound (see describe())
    let nf = nn as f64;
    let bound = 4.0 * terms as f64 * nf * CK_B * (21.0 * (2.0 * nf + 1.0) + nf + 2.0) / scale + 2f64.powi(-30);
    if bound > 1.0 / 256.0 {
        return CaseOut::skip("a-priori bound too weak to separate index mistakes");
    }
    let mut fills: Vec<(&'static str, Vec<f64>, Vec<f64>, Vec<f64>)> = vec![
        ("dense", fdense(seed, 1, lx), fdense(seed, 2, lw), fdense(seed, 5, lo)),
        ("max", vec![CK_B; lx], vec![-CK_B; lw], vec![CK_B; lo]),
        ("first-unit", { let mut v = vec![0.0; lx]; v[0] = 1.0; v }, { let mut v = vec![0.0; lw]; v[0] = 1.0; v }, vec![0.0; lo]),
    ];
    if big {
        // one-sided sparse fills: the last unit and the comb of all boundary indices, against the dense other operand
        let comb = |len: usize| -> Vec<f64> {
            let mut v = vec![0.0; len];
            for i in bset(len) {
                v[i] = 1.0 + (i % 3) as f64;
            }
            v
        };
        fills.push(("last-unit-x", { let mut v = vec![0.0; lx]; v[lx - 1] = 1.0; v }, fdense(seed, 2, lw), vec![0.0; lo]));
        fills.push(("last-unit-w", fdense(seed, 1, lx), { let mut v = vec![0.0; lw]; v[lw - 1] = 1.0; v }, vec![0.0; lo]));
        fills.push(("comb-x", comb(lx), fdense(seed, 2, lw), fdense(seed, 5, lo)));
        fills.push(("comb-w", fdense(seed, 1, lx), comb(lw), fdense(seed, 5, lo)));
    }
    let mut steps = 0u64;
    let mut shape_h = 0u64;
    let mut multi_any = false;
    for (kind, x, w, bias) in fills {
        let stage = Cell::new("");
        let shape = Cell::new(0u64);
        let multi = Cell::new(false);
        let run = guard(|| -> Result<Vec<f64>, SoftErr> {
            stage.set("encode_inputs");
            let xe = match &helper {
                H::M(h, ..) => h.encode_inputs_ckks(ce, &x, None, scale),
                H::C(h, _) => h.encode_inputs_ckks(ce, &x, None, scale),
            };
            stage.set("encode_weights");
            let we = match &helper {
                H::M(h, ..) => h.encode_weights_ckks(ce, &w, None, scale),
                H::C(h, _) => h.encode_weights_ckks(ce, &w, None, scale),
            };
            let (dx, dw) = (dims_p(&xe), dims_p(&we));
            multi.set(dx.0 * dx.1 > 1 || dw.0 * dw.1 > 1);
            let mut y = if c.dir == Dir::Forward {
                let xc = encrypt2d(&kx, &xe, wire, &stage)?;
                stage.set("multiply");
                match &helper {
                    H::M(h, ..) => h.matmul(ev, &xc, &we),
                    H::C(h, _) => h.conv2d(ev, &xc, &we),
                }
            } else {
                let wc = encrypt2d(&kx, &we, wire, &stage)?;
                stage.set("multiply_reverse");
                match &helper {
                    H::M(h, ..) => h.matmul_reverse(ev, &xe, &wc),
                    H::C(h, _) => h.conv2d_reverse(ev, &xe, &wc),
                }
            };
            shape.set(h64(&(dx, dw, dims_c(&y))));
            if let H::M(h, ..) = &helper {
                if h.pack_lwe() {
                    stage.set("pack_outputs");
                    y = h.pack_outputs(ev, kx.auto.as_ref().unwrap(), &y);
                }
            }
            stage.set("rescale");
            y.rescale_to_next_inplace(ev);
            stage.set("encode_outputs");
            let first = &y.data[0].data[0];
            let (pid, sc) = (*first.parms_id(), first.scale());
            let pb = match &helper {
                H::M(h, ..) => h.encode_outputs_ckks(ce, &bias, Some(pid), sc),
                H::C(h, _) => h.encode_outputs_ckks(ce, &bias, Some(pid), sc),
            };
            stage.set("add_plain_inplace");
            y.add_plain_inplace(ev, &pb);
            if wire {
                let terms = match &helper {
                    H::M(h, ..) => {
                        if h.pack_lwe() {
                            None
                        } else {
                            Some(h.output_terms())
                        }
                    }
                    H::C(h, _) => Some(h.output_terms()),
                };
                y = transport2d(&kx, y, terms.as_deref(), &stage)?;
            }
            stage.set("decrypt_outputs");
            Ok(match &helper {
                H::M(h, ..) => h.decrypt_outputs_ckks(ce, dec, &y),
                H::C(h, _) => h.decrypt_outputs_ckks(ce, dec, &y),
            })
        });
        let mut exp = match &helper {
            H::M(_, m, r, n) => fmatmul_ref(&x, &w, *m, *r, *n),
            H::C(_, s) => fconv_ref(&x, &w, s),
        };
        for (e, b) in exp.iter_mut().zip(&bias) {
            *e += b;
        }
        steps += 1;
        shape_h = shape.get();
        multi_any |= multi.get();
        let inp = || format!("fill={kind} x={} w={} bias={}", fshort(&x), fshort(&w), fshort(&bias));
        match run {
            Ok(Ok(o)) => {
                let worst = o.iter().zip(&exp).map(|(a, b)| (a - b).abs()).fold(0.0, f64::max);
                if o.len() != exp.len() || !(worst <= bound) {
                    return CaseOut::fail(format!("{what}:{:?}:{:?}:wrong", c.dir, c.transport), format!("{} -> {} within {bound:e}", inp(), fshort(&exp)), format!("{} (max error {worst:e})", fshort(&o)));
                }
            }
            Ok(Err(e)) => return CaseOut::fail(format!("{what}:{}:error", e.stage), format!("{} -> {}", inp(), fshort(&exp)), e.msg),
            Err(p) => return CaseOut::fail(format!("{what}:{}:panic:{}", stage.get(), panic_class(&p)), format!("{} -> {}", inp(), fshort(&exp)), p),
        }
    }
    CaseOut::pass(multi_any, h64(&(what.as_str(), c.dir, c.transport, shape_h)), steps)
}

fn ckks_cases(specs: &[(ParamSpec, u32, usize, Vec<ConvShape>)]) -> Vec<KCase> {
    let mut v = vec![];
    for (spec, log_scale, b, convs) in specs {
        for m in 1..=*b {
            for r in 1..=*b {
                for n in 1..=*b {
                    for obj in Obj::all() {
                        for pack in [false, true] {
                            for dir in [Dir::Forward, Dir::Reverse] {
                                for transport in [Transport::Direct, Transport::Wire] {
                                    v.push(KCase { spec: spec.clone(), log_scale: *log_scale, shape: KShape::Matmul { m, r, n, pack }, obj, dir, transport });
                                }
                            }
                        }
                    }
                }
            }
        }
        for s in convs {
            for obj in Obj::all() {
                for dir in [Dir::Forward, Dir::Reverse] {
                    for transport in [Transport::Direct, Transport::Wire] {
                        v.push(KCase { spec: spec.clone(), log_scale: *log_scale, shape: KShape::Conv(*s), obj, dir, transport });
                    }
                }
            }
        }
    }
    v
}

// ---------------------------------------------------------------------------------------------
// RNS-plaintext wrapper
// ---------------------------------------------------------------------------------------------

#[derive(Serialize, Deserialize, Clone, Debug)]
pub struct RCase {
    pub scheme: Scheme,
    pub n: usize,
    pub q: Vec<u64>,
    /// plain moduli
    pub t: Vec<u64>,
    /// slot (batch) encoding or coefficient (polynomial) encoding
    pub batch: bool,
    pub op: String,
    /// 0: all pairs of the value set; 1..: value a paired with partner_k(a)
    pub partner: u8,
    /// value set: every residue modulo the product (true) or the boundary set (false)
    pub all: bool,
    /// this case handles the slot vectors whose index is congruent to `part` modulo `parts`
    pub part: usize,
    pub parts: usize,
}

const R_OPS: &[&str] = &["roundtrip", "add", "sub", "multiply", "square", "negate", "add_plain", "sub_plain", "multiply_plain", "mod_switch"];

struct RKit {
    ctx: RnspHeContext,
    enc: RnspBatchEncoder,
    encryptor: RnspEncryptor,
    dec: RnspDecryptor,
    ev: RnspEvaluator,
    rk: RnspRelinKeys,
}

fn rnsp_values(c: &RCase, p: &BigU) -> Vec<BigU> {
    if c.all {
        let pm = p.to_u64().expect("exhaustive value set needs a one-word product");
        (0..pm).map(BigU::from_u64).collect()
    } else {
        let one = BigU::one();
        let mut v = vec![BigU::zero(), one.clone(), BigU::from_u64(2), p.sub(&one), p.sub(&BigU::from_u64(2)), p.shr(1), p.shr(1).add(&one)];
        for &ti in &c.t {
            for d in [0u64, 1] {
                v.push(BigU::from_u64(ti - d).rem(p));
                v.push(BigU::from_u64(ti + 1).rem(p));
                // P/t_i and neighbours: the CRT basis boundaries
                let pi = p.div(&BigU::from_u64(ti));
                v.push(pi.clone());
                v.push(pi.sub(&one));
                v.push(pi.mul_u64(ti - 1).rem(p));
            }
        }
        v.push(BigU::from_limbs(&[0x5555_5555_5555_5555, 0x5555_5555_5555_5555, 0x5555]).rem(p));
        v.push(BigU::from_limbs(&[u64::MAX, u64::MAX, u64::MAX]).rem(p));
        v.sort();
        v.dedup();
        v
    }
}

/// One pipeline of the wrapper on the slot (coefficient) vectors a, b; the first `la` words of each are handed to the encoder
/// (the encoder pads). Returns (what, observed, expected) triples. `ci` selects the call form (ci % 3: _new, _inplace,
/// destination) and the encryption of b (even: public key, odd: symmetric).
#[allow(clippy::too_many_arguments)]
fn rnsp_pipeline(kit: &RKit, batch: bool, op: &str, k: usize, n: usize, p: &BigU, a: &[BigU], b: &[BigU], la: usize, ci: usize, stage: &Cell<&'static str>) -> Vec<(String, Vec<BigU>, Vec<BigU>)> {
    let a = a.to_vec();
    let b = b.to_vec();
    let p = p.clone();
    let form = ci % 3; // 0: _new, 1: _inplace, 2: destination form
    let words = |v: &[BigU]| -> Vec<u64> { v.iter().flat_map(|x| x.limbs(k)).collect() };
    let unwords = |w: &[u64]| -> Vec<BigU> { w.chunks(k).map(BigU::from_limbs).collect() };
    let submod = |a: &BigU, b: &BigU| a.add(&p).sub(b).rem(&p);
    // reference on one slot vector (batch: slot-wise; poly: ring Z_P[X]/(X^N+1))
    let ref_mul = |a: &[BigU], b: &[BigU]| -> Vec<BigU> {
        if batch {
            a.iter().zip(b).map(|(x, y)| x.mul(y).rem(&p)).collect()
        } else {
            let mut r = vec![BigU::zero(); n];
            for i in 0..n {
                for j in 0..n {
                    if a[i].is_zero() || b[j].is_zero() {
                        continue;
                    }
                    let pr = a[i].mul(&b[j]).rem(&p);
                    let kk = (i + j) % n;
                    r[kk] = if i + j < n { r[kk].add(&pr).rem(&p) } else { submod(&r[kk], &pr) };
                }
            }
            r
        }
    };
    let empty = || RnspCiphertext::from_raw_parts(vec![Ciphertext::new(); k]);
    {
    let (wa, wb) = (words(&a), words(&b));
    stage.set("encode");
    let (pa, pb) = if batch { (kit.enc.encode_new(&wa[..la]), kit.enc.encode_new(&wb[..la])) } else { (kit.enc.encode_polynomial_new(&wa[..la]), kit.enc.encode_polynomial_new(&wb[..la])) };
    let decode = |pt: &RnspPlaintext| -> Vec<BigU> { unwords(&if batch { kit.enc.decode_new(pt) } else { kit.enc.decode_polynomial_new(pt) }) };
    let mut out: Vec<(String, Vec<BigU>, Vec<BigU>)> = vec![];
    // tiny rings (fewer than 9 words per polynomial) produce seedless symmetric ciphertexts: expand only when there is a seed
    let sym = |pt: &RnspPlaintext| -> RnspCiphertext {
        let ct = kit.encryptor.encrypt_symmetric_new(pt);
        if ct.contains_seed() {
            ct.expand_seed(&kit.ctx)
        } else {
            ct
        }
    };
    if op == "roundtrip" {
        stage.set("decode");
        out.push(("decode(encode(a))".into(), decode(&pa), a.clone()));
        stage.set("encrypt");
        let ct = kit.encryptor.encrypt_new(&pa);
        stage.set("decrypt");
        out.push(("decrypt(encrypt(a))".into(), decode(&kit.dec.decrypt_new(&ct)), a.clone()));
        stage.set("encrypt_symmetric");
        let ct = sym(&pb);
        stage.set("decrypt");
        let mut dst = RnspPlaintext::from_raw_parts(vec![heathcliff::Plaintext::new(); k]);
        kit.dec.decrypt(&ct, &mut dst);
        out.push(("decrypt(encrypt_symmetric(b))".into(), decode(&dst), b.clone()));
        return out;
    }
    stage.set("encrypt");
    let ca = kit.encryptor.encrypt_new(&pa);
    let cb = if ci % 2 == 0 { kit.encryptor.encrypt_new(&pb) } else { sym(&pb) };
    let ev = &kit.ev;
    stage.set("evaluate");
    macro_rules! forms {
        ($new:ident, $inpl:ident, $dst:ident, $rhs:expr) => {{
            match form {
                0 => ev.$new(&ca, $rhs),
                1 => {
                    let mut x = ca.clone();
                    ev.$inpl(&mut x, $rhs);
                    x
                }
                _ => {
                    let mut d = empty();
                    ev.$dst(&ca, $rhs, &mut d);
                    d
                }
            }
        }};
    }
    let (res, exp): (RnspCiphertext, Vec<BigU>) = match op {
        "add" => (forms!(add_new, add_inplace, add, &cb), a.iter().zip(&b).map(|(x, y)| x.add(y).rem(&p)).collect()),
        "sub" => (forms!(sub_new, sub_inplace, sub, &cb), a.iter().zip(&b).map(|(x, y)| submod(x, y)).collect()),
        "multiply" => {
            let prod = forms!(multiply_new, multiply_inplace, multiply, &cb);
            let exp = ref_mul(&a, &b);
            stage.set("decrypt size-3");
            out.push(("decrypt(multiply(a,b)) before relinearization".into(), decode(&kit.dec.decrypt_new(&prod)), exp.clone()));
            stage.set("relinearize");
            let r = match form {
                0 => ev.relinearize_new(&prod, &kit.rk),
                1 => {
                    let mut x = prod.clone();
                    ev.relinearize_inplace(&mut x, &kit.rk);
                    x
                }
                _ => {
                    let mut d = empty();
                    ev.relinearize(&prod, &kit.rk, &mut d);
                    d
                }
            };
            (r, exp)
        }
        "square" => {
            let sq = match form {
                0 => ev.square_new(&ca),
                1 => {
                    let mut x = ca.clone();
                    ev.square_inplace(&mut x);
                    x
                }
                _ => {
                    let mut d = empty();
                    ev.square(&ca, &mut d);
                    d
                }
            };
            stage.set("relinearize");
            (ev.relinearize_new(&sq, &kit.rk), ref_mul(&a, &a))
        }
        "negate" => {
            let r = if form == 1 {
                let mut x = ca.clone();
                ev.negate_inplace(&mut x);
                x
            } else {
                ev.negate_new(&ca)
            };
            (r, a.iter().map(|x| submod(&BigU::zero(), x)).collect())
        }
        "add_plain" => (forms!(add_plain_new, add_plain_inplace, add_plain, &pb), a.iter().zip(&b).map(|(x, y)| x.add(y).rem(&p)).collect()),
        "sub_plain" => (forms!(sub_plain_new, sub_plain_inplace, sub_plain, &pb), a.iter().zip(&b).map(|(x, y)| submod(x, y)).collect()),
        "multiply_plain" => (forms!(multiply_plain_new, multiply_plain_inplace, multiply_plain, &pb), ref_mul(&a, &b)),
        "mod_switch" => {
            let r = match form {
                0 => ev.mod_switch_to_next_new(&ca),
                1 => {
                    let mut x = ca.clone();
                    ev.mod_switch_to_next_inplace(&mut x);
                    x
                }
                _ => {
                    let mut d = empty();
                    ev.mod_switch_to_next(&ca, &mut d);
                    d
                }
            };
            (r, a.clone())
        }
        o => panic!("unknown rnsp op {o}"),
    };
    stage.set("decrypt");
    out.push((format!("{}(a,b) form {form}", op), decode(&kit.dec.decrypt_new(&res)), exp));
    out
    }
}

fn rnsp_kit(scheme: Scheme, n: usize, q: &[u64], t: &[u64]) -> Result<Option<RKit>, String> {
    guard(|| {
        let parms = RnspEncryptionParameters::new(scheme.ty())
            .set_poly_modulus_degree(n)
            .set_plain_modulus(t.iter().map(|&v| heathcliff::Modulus::new(v)).collect())
            .set_coeff_modulus(q.iter().map(|&v| heathcliff::Modulus::new(v)).collect());
        let ctx = RnspHeContext::new(parms, true, heathcliff::SecurityLevel::None);
        if !ctx.parameters_set() {
            return None;
        }
        let kg = RnspKeyGenerator::new(&ctx);
        let sk = kg.get_secret_key();
        let pk = kg.create_public_key(false);
        let rk = kg.create_relin_keys(false);
        Some(RKit {
            enc: RnspBatchEncoder::new(&ctx),
            encryptor: RnspEncryptor::new(&ctx).set_public_key(pk).set_secret_key(sk.clone()),
            dec: RnspDecryptor::new(&ctx, sk),
            ev: RnspEvaluator::new(&ctx),
            rk,
            ctx,
        })
    })
}

fn check_rnsp(c: &RCase, seed: u64) -> CaseOut {
    run_rnsp(c, "rnsp", h64(&serde_json::to_string(c).unwrap_or_default()), seed)
}

/// production-size case of the wrapper: many plain moduli at a tiny degree (the small-size case type) or a large degree
#[derive(Serialize, Deserialize, Clone, Debug)]
pub enum RXCase {
    Moduli(RCase),
    Degree(RBCase),
}

#[derive(Serialize, Deserialize, Clone, Debug)]
pub struct RBCase {
    pub scheme: Scheme,
    pub n: usize,
    pub q: Vec<u64>,
    /// plain moduli
    pub t: Vec<u64>,
    pub batch: bool,
    pub op: String,
}

fn check_big_rnsp(c: &RXCase, seed: u64) -> CaseOut {
    let tag = h64(&serde_json::to_string(c).unwrap_or_default());
    match c {
        RXCase::Moduli(r) => run_rnsp(r, "big_rnsp", tag, seed),
        RXCase::Degree(r) => run_rnsp_degree(r, tag, seed),
    }
}

/// Structured slot (coefficient) vectors at a large degree: a dense vector pair with pairwise different values, the same
/// handed to the encoder truncated to every boundary length (the encoder pads), every boundary unit slot (value P-1)
/// against the dense vector on either side.
fn run_rnsp_degree(c: &RBCase, tag: u64, seed: u64) -> CaseOut {
    env_real(seed, tag);
    let (k, n) = (c.t.len(), c.n);
    let kp = format!("big_rnsp:{:?}:{}:{}", c.scheme, if c.batch { "batch" } else { "poly" }, c.op);
    let kit = match rnsp_kit(c.scheme, n, &c.q, &c.t) {
        Ok(Some(k)) => k,
        Ok(None) => return CaseOut::skip("parameter set rejected"),
        Err(p) => return CaseOut::skip(&format!("parameter set rejected: {}", panic_class(&p))),
    };
    let p = BigU::product(&c.t);
    let dense_big = |tg: u64| -> Vec<BigU> { (0..n).map(|i| BigU::from_limbs(&(0..k).map(|j| h64(&(seed, "rnsp-big", tg, i as u64, j as u64))).collect::<Vec<_>>()).rem(&p)).collect() };
    let (da, db) = (dense_big(1), dense_big(2));
    // (what, a, b, slots handed to the encoder)
    let mut vecs: Vec<(String, Vec<BigU>, Vec<BigU>, usize)> = vec![("dense".into(), da.clone(), db.clone(), n)];
    // the O(N^2) reference of the polynomial products: boundary lengths and units up to 65 only
    let heavy = !c.batch && matches!(c.op.as_str(), "multiply" | "square" | "multiply_plain");
    for l in bset(n + 1) {
        if l == n || (heavy && l > 65) {
            continue;
        }
        let cut = |v: &[BigU]| -> Vec<BigU> { v.iter().enumerate().map(|(i, x)| if i < l { x.clone() } else { BigU::zero() }).collect() };
        vecs.push((format!("dense, first {l} slots"), cut(&da), cut(&db), l));
    }
    for i in bset(n) {
        let mut u = vec![BigU::zero(); n];
        u[i] = p.sub(&BigU::one());
        vecs.push((format!("unit slot {i} (P-1) x dense"), u.clone(), db.clone(), n));
        if !heavy || i <= 65 {
            vecs.push((format!("dense x unit slot {i} (P-1)"), da.clone(), u, n));
        }
    }
    let mut steps = 0u64;
    for (ci, (what, a, b, l)) in vecs.iter().enumerate() {
        let stage = Cell::new("");
        let run = guard(|| rnsp_pipeline(&kit, c.batch, &c.op, k, n, &p, a, b, l * k, ci, &stage));
        let hx = |v: &[BigU]| {
            let h: Vec<String> = v.iter().take(24).map(|x| x.to_hex()).collect();
            format!("{}{}", h.join(","), if v.len() > 24 { format!(",…({} values)", v.len()) } else { String::new() })
        };
        match run {
            Ok(list) => {
                for (w2, obs, exp) in list {
                    steps += 1;
                    if obs != exp {
                        let at = obs.iter().zip(&exp).position(|(x, y)| x != y).unwrap_or(obs.len().min(exp.len()));
                        return CaseOut::fail(format!("{kp}:wrong"), format!("{w2} on [{what}]: a=[{}] b=[{}] modulo P={} -> [{}]", hx(a), hx(b), p.to_hex(), hx(&exp)), format!("[{}] (first difference at slot {at})", hx(&obs)));
                    }
                }
            }
            Err(pn) => {
                // multiplication by a zero plaintext is refused by the library ("transparent" result): not a wrapper matter
                if c.op == "multiply_plain" && pn.contains("transparent") {
                    note(format!("big_rnsp: multiply_plain refusal: {}", panic_class(&pn)));
                    continue;
                }
                return CaseOut::fail(format!("{kp}:{}:panic:{}", stage.get(), panic_class(&pn)), format!("no panic on [{what}]: a=[{}] b=[{}] P={}", hx(a), hx(b), p.to_hex()), pn);
            }
        }
    }
    CaseOut::pass(steps > 0, h64(&(kp.as_str(), k, n, steps)), steps)
}

fn run_rnsp(c: &RCase, sec: &str, tag: u64, seed: u64) -> CaseOut {
    env_real(seed, tag);
    let k = c.t.len();
    let n = c.n;
    let kp = format!("{sec}:{:?}:{}:{}", c.scheme, if c.batch { "batch" } else { "poly" }, c.op);
    let kit = match rnsp_kit(c.scheme, n, &c.q, &c.t) {
        Ok(Some(k)) => k,
        Ok(None) => return CaseOut::skip("parameter set rejected"),
        Err(p) => return CaseOut::skip(&format!("parameter set rejected: {}", panic_class(&p))),
    };
    let p = BigU::product(&c.t);
    let vals = rnsp_values(c, &p);
    // operand pairs
    let mut pairs: Vec<(BigU, BigU)> = vec![];
    if c.partner == 0 {
        for a in &vals {
            for b in &vals {
                pairs.push((a.clone(), b.clone()));
            }
        }
    } else {
        let g = BigU::from_u64(h64(&(seed, "rnsp-g")) | 1).rem(&p);
        let off = BigU::from_u64(h64(&(seed, "rnsp-c"))).rem(&p);
        for a in &vals {
            let b = match c.partner {
                1 => a.clone(),
                2 => p.sub(&BigU::one()).sub(a),
                3 => a.mul(&g).add(&off).rem(&p),
                4 => p.sub(&BigU::one()),
                _ => BigU::one(),
            };
            pairs.push((a.clone(), b));
        }
    }
    let mut steps = 0u64;
    for (ci, chunk) in pairs.chunks(n).enumerate() {
        if ci % c.parts.max(1) != c.part {
            continue;
        }
        let mut a: Vec<BigU> = chunk.iter().map(|x| x.0.clone()).collect();
        let mut b: Vec<BigU> = chunk.iter().map(|x| x.1.clone()).collect();
        a.resize(n, BigU::zero());
        b.resize(n, BigU::zero());
        // the last chunk is passed un-padded to exercise the encoder's own padding
        let la = chunk.len() * k;
        let stage = Cell::new("");
        let run = guard(|| -> Vec<(String, Vec<BigU>, Vec<BigU>)> {
            rnsp_pipeline(&kit, c.batch, &c.op, k, n, &p, &a, &b, la, ci, &stage)
        });
        match run {
            Ok(list) => {
                for (what, obs, exp) in list {
                    steps += 1;
                    if obs != exp {
                        let hx = |v: &[BigU]| v.iter().map(|x| x.to_hex()).collect::<Vec<_>>().join(",");
                        return CaseOut::fail(format!("{kp}:wrong"), format!("{what}: a=[{}] b=[{}] modulo P={} -> [{}]", hx(&a), hx(&b), p.to_hex(), hx(&exp)), format!("[{}]", hx(&obs)));
                    }
                }
            }
            Err(pn) => {
                let hx = |v: &[BigU]| v.iter().map(|x| x.to_hex()).collect::<Vec<_>>().join(",");
                // multiplication of a zero plaintext is refused by the library ("transparent" result): not a wrapper matter
                if c.op == "multiply_plain" && pn.contains("transparent") {
                    note(format!("{sec}: multiply_plain refusal: {}", panic_class(&pn)));
                    continue;
                }
                return CaseOut::fail(format!("{kp}:{}:panic:{}", stage.get(), panic_class(&pn)), format!("no panic for a=[{}] b=[{}] P={}", hx(&a), hx(&b), p.to_hex()), pn);
            }
        }
    }
    CaseOut::pass(steps > 0, h64(&(kp.as_str(), c.t.len(), c.partner, steps)), steps)
}


fn range(a: usize, b: usize) -> Vec<usize> {
    (a..=b).collect()
}

pub fn sections(cfg: &RunCfg) -> Vec<Box<dyn AnySection>> {
    let seed = cfg.seed;
    let thorough = cfg.thorough();
    let mut v: Vec<Box<dyn AnySection>> = vec![];
    let wrap = |s: Box<dyn AnySection>| -> Box<dyn AnySection> { Box::new(Observed { inner: s }) };

    // ---- cheetah ----
    {
        let q8 = chain(8, &[50, 50, 50]);
        let q16 = chain(16, &[50, 50, 50]);
        let q32 = chain(32, &[50, 50, 50]);
        let mut specs = vec![];
        if !thorough {
            specs.push((ParamSpec::new(Scheme::BFV, 8, q8.clone(), 1 << 20), range(1, 4)));
            specs.push((ParamSpec::new(Scheme::BFV, 16, q16.clone(), 65537), range(1, 4)));
            specs.push((ParamSpec::new(Scheme::BGV, 8, q8.clone(), 65537), range(1, 3)));
        } else {
            specs.push((ParamSpec::new(Scheme::BFV, 8, q8.clone(), 1 << 20), range(1, 17)));
            specs.push((ParamSpec::new(Scheme::BFV, 16, q16.clone(), 65537), range(1, 12)));
            specs.push((ParamSpec::new(Scheme::BFV, 32, q32.clone(), 1 << 20), range(1, 12)));
            specs.push((ParamSpec::new(Scheme::BGV, 8, q8.clone(), 65537), range(1, 9)));
            specs.push((ParamSpec::new(Scheme::BGV, 16, q16.clone(), 257), range(1, 6)));
            // spot checks at the sizes of the repository's unit tests (not part of the exhaustive claim)
            specs.push((ParamSpec::new(Scheme::BFV, 1024, chain(1024, &[60, 49, 60]), 1 << 20), vec![1, 17, 80]));
            specs.push((ParamSpec::new(Scheme::BFV, 4096, chain(4096, &[60, 49, 60]), 1 << 20), vec![4, 100]));
        }
        let bound = specs.iter().map(|(s, d)| format!("{} (m,r,n) in [1..{}]^3", s.label(), d.last().unwrap())).collect::<Vec<_>>().join("; ");
        let cases = cheetah_cases(&specs, 256, true);
        v.push(wrap(
            E1::new(
                "cheetah",
                &format!("{bound} (+3 zero-dimension shapes) x objective(3) x pack_lwe(2) x {{matmul, matmul_reverse, sum (CpAddPc only)}} x transport(2); fills: all unit pairs when m*r*r*n <= 256 (<= 64 with the Wire transport), dense+bias, all-(t-1)+bias; 4 encode_outputs inverses per (shape, objective[, pack])"),
                cases.into_iter(),
                move |c: &MCase| check_cheetah(c, seed),
            )
            .deadline(Duration::from_secs(60)),
        ));
    }
    // ---- bolt ----
    {
        let q = |n: usize| chain(n, &[55, 55, 55]);
        let mut specs = vec![];
        if !thorough {
            specs.push((ParamSpec::new(Scheme::BFV, 8, q(8), 17), range(1, 5), 256));
            specs.push((ParamSpec::new(Scheme::BFV, 16, q(16), 65537), vec![1, 2, 3, 9], 36));
            specs.push((ParamSpec::new(Scheme::BFV, 32, q(32), 193), vec![1, 3, 17], 9));
            specs.push((ParamSpec::new(Scheme::BGV, 8, q(8), 97), vec![1, 2, 5], 16));
        } else {
            specs.push((ParamSpec::new(Scheme::BFV, 8, q(8), 17), range(1, 9), 256));
            specs.push((ParamSpec::new(Scheme::BFV, 8, q(8), 65537), range(1, 5), 256));
            specs.push((ParamSpec::new(Scheme::BFV, 16, q(16), 65537), vec![1, 2, 3, 4, 5, 6, 8, 9, 17], 81));
            specs.push((ParamSpec::new(Scheme::BFV, 32, q(32), 193), vec![1, 2, 3, 4, 5, 16, 17, 33], 36));
            specs.push((ParamSpec::new(Scheme::BGV, 8, q(8), 97), range(1, 6), 256));
            specs.push((ParamSpec::new(Scheme::BGV, 16, q(16), 97), vec![1, 2, 3, 4, 9], 36));
        }
        let bound = specs.iter().map(|(s, d, cap)| format!("{} (m,r,n) in {:?}^3 (unit pairs when m*r*r*n <= {cap})", s.label(), d)).collect::<Vec<_>>().join("; ");
        let cases = bolt_cases(&specs);
        v.push(wrap(
            E1::new(
                "bolt",
                &format!("{bound} x {{MatmulBoltCp, MatmulBoltCcCr, MatmulBoltCcDc}} x transport(2); fills: unit pairs, dense+bias, all-(t-1)+bias; 3 encode/decode_outputs inverses per case"),
                cases.into_iter(),
                move |c: &BCase| check_bolt(c, seed),
            )
            .deadline(Duration::from_secs(120)),
        ));
    }
    // ---- conv2d ----
    {
        let q = |n: usize| chain(n, &[50, 50, 50]);
        let mut specs = vec![];
        if !thorough {
            let box6 = conv_shapes(2, 2, 6, 6, 3);
            specs.push((ParamSpec::new(Scheme::BFV, 8, q(8), 1 << 20), box6.clone(), 128, 24));
            specs.push((ParamSpec::new(Scheme::BFV, 16, q(16), 65537), box6.clone(), 32, 16));
            specs.push((ParamSpec::new(Scheme::BFV, 32, q(32), 1 << 20), box6, 0, 0));
            specs.push((ParamSpec::new(Scheme::BGV, 8, q(8), 65537), conv_shapes(2, 2, 4, 4, 2), 16, 0));
        } else {
            let box12 = conv_shapes(2, 2, 12, 12, 3);
            specs.push((ParamSpec::new(Scheme::BFV, 8, q(8), 1 << 20), conv_shapes(2, 2, 8, 8, 3), 256, 48));
            specs.push((ParamSpec::new(Scheme::BFV, 16, q(16), 65537), box12.clone(), 256, 48));
            specs.push((ParamSpec::new(Scheme::BFV, 32, q(32), 1 << 20), box12.clone(), 128, 32));
            specs.push((ParamSpec::new(Scheme::BFV, 64, chain(64, &[50, 50, 50]), 65537), box12, 64, 0));
            specs.push((ParamSpec::new(Scheme::BGV, 8, q(8), 65537), conv_shapes(2, 2, 6, 6, 3), 128, 24));
            specs.push((ParamSpec::new(Scheme::BGV, 16, q(16), 65537), conv_shapes(2, 2, 6, 6, 3), 64, 16));
            // spot checks at the sizes of the repository's unit tests (not part of the exhaustive claim)
            let big = vec![ConvShape { b: 1, ci: 3, co: 5, h: 16, w: 17, kh: 3, kw: 5 }, ConvShape { b: 4, ci: 3, co: 16, h: 32, w: 32, kh: 5, kw: 5 }, ConvShape { b: 1, ci: 1, co: 1, h: 40, w: 2, kh: 2, kw: 2 }];
            specs.push((ParamSpec::new(Scheme::BFV, 64, chain(64, &[50, 50, 50]), 1 << 20), big.clone(), 0, 0));
            specs.push((ParamSpec::new(Scheme::BFV, 4096, chain(4096, &[60, 49, 60]), 1 << 20), big, 0, 0));
        }
        let bound = specs
            .iter()
            .map(|(s, sh, pc, sc)| {
                let l = sh.iter().fold((0, 0, 0, 0, 0), |a, s| (a.0.max(s.b), a.1.max(s.ci), a.2.max(s.h), a.3.max(s.w), a.4.max(s.kh)));
                format!("{} batch<={} c_in,c_out<={} H<={} W<={} k<=min(image,{}) ({} shapes; unit pairs when |x|*|w| <= {pc}, one-sided units when |x|+|w| <= {sc})", s.label(), l.0, l.1, l.2, l.3, l.4, sh.len())
            })
            .collect::<Vec<_>>()
            .join("; ");
        let cases = conv_cases(&specs);
        v.push(wrap(
            E1::new(
                "conv2d",
                &format!("{bound} x objective(3) x {{conv2d, conv2d_reverse}} x transport(2); fills (unit fills with the Direct transport only): unit pairs / one-sided units, dense+bias, all-(t-1)+bias; 4 encode_outputs inverses per (shape, objective[, pack])"),
                cases.into_iter(),
                move |c: &VCase| check_conv(c, seed),
            )
            .deadline(Duration::from_secs(60)),
        ));
    }
    // ---- ckks ----
    {
        let q = |n: usize| chain(n, &[60, 40, 60]);
        let mut specs = vec![];
        if !thorough {
            specs.push((ParamSpec::new(Scheme::CKKS, 8, q(8), 0), 40u32, 3usize, conv_shapes(2, 2, 6, 3, 3)));
            specs.push((ParamSpec::new(Scheme::CKKS, 16, q(16), 0), 40, 3, conv_shapes(1, 2, 5, 5, 2)));
        } else {
            specs.push((ParamSpec::new(Scheme::CKKS, 8, q(8), 0), 40u32, 6usize, conv_shapes(2, 2, 6, 6, 3)));
            specs.push((ParamSpec::new(Scheme::CKKS, 16, q(16), 0), 40, 5, conv_shapes(2, 2, 6, 6, 3)));
            specs.push((ParamSpec::new(Scheme::CKKS, 32, q(32), 0), 40, 4, conv_shapes(2, 2, 8, 8, 3)));
        }
        let bound = specs.iter().map(|(s, ls, b, cv)| format!("{} scale 2^{ls}: matmul (m,r,n) in [1..{b}]^3 x pack(2), {} conv shapes", s.label(), cv.len())).collect::<Vec<_>>().join("; ");
        let cases = ckks_cases(&specs);
        v.push(wrap(
            E1::new(
                "ckks",
                &format!("{bound} x objective(3) x direction(2) x transport(2); pipeline of the unit tests (multiply, pack, rescale, bias, transport); fills dense / +-4 / first unit; error within the a-priori bound"),
                cases.into_iter(),
                move |c: &KCase| check_ckks(c, seed),
            )
            .deadline(Duration::from_secs(60)),
        ));
    }
    // ---- rnsp ----
    {
        // (scheme, N, plain moduli, batch encoding, every residue?)
        let mut sets: Vec<(Scheme, usize, Vec<u64>, bool, bool)> = vec![];
        let b30 = |n: usize, c: usize| primes_1_mod(2 * n as u64, 30, c);
        let b36 = |n: usize, c: usize| primes_1_mod(2 * n as u64, 36, c);
        sets.push((Scheme::BFV, 2, vec![5, 13], true, true));
        sets.push((Scheme::BGV, 2, vec![5, 13], true, true));
        sets.push((Scheme::BFV, 4, vec![17, 41], true, true));
        sets.push((Scheme::BFV, 2, vec![5, 13, 17], true, true));
        sets.push((Scheme::BFV, 4, vec![3, 5, 7], false, true));
        sets.push((Scheme::BFV, 4, vec![16, 9, 25], false, true));
        sets.push((Scheme::BFV, 8, b30(8, 3), true, false));
        sets.push((Scheme::BGV, 8, b30(8, 2), true, false));
        sets.push((Scheme::BFV, 8, b36(8, 2), true, false));
        sets.push((Scheme::BFV, 8, vec![1 << 20, 1_000_003, 999_999_937], false, false));
        if thorough {
            sets.push((Scheme::BGV, 4, vec![17, 41], true, true));
            sets.push((Scheme::BFV, 8, vec![17, 97], true, true));
            sets.push((Scheme::BGV, 2, vec![5, 13, 17], true, true));
            sets.push((Scheme::BFV, 4, vec![17, 41, 73], true, true));
            sets.push((Scheme::BGV, 4, vec![7, 11, 13], false, true));
            sets.push((Scheme::BGV, 8, b30(8, 3), true, false));
            sets.push((Scheme::BFV, 16, b30(16, 3), true, false));
        }
        let mut cases = vec![];
        let mut bound = vec![];
        for (scheme, n, t, batch, all) in sets {
            let p: u128 = if all { t.iter().map(|&x| x as u128).product() } else { 0 };
            let partners: Vec<u8> = if !all || p <= 128 { vec![0] } else if p > 5000 { vec![1, 3] } else { vec![1, 2, 3, 4, 5] };
            bound.push(format!("{scheme:?}/N{n}/t{t:?}/{}/{}", if batch { "batch" } else { "poly" }, if !all { "boundary set, all pairs".to_string() } else if p <= 128 { format!("all {p}^2 pairs") } else { format!("all {p} values x {} partner maps", partners.len()) }));
            for op in R_OPS {
                for &partner in &partners {
                    let mut c = RCase { scheme, n, q: chain(n, &[50, 50, 50]), t: t.clone(), batch, op: op.to_string(), partner, all, part: 0, parts: 1 };
                    let nv = rnsp_values(&c, &BigU::product(&t)).len();
                    let chunks = (if partner == 0 { nv * nv } else { nv } + n - 1) / n;
                    c.parts = (chunks + 63) / 64;
                    for part in 0..c.parts {
                        cases.push(RCase { part, ..c.clone() });
                    }
                }
            }
        }
        v.push(wrap(
            E1::new(
                "rnsp",
                &format!("{} x ops {:?} (new / inplace / destination forms in rotation, pk and symmetric encryption)", bound.join("; "), R_OPS),
                cases.into_iter(),
                move |c: &RCase| check_rnsp(c, seed),
            )
            .deadline(Duration::from_secs(120)),
        ));
    }
    big_sections(cfg, &mut v);
    v
}

// ---------------------------------------------------------------------------------------------
// production-size sections
// ---------------------------------------------------------------------------------------------

/// dimensions around the block-size boundaries 64 / 128 / 256
const BIG_D: [usize; 9] = [63, 64, 65, 127, 128, 129, 200, 256, 300];

fn shapes_label(sh: &[(usize, usize, usize)]) -> String {
    let v: Vec<String> = sh.iter().map(|(m, r, n)| format!("{m}x{r}x{n}")).collect();
    v.join(" ")
}

fn big_sections(cfg: &RunCfg, v: &mut Vec<Box<dyn AnySection>>) {
    let seed = cfg.seed;
    let thorough = cfg.thorough();
    let wrap = |s: Box<dyn AnySection>| -> Box<dyn AnySection> { Box::new(Observed { inner: s }) };
    let q60 = |n: usize| chain(n, &[60, 60, 60]);
    // largest number of one-sided boundary unit fills per case
    let nb_cap: usize = if thorough { 700 } else { 160 };

    // ---- big_cheetah ----
    {
        // (spec, shapes, one-sided units on every index when |x| + |w| <= cap (boundary indices otherwise))
        let mut specs: Vec<(ParamSpec, Vec<(usize, usize, usize)>, usize)> = vec![];
        // input-dimension, output-dimension and batch families: the search puts the long axis into one block while it fits
        let fam = |ds: &[usize], full: bool| -> Vec<(usize, usize, usize)> {
            let mut sh = vec![];
            for &d in ds {
                sh.extend([(1, d, 1), (1, 1, d), (d, 1, 1)]);
                if full {
                    sh.extend([(1, d, 3), (3, d, 1), (3, 1, d), (d, 2, 2)]);
                }
            }
            sh
        };
        if !thorough {
            specs.push((ParamSpec::new(Scheme::BFV, 128, q60(128), 1 << 20), fam(&BIG_D, true), 140));
            specs.push((ParamSpec::new(Scheme::BGV, 256, q60(256), 65537), fam(&[65, 129, 257, 300], false), 0));
            specs.push((ParamSpec::new(Scheme::BFV, 1024, q60(1024), 1 << 20), fam(&[65, 300, 1025], false), 0));
            // dense and all-(t-1) fills only (usize::MAX: no unit fills)
            specs.push((ParamSpec::new(Scheme::BFV, 4096, q60(4096), 1 << 20), vec![(1, 4097, 1), (1, 1, 4097), (4097, 1, 1), (1, 256, 16)], usize::MAX));
        } else {
            specs.push((ParamSpec::new(Scheme::BFV, 128, q60(128), 1 << 20), fam(&BIG_D, true), 2000));
            specs.push((ParamSpec::new(Scheme::BGV, 128, q60(128), 65537), fam(&BIG_D, false), 700));
            specs.push((ParamSpec::new(Scheme::BFV, 256, q60(256), 65537), fam(&[63, 64, 65, 127, 128, 129, 200, 255, 256, 257, 300, 513], true), 2000));
            specs.push((ParamSpec::new(Scheme::BFV, 512, q60(512), 1 << 20), fam(&[65, 129, 257, 511, 512, 513, 600], true), 700));
            specs.push((ParamSpec::new(Scheme::BFV, 1024, q60(1024), 1 << 20), fam(&[63, 64, 65, 127, 128, 129, 255, 256, 257, 300, 511, 512, 513, 1023, 1024, 1025], true), 700));
            specs.push((ParamSpec::new(Scheme::BGV, 1024, q60(1024), 65537), fam(&[65, 129, 257, 513, 1025], false), 0));
            let mut s4 = fam(&[65, 129, 257, 513, 1025, 4095, 4096, 4097], false);
            s4.extend([(1, 256, 16), (2, 300, 10), (8, 100, 8), (16, 200, 16), (1, 768, 64)]);
            specs.push((ParamSpec::new(Scheme::BFV, 4096, q60(4096), 1 << 20), s4, 0));
            specs.push((ParamSpec::new(Scheme::BFV, 8192, q60(8192), 1 << 20), vec![(1, 8193, 1), (1, 1, 8193), (8193, 1, 1), (1, 768, 64), (16, 200, 16)], 0));
        }
        let bound = specs
            .iter()
            .map(|(s, sh, cap)| format!("{} (m,r,n) in {{{}}} ({})", s.label(), shapes_label(sh), if *cap == usize::MAX { "no unit fills, pack_lwe only when r <= 16".to_string() } else { format!("every one-sided unit when m*r + r*n <= {cap}, else the boundary ones when there are <= {nb_cap}, else none") }))
            .collect::<Vec<_>>()
            .join("; ");
        let mut cases = vec![];
        for (spec, shapes, cap) in &specs {
            for &(m, r, n) in shapes {
                for (obj, dir) in [(Obj::CipherPlain, Dir::Forward), (Obj::PlainCipher, Dir::Reverse), (Obj::CpAddPc, Dir::Sum)] {
                    for pack in [false, true] {
                        // the dense-only sets: a long inner dimension with output packing is hundreds of ciphertexts and no new block size
                        if pack && r > 16 && *cap == usize::MAX {
                            continue;
                        }
                        for transport in [Transport::Direct, Transport::Wire] {
                            let nb = side_indices(&[m, r], 1).len() + side_indices(&[r, n], 1).len();
                            // with output packing the input block is at most 16 wide: a long inner dimension means many ciphertexts, no new block size
                            let side = if transport == Transport::Wire || (pack && r > 16) || *cap == usize::MAX { 0 } else if m * r + r * n <= *cap { 2 } else if nb <= nb_cap { 1 } else { 0 };
                            cases.push(Big { c: MCase { spec: spec.clone(), m, r, n, obj, pack, dir, transport, units: false }, side });
                        }
                    }
                }
            }
        }
        v.push(wrap(
            E1::new(
                "big_cheetah",
                &format!("{bound} x (objective, direction) in {{(CipherPlain, matmul), (PlainCipher, matmul_reverse), (CpAddPc, sum of both)}} x pack_lwe(2) x transport(2); fills: dense+bias, all-(t-1)+bias, with the Direct transport (and, with pack_lwe, r <= 16) every one-sided unit (unit input x dense weights, dense inputs x unit weight) at all indices / at the boundary indices (0,1,2,p-1,p,p+1 for p = 8..8192,len-2,len-1 per axis); 4 encode_outputs inverses per (shape, objective, pack)"),
                cases.into_iter(),
                move |c: &Big<MCase>| check_big_cheetah(c, seed),
            )
            .batch(2)
            .deadline(Duration::from_secs(600)),
        ));
    }
    // ---- big_bolt ----
    {
        // per helper the shape families that drive its own gap g = ceil_two_power(M) through every power of two (rotate-and-add
        // depth log2(N/g) = log2(N) .. 1) with operands of s-1, s, s+1 packed columns, and the (1,d,k) families
        let depth_shapes = |kind: Bolt, n: usize, gaps: &[usize]| -> Vec<(usize, usize, usize)> {
            let mut sh = vec![];
            for &g in gaps {
                let s = n / g;
                let ms: Vec<usize> = if g >= 4 { vec![g / 2 + 1, g] } else { vec![g] };
                for mm in ms {
                    match kind {
                        Bolt::Cp => sh.extend([(mm, s + 1, 1), (mm, 2, s + 1), (mm, s, s)]),
                        Bolt::CcCr => sh.extend([(mm, s + 1, 1), (1, s, mm), (mm, s.min(65).max(2) - 1, mm)]),
                        Bolt::CcDc => sh.extend([(mm, 1, s + 1), (1, mm, s), (mm, mm, 2)]),
                    }
                }
            }
            sh
        };
        let pow2 = |lo: usize, hi: usize| -> Vec<usize> { (0..14).map(|e| 1usize << e).filter(|&g| g >= lo && g <= hi).collect() };
        let dfam = |ds: &[usize], full: bool| -> Vec<(usize, usize, usize)> {
            let mut sh = vec![];
            for &d in ds {
                sh.push((1, d, 1));
                if full {
                    sh.extend([(1, d, 3), (3, d, 1)]);
                }
            }
            sh
        };
        // (spec, kind, shapes, side)
        let mut sets: Vec<(ParamSpec, Bolt, Vec<(usize, usize, usize)>, u8)> = vec![];
        let kinds = [Bolt::Cp, Bolt::CcCr, Bolt::CcDc];
        let q4 = |n: usize| chain(n, &[60, 60, 60, 60]);
        if !thorough {
            for kind in kinds {
                let p128 = ParamSpec::new(Scheme::BFV, 128, q60(128), 257);
                sets.push((p128.clone(), kind, depth_shapes(kind, 128, &pow2(1, 4)), 3));
                sets.push((p128.clone(), kind, depth_shapes(kind, 128, &pow2(8, 64)), 0));
                // CcDc packs the inner dimension diagonally: 2*min(d, N/2) - 1 products per fill
                if kind == Bolt::CcDc {
                    sets.push((p128.clone(), kind, vec![(1, 65, 1)], 3));
                    sets.push((p128.clone(), kind, vec![(1, 63, 1), (1, 64, 1), (1, 65, 3), (3, 65, 1), (1, 129, 1), (1, 129, 3), (3, 129, 1)], 0));
                } else {
                    sets.push((p128.clone(), kind, dfam(&[63, 64, 65, 129], true), 3));
                }
                sets.push((p128, kind, vec![(65, 2, 2), (2, 65, 2), (2, 2, 65)], 0));
                sets.push((ParamSpec::new(Scheme::BGV, 256, q60(256), 65537), kind, dfam(&[65, 129], false), 0));
            }
            let p1k = ParamSpec::new(Scheme::BFV, 1024, q4(1024), 65537);
            sets.push((p1k.clone(), Bolt::Cp, vec![(1, 65, 1), (2, 513, 1), (4, 257, 3)], 0));
            sets.push((p1k.clone(), Bolt::CcCr, vec![(1, 65, 1), (1, 1025, 1)], 3));
            sets.push((p1k.clone(), Bolt::CcCr, vec![(2, 513, 1), (3, 129, 2)], 0));
            sets.push((p1k.clone(), Bolt::CcDc, vec![(1, 1, 1025)], 3));
            sets.push((p1k, Bolt::CcDc, vec![(2, 2, 513), (3, 4, 257)], 0));
            let p4k = ParamSpec::new(Scheme::BFV, 4096, q4(4096), 65537);
            sets.push((p4k.clone(), Bolt::Cp, vec![(64, 65, 3)], 0));
            sets.push((p4k.clone(), Bolt::CcCr, vec![(1, 65, 1), (1, 4097, 1)], 0));
            sets.push((p4k, Bolt::CcDc, vec![(1, 1, 4097)], 0));
        } else {
            for kind in kinds {
                let p128 = ParamSpec::new(Scheme::BFV, 128, q60(128), 257);
                sets.push((p128.clone(), kind, depth_shapes(kind, 128, &pow2(1, 8)), 1));
                sets.push((p128.clone(), kind, depth_shapes(kind, 128, &pow2(16, 64)), 3));
                sets.push((p128.clone(), kind, dfam(&BIG_D, true), 3));
                sets.push((p128, kind, vec![(65, 2, 2), (2, 65, 2), (2, 2, 65), (129, 3, 1), (1, 3, 129)], 3));
                let p256 = ParamSpec::new(Scheme::BGV, 256, q60(256), 65537);
                sets.push((p256.clone(), kind, depth_shapes(kind, 256, &pow2(1, 128)), 0));
                sets.push((p256.clone(), kind, dfam(&[65, 129, 257], true), 3));
                sets.push((p256, kind, vec![(129, 2, 2), (2, 129, 2), (2, 2, 129)], 0));
                let p1k = ParamSpec::new(Scheme::BFV, 1024, q4(1024), 65537);
                sets.push((p1k.clone(), kind, depth_shapes(kind, 1024, &pow2(1, 512)), 0));
                // CcDc packs the inner dimension diagonally: 2*min(d, N/2) - 1 products per fill
                if kind == Bolt::CcDc {
                    sets.push((p1k.clone(), kind, dfam(&[65, 129], false), 3));
                    sets.push((p1k.clone(), kind, dfam(&[300, 1025], false), 0));
                } else {
                    sets.push((p1k.clone(), kind, dfam(&[65, 129, 300, 1025], false), 3));
                }
                sets.push((p1k, kind, vec![(513, 2, 1), (1, 2, 513), (2, 513, 1)], 0));
            }
            let p4k = ParamSpec::new(Scheme::BFV, 4096, q4(4096), 65537);
            for kind in kinds {
                // Cp with gap g multiplies N/g plaintexts per pair of operand / result ciphertexts: gaps 1, 2 stay at N <= 1024
                sets.push((p4k.clone(), kind, depth_shapes(kind, 4096, &pow2(if kind == Bolt::Cp { 4 } else { 1 }, 16)), 0));
            }
            sets.push((p4k.clone(), Bolt::Cp, vec![(16, 257, 16), (1, 256, 16), (2, 300, 10), (8, 100, 8), (16, 200, 16), (1, 768, 64), (64, 65, 3)], 0));
            sets.push((p4k.clone(), Bolt::CcCr, vec![(1, 65, 1), (1, 4097, 1), (2, 300, 2), (8, 100, 8), (16, 257, 16), (64, 65, 3)], 0));
            sets.push((p4k, Bolt::CcDc, vec![(1, 1, 4097), (2, 2, 2049), (8, 8, 100), (16, 16, 257), (3, 64, 65), (8, 100, 8)], 0));
            let p8k = ParamSpec::new(Scheme::BFV, 8192, q4(8192), 65537);
            sets.push((p8k.clone(), Bolt::Cp, vec![(64, 129, 3)], 0));
            sets.push((p8k.clone(), Bolt::CcCr, vec![(1, 65, 1), (1, 8193, 1), (8, 100, 8)], 0));
            sets.push((p8k, Bolt::CcDc, vec![(1, 1, 8193), (8, 8, 100)], 0));
        }
        let bound = sets.iter().map(|(s, k, sh, side)| format!("{} {k:?} (m,r,n) in {{{}}} ({})", s.label(), shapes_label(sh), if *side == 0 { "dense and all-(t-1) fills" } else { "+ one-sided units at the coarse boundary indices" })).collect::<Vec<_>>().join("; ");
        let mut cases = vec![];
        for (spec, kind, shapes, side) in &sets {
            for &(m, r, n) in shapes {
                for transport in [Transport::Direct, Transport::Wire] {
                    let side = if transport == Transport::Wire { 0 } else { *side };
                    cases.push(Big { c: BCase { spec: spec.clone(), kind: *kind, m, r, n, transport, units: false }, side });
                }
            }
        }
        v.push(wrap(
            E1::new(
                "big_bolt",
                &format!("{bound} x transport(2); fills: dense+bias, all-(t-1)+bias, one-sided units (unit input x dense weights, dense inputs x unit weight) at the coarse boundary indices (0, p-1, p, p+1 for p = 64..8192, len-1 per axis) with the Direct transport where stated; 3 encode/decode_outputs inverses per case"),
                cases.into_iter(),
                move |c: &Big<BCase>| check_big_bolt(c, seed),
            )
            .batch(1)
            .deadline(Duration::from_secs(900)),
        ));
    }
    // ---- big_conv2d ----
    {
        let cs = |b, ci, co, h, w, kh, kw| ConvShape { b, ci, co, h, w, kh, kw };
        // every axis long in turn: height, width, input channels, output channels, batch
        let fam = |ds: &[usize], full: bool| -> Vec<ConvShape> {
            let mut sh = vec![];
            for &d in ds {
                sh.extend([cs(1, 1, 1, d, 2, 2, 2), cs(1, 1, 1, 2, d, 2, 2), cs(1, d, 1, 1, 1, 1, 1), cs(1, 1, d, 1, 1, 1, 1), cs(d, 1, 1, 1, 1, 1, 1)]);
                if full {
                    sh.extend([cs(1, 1, 1, d, 3, 3, 1), cs(1, 1, 1, 3, d, 2, 3), cs(1, d, 2, 3, 3, 2, 2), cs(2, 2, d, 2, 3, 2, 2), cs(d, 1, 2, 3, 2, 2, 1)]);
                }
            }
            sh
        };
        let real = vec![cs(1, 3, 5, 16, 17, 3, 5), cs(4, 3, 16, 32, 32, 5, 5), cs(2, 64, 65, 9, 9, 3, 3), cs(1, 1, 1, 70, 70, 5, 3)];
        // (spec, shapes, every one-sided unit when |x| + |w| <= cap)
        let mut specs: Vec<(ParamSpec, Vec<ConvShape>, usize)> = vec![];
        if !thorough {
            specs.push((ParamSpec::new(Scheme::BFV, 128, q60(128), 1 << 20), fam(&[63, 64, 65, 127, 129, 300], true), 140));
            specs.push((ParamSpec::new(Scheme::BGV, 256, q60(256), 65537), fam(&[65, 128, 129, 257], false), 0));
            let mut s1k = fam(&[65, 513, 1025], false);
            s1k.extend(real[..2].iter().cloned());
            specs.push((ParamSpec::new(Scheme::BFV, 1024, q60(1024), 1 << 20), s1k, 0));
            // dense and all-(t-1) fills only (usize::MAX: no unit fills)
            let mut s4k = fam(&[4097], false);
            s4k.push(real[1]);
            specs.push((ParamSpec::new(Scheme::BFV, 4096, q60(4096), 1 << 20), s4k, usize::MAX));
        } else {
            specs.push((ParamSpec::new(Scheme::BFV, 128, q60(128), 1 << 20), fam(&BIG_D, true), 2000));
            specs.push((ParamSpec::new(Scheme::BGV, 128, q60(128), 65537), fam(&BIG_D, false), 700));
            specs.push((ParamSpec::new(Scheme::BFV, 256, q60(256), 65537), fam(&[63, 64, 65, 127, 128, 129, 200, 255, 256, 257, 300, 513], true), 2000));
            let mut s1k = fam(&[63, 64, 65, 127, 128, 129, 255, 256, 257, 511, 512, 513, 1023, 1024, 1025], true);
            s1k.extend(real.iter().cloned());
            specs.push((ParamSpec::new(Scheme::BFV, 1024, q60(1024), 1 << 20), s1k, 700));
            let mut s4k = fam(&[65, 129, 257, 513, 1025, 2049, 4097], false);
            s4k.extend(real.iter().cloned());
            specs.push((ParamSpec::new(Scheme::BFV, 4096, q60(4096), 1 << 20), s4k, 0));
            let mut s8k = fam(&[4097, 8193], false);
            s8k.extend(real[1..3].iter().cloned());
            specs.push((ParamSpec::new(Scheme::BFV, 8192, q60(8192), 1 << 20), s8k, 0));
        }
        let bound = specs
            .iter()
            .map(|(s, sh, cap)| {
                let l: Vec<String> = sh.iter().map(|s| format!("{}.{}.{}.{}x{}.{}x{}", s.b, s.ci, s.co, s.h, s.w, s.kh, s.kw)).collect();
                format!("{} (batch.c_in.c_out.HxW.k_hxk_w) in {{{}}} ({})", s.label(), l.join(" "), if *cap == usize::MAX { "no unit fills".to_string() } else { format!("every one-sided unit when |x| + |w| <= {cap}, else the boundary ones when there are <= {nb_cap}, else none") })
            })
            .collect::<Vec<_>>()
            .join("; ");
        let mut cases = vec![];
        for (spec, shapes, cap) in &specs {
            for s in shapes {
                for (obj, dir) in [(Obj::CipherPlain, Dir::Forward), (Obj::PlainCipher, Dir::Reverse), (Obj::CpAddPc, Dir::Forward), (Obj::CpAddPc, Dir::Reverse)] {
                    for transport in [Transport::Direct, Transport::Wire] {
                        let nb = side_indices(&[s.b, s.ci, s.h, s.w], 1).len() + side_indices(&[s.co, s.ci, s.kh, s.kw], 1).len();
                        let units = if transport == Transport::Wire || *cap == usize::MAX { 0 } else if s.in_len() + s.w_len() <= *cap { 1 } else if nb <= nb_cap { 3 } else { 0 };
                        cases.push(VCase { spec: spec.clone(), s: *s, obj, dir, transport, units });
                    }
                }
            }
        }
        v.push(wrap(
            E1::new(
                "big_conv2d",
                &format!("{bound} x (objective, direction) in {{(CipherPlain, conv2d), (PlainCipher, conv2d_reverse), (CpAddPc, both)}} x transport(2); fills: dense+bias, all-(t-1)+bias, with the Direct transport every one-sided unit at all indices / at the boundary indices of every axis; 4 encode_outputs inverses per (shape, objective)"),
                cases.into_iter(),
                move |c: &VCase| check_big_conv(c, seed),
            )
            .batch(2)
            .deadline(Duration::from_secs(600)),
        ));
    }
    // ---- big_ckks ----
    {
        let cs = |b, ci, co, h, w, kh, kw| ConvShape { b, ci, co, h, w, kh, kw };
        let qk = |n: usize| chain(n, &[60, 60, 55, 60]);
        let mfam = |ds: &[usize]| -> Vec<(usize, usize, usize)> { ds.iter().flat_map(|&d| [(1, d, 1), (1, 1, d), (d, 1, 1), (3, d, 2)]).collect() };
        let cfam = |ds: &[usize]| -> Vec<ConvShape> { ds.iter().flat_map(|&d| [cs(1, 1, 1, d, 2, 2, 2), cs(1, 1, 1, 2, d, 2, 2), cs(1, d, 1, 1, 1, 1, 1), cs(1, 1, d, 1, 1, 1, 1), cs(d, 1, 1, 1, 1, 1, 1)]).collect() };
        let mut specs: Vec<(ParamSpec, Vec<(usize, usize, usize)>, Vec<ConvShape>)> = vec![];
        if !thorough {
            specs.push((ParamSpec::new(Scheme::CKKS, 128, qk(128), 0), mfam(&[63, 64, 65, 129, 300]), cfam(&[64, 65, 129])));
            specs.push((ParamSpec::new(Scheme::CKKS, 1024, qk(1024), 0), mfam(&[65, 1025]), cfam(&[65, 1025])));
        } else {
            specs.push((ParamSpec::new(Scheme::CKKS, 128, qk(128), 0), mfam(&BIG_D), cfam(&BIG_D)));
            specs.push((ParamSpec::new(Scheme::CKKS, 256, qk(256), 0), mfam(&[65, 129, 255, 256, 257, 513]), cfam(&[65, 129, 257, 513])));
            specs.push((ParamSpec::new(Scheme::CKKS, 1024, qk(1024), 0), mfam(&[63, 64, 65, 127, 128, 129, 257, 513, 1023, 1024, 1025]), cfam(&[65, 129, 257, 513, 1025])));
            let mut m4 = mfam(&[65, 129, 1025, 4097]);
            m4.extend([(1, 256, 16), (2, 300, 10), (16, 200, 16), (1, 768, 64)]);
            let mut c4 = cfam(&[65, 1025, 4097]);
            c4.push(cs(4, 3, 16, 32, 32, 5, 5));
            specs.push((ParamSpec::new(Scheme::CKKS, 4096, qk(4096), 0), m4, c4));
        }
        let bound = specs
            .iter()
            .map(|(s, ms, cv)| {
                let l: Vec<String> = cv.iter().map(|s| format!("{}.{}.{}.{}x{}.{}x{}", s.b, s.ci, s.co, s.h, s.w, s.kh, s.kw)).collect();
                format!("{} scale 2^55: matmul (m,r,n) in {{{}}} x pack(2), conv shapes {{{}}}", s.label(), shapes_label(ms), l.join(" "))
            })
            .collect::<Vec<_>>()
            .join("; ");
        let mut cases = vec![];
        for (spec, ms, cv) in &specs {
            for &(m, r, n) in ms {
                for (obj, dir) in [(Obj::CipherPlain, Dir::Forward), (Obj::PlainCipher, Dir::Reverse), (Obj::CpAddPc, Dir::Forward)] {
                    for pack in [false, true] {
                        for transport in [Transport::Direct, Transport::Wire] {
                            cases.push(KCase { spec: spec.clone(), log_scale: 55, shape: KShape::Matmul { m, r, n, pack }, obj, dir, transport });
                        }
                    }
                }
            }
            for s in cv {
                for (obj, dir) in [(Obj::CipherPlain, Dir::Forward), (Obj::PlainCipher, Dir::Reverse), (Obj::CpAddPc, Dir::Forward)] {
                    for transport in [Transport::Direct, Transport::Wire] {
                        cases.push(KCase { spec: spec.clone(), log_scale: 55, shape: KShape::Conv(*s), obj, dir, transport });
                    }
                }
            }
        }
        v.push(wrap(
            E1::new(
                "big_ckks",
                &format!("{bound} x (objective, direction) in {{(CipherPlain, forward), (PlainCipher, reverse), (CpAddPc, forward)}} x transport(2); pipeline of the unit tests (multiply, pack, rescale, bias, transport); fills dense / +-4 / first unit / last unit on either side / comb of the boundary indices on either side; error within the a-priori bound"),
                cases.into_iter(),
                move |c: &KCase| check_big_ckks(c, seed),
            )
            .batch(2)
            .deadline(Duration::from_secs(600)),
        ));
    }
    // ---- big_rnsp ----
    {
        let mut cases = vec![];
        let mut bound = vec![];
        // many plain moduli at a tiny degree (boundary value set, partner maps)
        let ks: &[usize] = if thorough { &[4, 5, 7, 8, 9, 15, 16, 17, 18] } else { &[4, 8, 9, 16, 17] };
        for &k in ks {
            for (scheme, n, batch) in [(Scheme::BFV, 8usize, true), (Scheme::BGV, 4, false)] {
                if !thorough && scheme == Scheme::BGV && k != 9 && k != 17 {
                    continue;
                }
                let t = primes_1_mod(2 * n as u64, 30, k);
                let partners: &[u8] = if thorough { &[1, 2, 3, 4, 5] } else { &[1, 3] };
                bound.push(format!("{scheme:?}/N{n}/{k} plain moduli of 30 bits/{}/boundary value set x {} partner maps", if batch { "batch" } else { "poly" }, partners.len()));
                for op in R_OPS {
                    for &partner in partners {
                        cases.push(RXCase::Moduli(RCase { scheme, n, q: chain(n, &[50, 50, 50]), t: t.clone(), batch, op: op.to_string(), partner, all: false, part: 0, parts: 1 }));
                    }
                }
            }
        }
        // large degrees
        let mut sets: Vec<(Scheme, usize, usize, bool)> = vec![(Scheme::BFV, 128, 2, true), (Scheme::BFV, 128, 3, false), (Scheme::BGV, 256, 2, true), (Scheme::BFV, 1024, 2, true)];
        if thorough {
            sets.extend([(Scheme::BGV, 128, 2, false), (Scheme::BFV, 256, 3, false), (Scheme::BFV, 512, 3, true), (Scheme::BGV, 1024, 3, true), (Scheme::BFV, 4096, 2, true), (Scheme::BFV, 8192, 2, true)]);
        }
        for (scheme, n, k, batch) in sets {
            let t = if batch { primes_1_mod(2 * n as u64, 30, k) } else { vec![1 << 20, 1_000_003, 999_999_937][..k].to_vec() };
            bound.push(format!("{scheme:?}/N{n}/t{t:?}/{}/dense vector pair, its truncations to every boundary length, every boundary unit slot on either side", if batch { "batch" } else { "poly" }));
            for op in R_OPS {
                cases.push(RXCase::Degree(RBCase { scheme, n, q: q60(n), t: t.clone(), batch, op: op.to_string() }));
            }
        }
        v.push(wrap(
            E1::new(
                "big_rnsp",
                &format!("{} x ops {:?} (new / inplace / destination forms in rotation, pk and symmetric encryption); boundary lengths / slots: 0,1,2,p-1,p,p+1 for p = 8..8192,N-2,N-1 (polynomial products: up to 65)", bound.join("; "), R_OPS),
                cases.into_iter(),
                move |c: &RXCase| check_big_rnsp(c, seed),
            )
            .batch(1)
            .deadline(Duration::from_secs(600)),
        ));
    }
}
