//! C20 — homomorphic matrix products and convolutions equal the plaintext ones, all shapes.
//!
//! E1 sections (every case runs the real helpers end to end and compares the decrypted result
//! with a u128 reference product / valid cross-correlation modulo t):
//!  * `cheetah`   coefficient-packing `MatmulHelper`: all (m,r,n) of a box x objective x pack_lwe x
//!                {matmul, matmul_reverse, sum of both} x transport x operand fills
//!  * `bolt`      `MatmulBoltCp` / `MatmulBoltCcCr` / `MatmulBoltCcDc`: all (m,r,n) of a box (+ values that
//!                force the m > N/2 splitting) x transport x operand fills
//!  * `conv2d`    `Conv2dHelper`: all (batch, c_in, c_out, H, W, k_h, k_w) of a box x objective x
//!                {conv2d, conv2d_reverse} x transport x operand fills
//!  * `ckks`      CKKS variants of the Cheetah and convolution helpers on a sub-box, a-priori error bound
//!  * `rnsp`      RNS-plaintext wrapper: values modulo the product of 2-3 plain moduli, every operation
//!                against big-integer arithmetic
//! `encode_outputs` / `decrypt_outputs` (resp. `decode_outputs`) inverse is checked once per case and the
//! `encode_outputs` layout is also checked against the product layout (bias added with `add_plain_inplace`).

use crate::engine::*;
use crate::he::*;
use crate::refmodel::bigu::*;
use heathcliff::app::conv2d::Conv2dHelper;
use heathcliff::app::matmul::bolt_cc_cr::MatmulBoltCcCr;
use heathcliff::app::matmul::bolt_cc_dc::MatmulBoltCcDc;
use heathcliff::app::matmul::bolt_cp::MatmulBoltCp;
use heathcliff::app::matmul::cheetah::{MatmulHelper, MatmulHelperObjective};
use heathcliff::app::matmul::{Cipher2d, Plain2d};
use heathcliff::app::rns_plain::*;
use heathcliff::{BatchEncoder, CKKSEncoder, Ciphertext, ExpandSeed, GaloisKeys, RelinKeys, SerializableWithHeContext};
use serde::{Deserialize, Serialize};
use std::cell::{Cell, RefCell};
use std::collections::BTreeMap;
use std::rc::Rc;
use std::sync::{Arc, Mutex, OnceLock};
use std::time::Duration;

pub fn describe(rep: &Report) {
    rep.set_rule(
        "case = (explicit parameter set, helper, shape, objective, pack_lwe, direction, transport); each case builds the helper for \
         that shape and loops over the operand fills: every pair of unit operands (E_a, E_b) when the pair count is <= the stated cap \
         (bilinearity => the whole value space up to overflow), one dense fill derived from the seed (with a dense bias added through \
         encode_outputs + add_plain_inplace), and the all-(t-1) fill; steps = pipelines compared with the reference. non-trivial = an \
         operand or the result needs more than one ciphertext (the shape is cut into blocks).",
    );
    rep.assume("u128 schoolbook matrix product / valid cross-correlation modulo t is the reference; BigU schoolbook arithmetic for the RNS-plaintext wrapper");
    rep.assume("parameter sets are chosen with >= 20 bits of noise head-room for the deepest pipeline (small t against q of 2 x 50..60 bits at the data level), so every result must be exact; a mismatch is judged, never excused by noise");
    rep.assume("a panic raised by the helper's constructor with an explicit assertion message is a refusal of the shape (skipped, message recorded); any panic after the constructor accepted the shape is a violation");
    rep.assume("convolution shapes whose kernel has more coefficients than the ring (k_h*k_w > N) admit no blocking at all and are outside the domain (skipped; the helper does not refuse them explicitly, it divides by zero later)");
    rep.assume("pack_lwe outputs travel through the full Cipher2d serializer (as in the repository's tests): output_terms() describes the un-packed layout only");
    rep.assume("CKKS: |values| <= 4, scale 2^40, bound = 4*terms*N*4*(21(2N+1)+N+2)/scale + 2^-30 (fresh-noise and rounding calculus of DESIGN.md section 5)");
    rep.assume("large N (>= 64, the shapes of the repository's unit tests at N = 4096/8192) is not part of the exhaustive claim");
}

// ---------------------------------------------------------------------------------------------
// notes collected during a section (distinct refusal messages), published as observations
// ---------------------------------------------------------------------------------------------

fn notes() -> &'static Mutex<BTreeMap<String, u64>> {
    static N: OnceLock<Mutex<BTreeMap<String, u64>>> = OnceLock::new();
    N.get_or_init(|| Mutex::new(BTreeMap::new()))
}
fn note(s: String) {
    let mut n = notes().lock().unwrap();
    if n.len() < 150 || n.contains_key(&s) {
        *n.entry(s).or_insert(0) += 1;
    }
}

struct Observed {
    inner: Box<dyn AnySection>,
}
impl AnySection for Observed {
    fn name(&self) -> String {
        self.inner.name()
    }
    fn run(self: Box<Self>, rep: &Arc<Report>) {
        let name = self.inner.name();
        self.inner.run(rep);
        let n = notes().lock().unwrap();
        for (k, v) in n.iter().filter(|(k, _)| k.starts_with(&format!("{name}:"))) {
            rep.observe(format!("{k} ({v} cases)"));
        }
    }
    fn replay(&self, case: &serde_json::Value) -> Result<CaseOut, String> {
        self.inner.replay(case)
    }
}

// ---------------------------------------------------------------------------------------------
// kits (context + keys), cached per thread, built under an environment that depends on the
// parameter set only (so a cached kit is identical to a freshly built one)
// ---------------------------------------------------------------------------------------------

#[derive(Clone, Copy, PartialEq, Eq, Debug, Hash)]
enum Keys {
    None,
    Auto,
    GaloisRelin,
}

struct KitX {
    kit: Kit,
    be: Option<BatchEncoder>,
    ce: Option<CKKSEncoder>,
    auto: Option<GaloisKeys>,
    galois: Option<GaloisKeys>,
    relin: Option<RelinKeys>,
}

thread_local! {
    static KITS: RefCell<Vec<(u64, Rc<KitX>)>> = const { RefCell::new(Vec::new()) };
}

fn kitx(spec: &ParamSpec, keys: Keys, seed: u64) -> Result<Rc<KitX>, String> {
    let tag = h64(&("c20-kit", spec, keys));
    if let Some(k) = KITS.with(|c| c.borrow().iter().find(|(t, _)| *t == tag).map(|(_, k)| k.clone())) {
        return Ok(k);
    }
    env_real(seed, tag);
    let built = guard(|| -> Result<KitX, String> {
        let kit = Kit::new(spec)?;
        let (be, ce) = if spec.scheme == Scheme::CKKS { (None, Some(CKKSEncoder::new(kit.ctx.clone()))) } else { (Some(BatchEncoder::new(kit.ctx.clone())), None) };
        let auto = if keys == Keys::Auto { Some(kit.keygen.create_automorphism_keys(false)) } else { None };
        let (galois, relin) = if keys == Keys::GaloisRelin { (Some(kit.keygen.create_galois_keys(false)), Some(kit.keygen.create_relin_keys(false))) } else { (None, None) };
        Ok(KitX { kit, be, ce, auto, galois, relin })
    });
    let k = match built {
        Ok(Ok(k)) => Rc::new(k),
        Ok(Err(e)) => return Err(e),
        Err(p) => return Err(format!("context/key construction panicked: {p}")),
    };
    KITS.with(|c| {
        let mut c = c.borrow_mut();
        if c.len() >= 6 {
            c.remove(0);
        }
        c.push((tag, k.clone()));
    });
    Ok(k)
}

// ---------------------------------------------------------------------------------------------
// common enums and small helpers
// ---------------------------------------------------------------------------------------------

#[derive(Serialize, Deserialize, Clone, Copy, Debug, PartialEq, Eq, Hash)]
pub enum Obj {
    CipherPlain,
    PlainCipher,
    CpAddPc,
}
impl Obj {
    fn all() -> [Obj; 3] {
        [Obj::CipherPlain, Obj::PlainCipher, Obj::CpAddPc]
    }
    fn to(self) -> MatmulHelperObjective {
        match self {
            Obj::CipherPlain => MatmulHelperObjective::CipherPlain,
            Obj::PlainCipher => MatmulHelperObjective::PlainCipher,
            Obj::CpAddPc => MatmulHelperObjective::CpAddPc,
        }
    }
}

#[derive(Serialize, Deserialize, Clone, Copy, Debug, PartialEq, Eq, Hash)]
pub enum Dir {
    /// `[y] = [x] * w`
    Forward,
    /// `[y] = x * [w]`
    Reverse,
    /// `[y] = [x1] * w0 + x0 * [w1]` (only enumerated with the CpAddPc objective)
    Sum,
}

#[derive(Serialize, Deserialize, Clone, Copy, Debug, PartialEq, Eq, Hash)]
pub enum Transport {
    /// public-key encryption of the inputs, result decrypted directly
    Direct,
    /// symmetric encryption + expand_seed + full serializer round trip of the inputs;
    /// result through serialize_terms(output_terms) (full serializer when pack_lwe / Bolt)
    Wire,
}

fn dense(seed: u64, tag: u64, len: usize, t: u64) -> Vec<u64> {
    (0..len).map(|i| h64(&(seed, tag, i as u64)) % t).collect()
}
fn unit(len: usize, at: usize, v: u64) -> Vec<u64> {
    let mut x = vec![0u64; len];
    x[at] = v;
    x
}

fn matmul_ref(x: &[u64], w: &[u64], m: usize, r: usize, n: usize, t: u64) -> Vec<u64> {
    let mut y = vec![0u64; m * n];
    for i in 0..m {
        for j in 0..n {
            let mut s: u128 = 0;
            for k in 0..r {
                s = (s + (x[i * r + k] as u128 * w[k * n + j] as u128) % t as u128) % t as u128;
            }
            y[i * n + j] = s as u64;
        }
    }
    y
}
fn vadd(a: &[u64], b: &[u64], t: u64) -> Vec<u64> {
    a.iter().zip(b).map(|(&x, &y)| ((x as u128 + y as u128) % t as u128) as u64).collect()
}

/// explicit refusal (assertion with or without message, bracketed library error) as opposed to a crash
fn is_explicit_refusal(p: &str) -> bool {
    let crash = ["index out of bounds", "attempt to", "out of range for slice", "called `Option::unwrap()`", "called `Result::unwrap()`", "slice index", "overflow", "capacity"];
    !crash.iter().any(|c| p.contains(c)) && (p.contains("assertion") || p.starts_with('[') || p.contains("must"))
}

struct SoftErr {
    stage: &'static str,
    msg: String,
}
fn soft<T>(stage: &'static str, r: std::io::Result<T>) -> Result<T, SoftErr> {
    r.map_err(|e| SoftErr { stage, msg: format!("io error: {e}") })
}

fn encrypt2d(kx: &KitX, p: &Plain2d, wire: bool, stage: &Cell<&'static str>) -> Result<Cipher2d, SoftErr> {
    let ctx = &kx.kit.ctx;
    if !wire {
        stage.set("encrypt");
        Ok(p.encrypt(&kx.kit.enc))
    } else {
        stage.set("encrypt_symmetric");
        let c = p.encrypt_symmetric(&kx.kit.enc).expand_seed(ctx);
        stage.set("serialize_inputs");
        let mut buf = vec![];
        let nw = soft("serialize_inputs", c.serialize(ctx, &mut buf))?;
        if nw != buf.len() || buf.len() != c.serialized_size(ctx) {
            return Err(SoftErr { stage: "serialize_inputs", msg: format!("returned {nw}, wrote {}, serialized_size {}", buf.len(), c.serialized_size(ctx)) });
        }
        soft("deserialize_inputs", Cipher2d::deserialize(ctx, &mut buf.as_slice()))
    }
}

/// result transport: `terms` = Some(..) -> serialize_terms round trip, None -> full serializer
fn transport2d(kx: &KitX, y: Cipher2d, terms: Option<&[usize]>, stage: &Cell<&'static str>) -> Result<Cipher2d, SoftErr> {
    let ctx = &kx.kit.ctx;
    let mut buf = vec![];
    match terms {
        Some(t) => {
            stage.set("serialize_terms");
            let nw = soft("serialize_terms", y.serialize_terms(ctx, t, &mut buf))?;
            let sz = y.serialized_terms_size(ctx, t.len());
            if nw != buf.len() || buf.len() != sz {
                return Err(SoftErr { stage: "serialized_terms_size", msg: format!("returned {nw}, wrote {}, serialized_terms_size {sz}", buf.len()) });
            }
            stage.set("deserialize_terms");
            soft("deserialize_terms", Cipher2d::deserialize_terms(ctx, t, &mut buf.as_slice()))
        }
        None => {
            stage.set("serialize_outputs");
            let nw = soft("serialize_outputs", y.serialize(ctx, &mut buf))?;
            if nw != buf.len() || buf.len() != y.serialized_size(ctx) {
                return Err(SoftErr { stage: "serialized_size", msg: format!("returned {nw}, wrote {}, serialized_size {}", buf.len(), y.serialized_size(ctx)) });
            }
            stage.set("deserialize_outputs");
            soft("deserialize_outputs", Cipher2d::deserialize(ctx, &mut buf.as_slice()))
        }
    }
}

fn dims_p(p: &Plain2d) -> (usize, usize) {
    (p.data.len(), p.data.first().map(|d| d.len()).unwrap_or(0))
}
fn dims_c(c: &Cipher2d) -> (usize, usize) {
    (c.data.len(), c.data.first().map(|d| d.len()).unwrap_or(0))
}

fn short(v: &[u64]) -> String {
    if v.len() <= 48 {
        format!("{v:?}")
    } else {
        format!("{:?}…({} values)", &v[..48], v.len())
    }
}

/// outcome of running all fills of a case
struct Tally {
    steps: u64,
    shape: u64,
    multi: bool,
}

// ---------------------------------------------------------------------------------------------
// Cheetah MatmulHelper (BFV / BGV)
// ---------------------------------------------------------------------------------------------

#[derive(Serialize, Deserialize, Clone, Debug)]
pub struct MCase {
    pub spec: ParamSpec,
    pub m: usize,
    pub r: usize,
    pub n: usize,
    pub obj: Obj,
    pub pack: bool,
    pub dir: Dir,
    pub transport: Transport,
    /// loop over every pair of unit operands
    pub units: bool,
}

struct MFill {
    kind: &'static str,
    x: Vec<u64>,
    w: Vec<u64>,
    /// second product of Dir::Sum
    x2: Vec<u64>,
    w2: Vec<u64>,
    bias: Option<Vec<u64>>,
}

fn cheetah_fills(c: &MCase, seed: u64) -> Vec<MFill> {
    let (m, r, n, t) = (c.m, c.r, c.n, c.spec.t);
    let mut v = vec![];
    v.push(MFill { kind: "dense", x: dense(seed, 1, m * r, t), w: dense(seed, 2, r * n, t), x2: dense(seed, 3, m * r, t), w2: dense(seed, 4, r * n, t), bias: Some(dense(seed, 5, m * n, t)) });
    v.push(MFill { kind: "max", x: vec![t - 1; m * r], w: vec![t - 1; r * n], x2: vec![t - 1; m * r], w2: vec![t - 1; r * n], bias: Some(vec![t - 1; m * n]) });
    if c.units {
        for a in 0..m * r {
            for b in 0..r * n {
                // second product (Sum): the mirrored unit pair
                v.push(MFill { kind: "unit", x: unit(m * r, a, 1), w: unit(r * n, b, 1), x2: unit(m * r, m * r - 1 - a, t - 1), w2: unit(r * n, r * n - 1 - b, 1), bias: None });
            }
        }
    }
    v
}

fn check_cheetah(c: &MCase, seed: u64) -> CaseOut {
    let sch = c.spec.scheme;
    let kx = match kitx(&c.spec, if c.pack { Keys::Auto } else { Keys::None }, seed) {
        Ok(k) => k,
        Err(e) => return CaseOut::skip(&format!("parameter set rejected: {e}")),
    };
    env_real(seed, h64(&serde_json::to_string(c).unwrap_or_default()));
    let valid = c.m >= 1 && c.r >= 1 && c.n >= 1 && c.spec.n >= 2;
    let kp = format!("cheetah:{sch:?}:pack={}", c.pack as u8);
    let helper = match guard(|| MatmulHelper::new(c.m, c.r, c.n, c.spec.n, c.obj.to(), c.pack)) {
        Ok(h) => h,
        Err(p) => {
            if !valid || is_explicit_refusal(&p) {
                note(format!("cheetah: constructor refusal: {}", panic_class(&p)));
                if valid {
                    return CaseOut::fail(format!("{kp}:new:refused-valid-shape:{}", panic_class(&p)), "shapes with all dimensions >= 1 are accepted", p);
                }
                return CaseOut::skip(&format!("shape refused: {}", panic_class(&p)));
            }
            return CaseOut::fail(format!("{kp}:new:panic:{}", panic_class(&p)), format!("MatmulHelper::new({},{},{},N={}) returns", c.m, c.r, c.n, c.spec.n), p);
        }
    };
    if !valid {
        // the constructor accepted a shape with a zero dimension: nothing to compute, outside the domain
        return CaseOut::skip("zero dimension accepted by the constructor");
    }
    let be = kx.be.as_ref().unwrap();
    let (ev, dec) = (&kx.kit.eval, &kx.kit.dec);
    let t = c.spec.t;
    let wire = c.transport == Transport::Wire;
    let mut tally = Tally { steps: 0, shape: 0, multi: false };

    for f in cheetah_fills(c, seed) {
        let stage = Cell::new("");
        let shape = Cell::new(0u64);
        let multi = Cell::new(false);
        let run = guard(|| -> Result<Vec<u64>, SoftErr> {
            let product = |x: &[u64], w: &[u64], reverse: bool| -> Result<Cipher2d, SoftErr> {
                stage.set("encode_inputs");
                let xe = helper.encode_inputs_bfv(be, x);
                stage.set("encode_weights");
                let we = helper.encode_weights_bfv(be, w);
                let (dx, dw) = (dims_p(&xe), dims_p(&we));
                let y = if !reverse {
                    let xc = encrypt2d(&kx, &xe, wire, &stage)?;
                    stage.set("matmul");
                    helper.matmul(ev, &xc, &we)
                } else {
                    let wc = encrypt2d(&kx, &we, wire, &stage)?;
                    stage.set("matmul_reverse");
                    helper.matmul_reverse(ev, &xe, &wc)
                };
                shape.set(h64(&(dx, dw, dims_c(&y))));
                multi.set(dx.0 * dx.1 > 1 || dw.0 * dw.1 > 1);
                Ok(y)
            };
            let mut y = match c.dir {
                Dir::Forward => product(&f.x, &f.w, false)?,
                Dir::Reverse => product(&f.x, &f.w, true)?,
                Dir::Sum => {
                    let mut a = product(&f.x, &f.w, false)?;
                    let b = product(&f.x2, &f.w2, true)?;
                    stage.set("add_inplace");
                    a.add_inplace(ev, &b);
                    a
                }
            };
            if c.pack {
                stage.set("pack_outputs");
                y = helper.pack_outputs(ev, kx.auto.as_ref().unwrap(), &y);
            }
            if let Some(b) = &f.bias {
                stage.set("encode_outputs");
                let pb = helper.encode_outputs_bfv(be, b);
                stage.set("add_plain_inplace");
                y.add_plain_inplace(ev, &pb);
            }
            if wire {
                let terms = if c.pack { None } else { Some(helper.output_terms()) };
                y = transport2d(&kx, y, terms.as_deref(), &stage)?;
            }
            stage.set("decrypt_outputs");
            Ok(helper.decrypt_outputs_bfv(be, dec, &y))
        });
        let mut exp = matmul_ref(&f.x, &f.w, c.m, c.r, c.n, t);
        if c.dir == Dir::Sum {
            exp = vadd(&exp, &matmul_ref(&f.x2, &f.w2, c.m, c.r, c.n, t), t);
        }
        if let Some(b) = &f.bias {
            exp = vadd(&exp, b, t);
        }
        let inp = || format!("fill={} x={} w={}{} bias={}", f.kind, short(&f.x), short(&f.w), if c.dir == Dir::Sum { format!(" x0={} w1={}", short(&f.x2), short(&f.w2)) } else { String::new() }, f.bias.as_ref().map(|b| short(b)).unwrap_or("none".into()));
        tally.steps += 1;
        tally.shape = shape.get();
        tally.multi |= multi.get();
        match run {
            Ok(Ok(o)) if o == exp => {}
            Ok(Ok(o)) => return CaseOut::fail(format!("{kp}:{:?}:{:?}:wrong", c.dir, c.transport), format!("{} -> {}", inp(), short(&exp)), short(&o)),
            Ok(Err(e)) => return CaseOut::fail(format!("{kp}:{}:error", e.stage), format!("{} -> {}", inp(), short(&exp)), e.msg),
            Err(p) => return CaseOut::fail(format!("{kp}:{}:panic:{}", stage.get(), panic_class(&p)), format!("{} -> {}", inp(), short(&exp)), p),
        }
    }
    // encode_outputs / decrypt_outputs inverse (dense, sparse and zero tensors)
    // the inverse does not depend on direction / transport: checked once per (shape, objective, pack)
    let inv: Vec<(&str, Vec<u64>)> = if c.transport == Transport::Direct && c.dir != Dir::Reverse { vec![("dense", dense(seed, 9, c.m * c.n, t)), ("first", unit(c.m * c.n, 0, 1)), ("last", unit(c.m * c.n, c.m * c.n - 1, t - 1)), ("zero", vec![0; c.m * c.n])] } else { vec![] };
    for (what, y) in inv {
        let stage = Cell::new("");
        let r = guard(|| {
            stage.set("encode_outputs");
            let p = helper.encode_outputs_bfv(be, &y);
            stage.set("encrypt");
            let ct = p.encrypt(&kx.kit.enc);
            stage.set("decrypt_outputs");
            helper.decrypt_outputs_bfv(be, dec, &ct)
        });
        tally.steps += 1;
        match r {
            Ok(o) if o == y => {}
            Ok(o) => return CaseOut::fail(format!("{kp}:outputs_inverse:wrong"), format!("decrypt_outputs(encrypt(encode_outputs(y))) = y for the {what} tensor y = {}", short(&y)), short(&o)),
            Err(p) => {
                return CaseOut::fail(format!("{kp}:outputs_inverse:{}:panic:{}", stage.get(), panic_class(&p)), format!("decrypt_outputs(encrypt(encode_outputs(y))) = y for the {what} tensor y = {}", short(&y)), p)
            }
        }
    }

    CaseOut::pass(tally.multi, h64(&("cheetah", sch, c.pack, c.dir, c.transport, tally.shape)), tally.steps)
}

fn cheetah_cases(specs: &[(ParamSpec, Vec<usize>)], cap: usize, zero_dims: bool) -> Vec<MCase> {
    let mut v = vec![];
    for (spec, dims) in specs {
        let mut shapes: Vec<(usize, usize, usize)> = vec![];
        for &m in dims {
            for &r in dims {
                for &n in dims {
                    shapes.push((m, r, n));
                }
            }
        }
        shapes.sort_by_key(|&(m, r, n)| (m * r * n, m, r, n));
        if zero_dims {
            shapes.extend([(0, 1, 1), (1, 0, 1), (1, 1, 0)]);
        }
        for (m, r, n) in shapes {
            for obj in Obj::all() {
                for pack in [false, true] {
                    for dir in [Dir::Forward, Dir::Reverse, Dir::Sum] {
                        if dir == Dir::Sum && obj != Obj::CpAddPc {
                            continue;
                        }
                        for transport in [Transport::Direct, Transport::Wire] {
                            let ucap = if transport == Transport::Wire { cap / 4 } else { cap };
                            v.push(MCase { spec: spec.clone(), m, r, n, obj, pack, dir, transport, units: m * r * r * n <= ucap && m * r * n > 0 });
                        }
                    }
                }
            }
        }
    }
    v
}

// ---------------------------------------------------------------------------------------------
// BOLT slot-packing helpers (BFV / BGV, batching t)
// ---------------------------------------------------------------------------------------------

#[derive(Serialize, Deserialize, Clone, Copy, Debug, PartialEq, Eq, Hash)]
pub enum Bolt {
    Cp,
    CcCr,
    CcDc,
}

#[derive(Serialize, Deserialize, Clone, Debug)]
pub struct BCase {
    pub spec: ParamSpec,
    pub kind: Bolt,
    pub m: usize,
    pub r: usize,
    pub n: usize,
    pub transport: Transport,
    pub units: bool,
}

enum BoltH {
    Cp(MatmulBoltCp),
    CcCr(MatmulBoltCcCr),
    CcDc(MatmulBoltCcDc),
}

impl BoltH {
    fn encode_inputs(&self, be: &BatchEncoder, x: &[u64]) -> Plain2d {
        match self {
            BoltH::Cp(h) => h.encode_inputs(be, x),
            BoltH::CcCr(h) => h.encode_inputs(be, x),
            BoltH::CcDc(h) => h.encode_inputs(be, x),
        }
    }
    fn encode_weights(&self, be: &BatchEncoder, w: &[u64]) -> Plain2d {
        match self {
            BoltH::Cp(h) => h.encode_weights(be, w),
            BoltH::CcCr(h) => h.encode_weights(be, w),
            BoltH::CcDc(h) => h.encode_weights(be, w),
        }
    }
    fn encode_outputs(&self, be: &BatchEncoder, y: &[u64]) -> Plain2d {
        match self {
            BoltH::Cp(h) => h.encode_outputs(be, y),
            BoltH::CcCr(h) => h.encode_outputs(be, y),
            BoltH::CcDc(h) => h.encode_outputs(be, y),
        }
    }
    fn decode_outputs(&self, be: &BatchEncoder, y: &Plain2d) -> Vec<u64> {
        match self {
            BoltH::Cp(h) => h.decode_outputs(be, y),
            BoltH::CcCr(h) => h.decode_outputs(be, y),
            BoltH::CcDc(h) => h.decode_outputs(be, y),
        }
    }
}

fn check_bolt(c: &BCase, seed: u64) -> CaseOut {
    let sch = c.spec.scheme;
    let kx = match kitx(&c.spec, Keys::GaloisRelin, seed) {
        Ok(k) => k,
        Err(e) => return CaseOut::skip(&format!("parameter set rejected: {e}")),
    };
    env_real(seed, h64(&serde_json::to_string(c).unwrap_or_default()));
    let kp = format!("bolt:{:?}:{sch:?}", c.kind);
    let nn = c.spec.n;
    let helper = match guard(|| match c.kind {
        Bolt::Cp => BoltH::Cp(MatmulBoltCp::new(c.m, c.r, c.n, nn)),
        Bolt::CcCr => BoltH::CcCr(MatmulBoltCcCr::new(c.m, c.r, c.n, nn)),
        Bolt::CcDc => BoltH::CcDc(MatmulBoltCcDc::new(c.m, c.r, c.n, nn)),
    }) {
        Ok(h) => h,
        Err(p) => {
            note(format!("bolt: constructor panic: {}", panic_class(&p)));
            return CaseOut::fail(format!("{kp}:new:panic:{}", panic_class(&p)), format!("new({},{},{},N={nn}) returns (all dimensions >= 1)", c.m, c.r, c.n), p);
        }
    };
    let be = kx.be.as_ref().unwrap();
    let (ev, dec) = (&kx.kit.eval, &kx.kit.dec);
    let (gk, rk) = (kx.galois.as_ref().unwrap(), kx.relin.as_ref().unwrap());
    let t = c.spec.t;
    let (m, r, n) = (c.m, c.r, c.n);
    let wire = c.transport == Transport::Wire;
    let mut tally = Tally { steps: 0, shape: 0, multi: false };

    for (what, y) in [("dense", dense(seed, 9, m * n, t)), ("first", unit(m * n, 0, 1)), ("last", unit(m * n, m * n - 1, t - 1))] {
        let stage = Cell::new("");
        let res = guard(|| {
            stage.set("encode_outputs");
            let p = helper.encode_outputs(be, &y);
            stage.set("decode_outputs");
            helper.decode_outputs(be, &p)
        });
        tally.steps += 1;
        match res {
            Ok(o) if o == y => {}
            Ok(o) => return CaseOut::fail(format!("{kp}:outputs_inverse:wrong"), format!("decode_outputs(encode_outputs(y)) = y for the {what} tensor y = {}", short(&y)), short(&o)),
            Err(p) => return CaseOut::fail(format!("{kp}:outputs_inverse:{}:panic:{}", stage.get(), panic_class(&p)), format!("decode_outputs(encode_outputs(y)) = y for the {what} tensor y = {}", short(&y)), p),
        }
    }

    let mut fills: Vec<(&'static str, Vec<u64>, Vec<u64>, Option<Vec<u64>>)> = vec![];
    if c.units {
        for a in 0..m * r {
            for b in 0..r * n {
                fills.push(("unit", unit(m * r, a, 1), unit(r * n, b, t - 1), None));
            }
        }
    }
    fills.push(("dense", dense(seed, 1, m * r, t), dense(seed, 2, r * n, t), Some(dense(seed, 5, m * n, t))));
    fills.push(("max", vec![t - 1; m * r], vec![t - 1; r * n], Some(vec![t - 1; m * n])));

    for (kind, x, w, bias) in fills {
        let stage = Cell::new("");
        let shape = Cell::new(0u64);
        let multi = Cell::new(false);
        let budget = Cell::new(usize::MAX);
        let run = guard(|| -> Result<Vec<u64>, SoftErr> {
            stage.set("encode_inputs");
            let xe = helper.encode_inputs(be, &x);
            stage.set("encode_weights");
            let we = helper.encode_weights(be, &w);
            let xc = encrypt2d(&kx, &xe, wire, &stage)?;
            let mut y = match &helper {
                BoltH::Cp(h) => {
                    stage.set("multiply");
                    h.multiply(ev, gk, &xc, &we)
                }
                BoltH::CcCr(h) => {
                    let wc = encrypt2d(&kx, &we, wire, &stage)?;
                    stage.set("multiply");
                    h.multiply(be, ev, gk, rk, &xc, &wc)
                }
                BoltH::CcDc(h) => {
                    let wc = encrypt2d(&kx, &we, wire, &stage)?;
                    stage.set("multiply");
                    h.multiply(be, ev, gk, rk, &xc, &wc)
                }
            };
            shape.set(h64(&(dims_p(&xe), dims_p(&we), dims_c(&y))));
            multi.set(xe.data.iter().map(|d| d.len()).sum::<usize>() > 1 || y.data.iter().map(|d| d.len()).sum::<usize>() > 1);
            if let Some(b) = &bias {
                stage.set("encode_outputs");
                let pb = helper.encode_outputs(be, b);
                stage.set("add_plain_inplace");
                y.add_plain_inplace(ev, &pb);
            }
            if wire {
                y = transport2d(&kx, y, None, &stage)?;
            }
            if sch == Scheme::BFV {
                stage.set("noise_budget");
                budget.set(y.data.iter().flat_map(|d| d.data.iter()).map(|ct| dec.invariant_noise_budget(ct)).min().unwrap_or(0));
            }
            stage.set("decrypt");
            let yp = y.decrypt(dec);
            stage.set("decode_outputs");
            Ok(helper.decode_outputs(be, &yp))
        });
        let mut exp = matmul_ref(&x, &w, m, r, n, t);
        if let Some(b) = &bias {
            exp = vadd(&exp, b, t);
        }
        let inp = || format!("fill={kind} x={} w={} bias={}", short(&x), short(&w), bias.as_ref().map(|b| short(b)).unwrap_or("none".into()));
        tally.steps += 1;
        tally.shape = shape.get();
        tally.multi |= multi.get();
        match run {
            Ok(Ok(o)) if o == exp => {}
            Ok(Ok(o)) => return CaseOut::fail(format!("{kp}:{:?}:wrong", c.transport), format!("{} -> {}", inp(), short(&exp)), format!("{} (minimum noise budget of the outputs: {} bits)", short(&o), budget.get())),
            Ok(Err(e)) => return CaseOut::fail(format!("{kp}:{}:error", e.stage), format!("{} -> {}", inp(), short(&exp)), e.msg),
            Err(p) => return CaseOut::fail(format!("{kp}:{}:panic:{}", stage.get(), panic_class(&p)), format!("{} -> {}", inp(), short(&exp)), p),
        }
    }
    CaseOut::pass(tally.multi, h64(&("bolt", c.kind, sch, c.transport, tally.shape)), tally.steps)
}

fn bolt_cases(specs: &[(ParamSpec, Vec<usize>, usize)]) -> Vec<BCase> {
    let mut v = vec![];
    for (spec, dims, cap) in specs {
        let mut shapes: Vec<(usize, usize, usize)> = vec![];
        for &m in dims {
            for &r in dims {
                for &n in dims {
                    shapes.push((m, r, n));
                }
            }
        }
        shapes.sort_by_key(|&(m, r, n)| (m * r * n, m, r, n));
        for (m, r, n) in shapes {
            for kind in [Bolt::Cp, Bolt::CcCr, Bolt::CcDc] {
                for transport in [Transport::Direct, Transport::Wire] {
                    v.push(BCase { spec: spec.clone(), kind, m, r, n, transport, units: transport == Transport::Direct && m * r * r * n <= *cap });
                }
            }
        }
    }
    v
}

// ---------------------------------------------------------------------------------------------
// Conv2dHelper (BFV / BGV)
// ---------------------------------------------------------------------------------------------

#[derive(Serialize, Deserialize, Clone, Copy, Debug, PartialEq, Eq, Hash)]
pub struct ConvShape {
    pub b: usize,
    pub ci: usize,
    pub co: usize,
    pub h: usize,
    pub w: usize,
    pub kh: usize,
    pub kw: usize,
}
impl ConvShape {
    fn in_len(&self) -> usize {
        self.b * self.ci * self.h * self.w
    }
    fn w_len(&self) -> usize {
        self.co * self.ci * self.kh * self.kw
    }
    fn out_len(&self) -> usize {
        self.b * self.co * (self.h - self.kh + 1) * (self.w - self.kw + 1)
    }
}

#[derive(Serialize, Deserialize, Clone, Debug)]
pub struct VCase {
    pub spec: ParamSpec,
    pub s: ConvShape,
    pub obj: Obj,
    pub dir: Dir,
    pub transport: Transport,
    /// 0: dense + max only, 1: + every input unit against dense weights and every weight unit against dense inputs,
    /// 2: + every pair of unit operands
    pub units: u8,
}

/// valid cross-correlation: y[b,oc,i,j] = sum_{ic,ki,kj} x[b,ic,i+ki,j+kj] * w[oc,ic,ki,kj] mod t
fn conv_ref(x: &[u64], w: &[u64], s: &ConvShape, t: u64) -> Vec<u64> {
    let (oh, ow) = (s.h - s.kh + 1, s.w - s.kw + 1);
    let mut y = vec![0u64; s.out_len()];
    for b in 0..s.b {
        for oc in 0..s.co {
            for i in 0..oh {
                for j in 0..ow {
                    let mut acc: u128 = 0;
                    for ic in 0..s.ci {
                        for ki in 0..s.kh {
                            for kj in 0..s.kw {
                                let xi = ((b * s.ci + ic) * s.h + i + ki) * s.w + j + kj;
                                let wi = ((oc * s.ci + ic) * s.kh + ki) * s.kw + kj;
                                acc = (acc + (x[xi] as u128 * w[wi] as u128) % t as u128) % t as u128;
                            }
                        }
                    }
                    y[((b * s.co + oc) * oh + i) * ow + j] = acc as u64;
                }
            }
        }
    }
    y
}

fn conv_fills(c: &VCase, seed: u64) -> Vec<(&'static str, Vec<u64>, Vec<u64>, Option<Vec<u64>>)> {
    let (s, t) = (&c.s, c.spec.t);
    let (li, lw, lo) = (s.in_len(), s.w_len(), s.out_len());
    // dense fills first: a defect of the blocking shows up before the sparse fills are reached
    let mut v = vec![];
    v.push(("dense", dense(seed, 1, li, t), dense(seed, 2, lw, t), Some(dense(seed, 5, lo, t))));
    v.push(("max", vec![t - 1; li], vec![t - 1; lw], Some(vec![t - 1; lo])));
    if c.units >= 2 {
        for a in 0..li {
            for b in 0..lw {
                v.push(("unit", unit(li, a, 1), unit(lw, b, t - 1), None));
            }
        }
    } else if c.units == 1 {
        let (dx, dw) = (dense(seed, 1, li, t), dense(seed, 2, lw, t));
        for a in 0..li {
            v.push(("unit-x", unit(li, a, 1), dw.clone(), None));
        }
        for b in 0..lw {
            v.push(("unit-w", dx.clone(), unit(lw, b, 1), None));
        }
    }
    v
}

fn check_conv(c: &VCase, seed: u64) -> CaseOut {
    let sch = c.spec.scheme;
    let s = c.s;
    let kx = match kitx(&c.spec, Keys::None, seed) {
        Ok(k) => k,
        Err(e) => return CaseOut::skip(&format!("parameter set rejected: {e}")),
    };
    env_real(seed, h64(&serde_json::to_string(c).unwrap_or_default()));
    let kp = format!("conv2d:{sch:?}");
    let nn = c.spec.n;
    let fits = s.kh * s.kw <= nn;
    let helper = match guard(|| Conv2dHelper::new(s.b, s.ci, s.co, s.h, s.w, s.kh, s.kw, nn, c.obj.to())) {
        Ok(h) => h,
        Err(p) => {
            note(format!("conv2d: constructor panic: {}", panic_class(&p)));
            if !fits {
                return CaseOut::skip(&format!("kernel larger than the ring, constructor: {}", panic_class(&p)));
            }
            return CaseOut::fail(format!("{kp}:new:panic:{}", panic_class(&p)), format!("Conv2dHelper::new({s:?}, N={nn}) returns"), p);
        }
    };
    let be = kx.be.as_ref().unwrap();
    let (ev, dec) = (&kx.kit.eval, &kx.kit.dec);
    let t = c.spec.t;
    let wire = c.transport == Transport::Wire;
    let mut tally = Tally { steps: 0, shape: 0, multi: false };

    if !fits {
        // no blocking exists; whatever happens is outside the domain, but record how the helper reacts
        let x = vec![1u64; s.in_len()];
        let r = guard(|| helper.encode_inputs_bfv(be, &x));
        let how = match r {
            Ok(_) => "accepted".to_string(),
            Err(p) => panic_class(&p),
        };
        note(format!("conv2d: kernel with more coefficients than the ring (k_h*k_w > N) is not refused by the constructor; encode_inputs: {how}"));
        return CaseOut::skip(&format!("kernel larger than the ring: {how}"));
    }

    for (kind, x, w, bias) in conv_fills(c, seed) {
        let stage = Cell::new("");
        let shape = Cell::new(0u64);
        let multi = Cell::new(false);
        let run = guard(|| -> Result<Vec<u64>, SoftErr> {
            stage.set("encode_inputs");
            let xe = helper.encode_inputs_bfv(be, &x);
            stage.set("encode_weights");
            let we = helper.encode_weights_bfv(be, &w);
            let mut y = if c.dir == Dir::Forward {
                let xc = encrypt2d(&kx, &xe, wire, &stage)?;
                stage.set("conv2d");
                helper.conv2d(ev, &xc, &we)
            } else {
                let wc = encrypt2d(&kx, &we, wire, &stage)?;
                stage.set("conv2d_reverse");
                helper.conv2d_reverse(ev, &xe, &wc)
            };
            shape.set(h64(&(dims_p(&xe), dims_p(&we), dims_c(&y))));
            let (dx, dw) = (dims_p(&xe), dims_p(&we));
            multi.set(dx.0 * dx.1 > 1 || dw.0 * dw.1 > 1);
            if let Some(b) = &bias {
                stage.set("encode_outputs");
                let pb = helper.encode_outputs_bfv(be, b);
                stage.set("add_plain_inplace");
                y.add_plain_inplace(ev, &pb);
            }
            if wire {
                let terms = helper.output_terms();
                y = transport2d(&kx, y, Some(&terms), &stage)?;
            }
            stage.set("decrypt_outputs");
            Ok(helper.decrypt_outputs_bfv(be, dec, &y))
        });
        let mut exp = conv_ref(&x, &w, &s, t);
        if let Some(b) = &bias {
            exp = vadd(&exp, b, t);
        }
        let inp = || format!("fill={kind} x={} w={} bias={}", short(&x), short(&w), bias.as_ref().map(|b| short(b)).unwrap_or("none".into()));
        tally.steps += 1;
        tally.shape = shape.get();
        tally.multi |= multi.get();
        match run {
            Ok(Ok(o)) if o == exp => {}
            Ok(Ok(o)) => return CaseOut::fail(format!("{kp}:{:?}:{:?}:wrong", c.dir, c.transport), format!("{} -> {}", inp(), short(&exp)), short(&o)),
            Ok(Err(e)) => return CaseOut::fail(format!("{kp}:{}:error", e.stage), format!("{} -> {}", inp(), short(&exp)), e.msg),
            Err(p) => return CaseOut::fail(format!("{kp}:{}:panic:{}", stage.get(), panic_class(&p)), format!("{} -> {}", inp(), short(&exp)), p),
        }
    }
    // the inverse does not depend on direction / transport: checked once per (shape, objective)
    let inv: Vec<(&str, Vec<u64>)> = if c.transport == Transport::Direct && c.dir == Dir::Forward { vec![("dense", dense(seed, 9, s.out_len(), t)), ("first", unit(s.out_len(), 0, 1)), ("last", unit(s.out_len(), s.out_len() - 1, t - 1)), ("zero", vec![0; s.out_len()])] } else { vec![] };
    for (what, y) in inv {
        let stage = Cell::new("");
        let r = guard(|| {
            stage.set("encode_outputs");
            let p = helper.encode_outputs_bfv(be, &y);
            stage.set("encrypt");
            let ct = p.encrypt(&kx.kit.enc);
            stage.set("decrypt_outputs");
            helper.decrypt_outputs_bfv(be, dec, &ct)
        });
        tally.steps += 1;
        match r {
            Ok(o) if o == y => {}
            Ok(o) => return CaseOut::fail(format!("{kp}:outputs_inverse:wrong"), format!("decrypt_outputs(encrypt(encode_outputs(y))) = y for the {what} tensor y = {}", short(&y)), short(&o)),
            Err(p) => {
                return CaseOut::fail(format!("{kp}:outputs_inverse:{}:panic:{}", stage.get(), panic_class(&p)), format!("decrypt_outputs(encrypt(encode_outputs(y))) = y for the {what} tensor y = {}", short(&y)), p)
            }
        }
    }

    CaseOut::pass(tally.multi, h64(&("conv2d", sch, c.dir, c.transport, tally.shape)), tally.steps)
}

fn conv_shapes(bmax: usize, cmax: usize, hmax: usize, wmax: usize, kmax: usize) -> Vec<ConvShape> {
    let mut v = vec![];
    for b in 1..=bmax {
        for ci in 1..=cmax {
            for co in 1..=cmax {
                for h in 1..=hmax {
                    for w in 1..=wmax {
                        for kh in 1..=h.min(kmax) {
                            for kw in 1..=w.min(kmax) {
                                v.push(ConvShape { b, ci, co, h, w, kh, kw });
                            }
                        }
                    }
                }
            }
        }
    }
    v.sort_by_key(|s| (s.in_len() * s.w_len(), s.in_len(), s.b, s.ci, s.co, s.h, s.w, s.kh, s.kw));
    v
}

fn conv_cases(specs: &[(ParamSpec, Vec<ConvShape>, usize, usize)]) -> Vec<VCase> {
    let mut v = vec![];
    for (spec, shapes, pair_cap, side_cap) in specs {
        let (pair_cap, side_cap) = (*pair_cap, *side_cap);
        for s in shapes {
            for obj in Obj::all() {
                for dir in [Dir::Forward, Dir::Reverse] {
                    for transport in [Transport::Direct, Transport::Wire] {
                        let units = if transport == Transport::Wire {
                            0
                        } else if s.in_len() * s.w_len() <= pair_cap {
                            2
                        } else if s.in_len() + s.w_len() <= side_cap {
                            1
                        } else {
                            0
                        };
                        v.push(VCase { spec: spec.clone(), s: *s, obj, dir, transport, units });
                    }
                }
            }
        }
    }
    v
}

// ---------------------------------------------------------------------------------------------
// CKKS variants (Cheetah matmul and conv2d) on a sub-box, a-priori bound
// ---------------------------------------------------------------------------------------------

#[derive(Serialize, Deserialize, Clone, Debug)]
pub enum KShape {
    Matmul { m: usize, r: usize, n: usize, pack: bool },
    Conv(ConvShape),
}

#[derive(Serialize, Deserialize, Clone, Debug)]
pub struct KCase {
    pub spec: ParamSpec,
    pub log_scale: u32,
    pub shape: KShape,
    pub obj: Obj,
    pub dir: Dir,
    pub transport: Transport,
}

const CK_B: f64 = 4.0;

/// deterministic values in [-4, 4], multiples of 1/8 (products are multiples of 1/64: any index
/// mistake is far above the bound)
fn fdense(seed: u64, tag: u64, len: usize) -> Vec<f64> {
    (0..len).map(|i| ((h64(&(seed, tag, i as u64)) % 65) as f64 - 32.0) / 8.0).collect()
}

fn fmatmul_ref(x: &[f64], w: &[f64], m: usize, r: usize, n: usize) -> Vec<f64> {
    let mut y = vec![0.0; m * n];
    for i in 0..m {
        for j in 0..n {
            for k in 0..r {
                y[i * n + j] += x[i * r + k] * w[k * n + j];
            }
        }
    }
    y
}
fn fconv_ref(x: &[f64], w: &[f64], s: &ConvShape) -> Vec<f64> {
    let (oh, ow) = (s.h - s.kh + 1, s.w - s.kw + 1);
    let mut y = vec![0.0; s.out_len()];
    for b in 0..s.b {
        for oc in 0..s.co {
            for i in 0..oh {
                for j in 0..ow {
                    let mut acc = 0.0;
                    for ic in 0..s.ci {
                        for ki in 0..s.kh {
                            for kj in 0..s.kw {
                                acc += x[((b * s.ci + ic) * s.h + i + ki) * s.w + j + kj] * w[((oc * s.ci + ic) * s.kh + ki) * s.kw + kj];
                            }
                        }
                    }
                    y[((b * s.co + oc) * oh + i) * ow + j] = acc;
                }
            }
        }
    }
    y
}

fn fshort(v: &[f64]) -> String {
    let s: Vec<String> = v.iter().take(32).map(|x| format!("{x:.6}")).collect();
    format!("[{}]{}", s.join(", "), if v.len() > 32 { format!("…({} values)", v.len()) } else { String::new() })
}

fn check_ckks(c: &KCase, seed: u64) -> CaseOut {
    let pack = matches!(c.shape, KShape::Matmul { pack: true, .. });
    let kx = match kitx(&c.spec, if pack { Keys::Auto } else { Keys::None }, seed) {
        Ok(k) => k,
        Err(e) => return CaseOut::skip(&format!("parameter set rejected: {e}")),
    };
    env_real(seed, h64(&serde_json::to_string(c).unwrap_or_default()));
    let nn = c.spec.n;
    let ce = kx.ce.as_ref().unwrap();
    let (ev, dec) = (&kx.kit.eval, &kx.kit.dec);
    let scale = 2f64.powi(c.log_scale as i32);
    let wire = c.transport == Transport::Wire;
    let what = match &c.shape {
        KShape::Matmul { pack, .. } => format!("cheetah:CKKS:pack={}", *pack as u8),
        KShape::Conv(_) => "conv2d:CKKS".to_string(),
    };
    enum H {
        M(MatmulHelper, usize, usize, usize),
        C(Conv2dHelper, ConvShape),
    }
    let built = guard(|| match &c.shape {
        KShape::Matmul { m, r, n, pack } => H::M(MatmulHelper::new(*m, *r, *n, nn, c.obj.to(), *pack), *m, *r, *n),
        KShape::Conv(s) => H::C(Conv2dHelper::new(s.b, s.ci, s.co, s.h, s.w, s.kh, s.kw, nn, c.obj.to()), *s),
    });
    let helper = match built {
        Ok(h) => h,
        Err(p) => return CaseOut::fail(format!("{what}:new:panic:{}", panic_class(&p)), "constructor returns for a shape with all dimensions >= 1", p),
    };
    let (lx, lw, lo, terms) = match &helper {
        H::M(_, m, r, n) => (m * r, r * n, m * n, *r),
        H::C(_, s) => {
            if s.kh * s.kw > nn {
                return CaseOut::skip("kernel larger than the ring");
            }
            (s.in_len(), s.w_len(), s.out_len(), s.ci * s.kh * s.kw)
        }
    };
    // a-priori bound (see describe())
    let nf = nn as f64;
    let bound = 4.0 * terms as f64 * nf * CK_B * (21.0 * (2.0 * nf + 1.0) + nf + 2.0) / scale + 2f64.powi(-30);
    if bound > 1.0 / 256.0 {
        return CaseOut::skip("a-priori bound too weak to separate index mistakes");
    }
    let fills: Vec<(&'static str, Vec<f64>, Vec<f64>, Vec<f64>)> = vec![
        ("dense", fdense(seed, 1, lx), fdense(seed, 2, lw), fdense(seed, 5, lo)),
        ("max", vec![CK_B; lx], vec![-CK_B; lw], vec![CK_B; lo]),
        ("first-unit", { let mut v = vec![0.0; lx]; v[0] = 1.0; v }, { let mut v = vec![0.0; lw]; v[0] = 1.0; v }, vec![0.0; lo]),
    ];
    let mut steps = 0u64;
    let mut shape_h = 0u64;
    let mut multi_any = false;
    for (kind, x, w, bias) in fills {
        let stage = Cell::new("");
        let shape = Cell::new(0u64);
        let multi = Cell::new(false);
        let run = guard(|| -> Result<Vec<f64>, SoftErr> {
            stage.set("encode_inputs");
            let xe = match &helper {
                H::M(h, ..) => h.encode_inputs_ckks(ce, &x, None, scale),
                H::C(h, _) => h.encode_inputs_ckks(ce, &x, None, scale),
            };
            stage.set("encode_weights");
            let we = match &helper {
                H::M(h, ..) => h.encode_weights_ckks(ce, &w, None, scale),
                H::C(h, _) => h.encode_weights_ckks(ce, &w, None, scale),
            };
            let (dx, dw) = (dims_p(&xe), dims_p(&we));
            multi.set(dx.0 * dx.1 > 1 || dw.0 * dw.1 > 1);
            let mut y = if c.dir == Dir::Forward {
                let xc = encrypt2d(&kx, &xe, wire, &stage)?;
                stage.set("multiply");
                match &helper {
                    H::M(h, ..) => h.matmul(ev, &xc, &we),
                    H::C(h, _) => h.conv2d(ev, &xc, &we),
                }
            } else {
                let wc = encrypt2d(&kx, &we, wire, &stage)?;
                stage.set("multiply_reverse");
                match &helper {
                    H::M(h, ..) => h.matmul_reverse(ev, &xe, &wc),
                    H::C(h, _) => h.conv2d_reverse(ev, &xe, &wc),
                }
            };
            shape.set(h64(&(dx, dw, dims_c(&y))));
            if let H::M(h, ..) = &helper {
                if h.pack_lwe() {
                    stage.set("pack_outputs");
                    y = h.pack_outputs(ev, kx.auto.as_ref().unwrap(), &y);
                }
            }
            stage.set("rescale");
            y.rescale_to_next_inplace(ev);
            stage.set("encode_outputs");
            let first = &y.data[0].data[0];
            let (pid, sc) = (*first.parms_id(), first.scale());
            let pb = match &helper {
                H::M(h, ..) => h.encode_outputs_ckks(ce, &bias, Some(pid), sc),
                H::C(h, _) => h.encode_outputs_ckks(ce, &bias, Some(pid), sc),
            };
            stage.set("add_plain_inplace");
            y.add_plain_inplace(ev, &pb);
            if wire {
                let terms = match &helper {
                    H::M(h, ..) => {
                        if h.pack_lwe() {
                            None
                        } else {
                            Some(h.output_terms())
                        }
                    }
                    H::C(h, _) => Some(h.output_terms()),
                };
                y = transport2d(&kx, y, terms.as_deref(), &stage)?;
            }
            stage.set("decrypt_outputs");
            Ok(match &helper {
                H::M(h, ..) => h.decrypt_outputs_ckks(ce, dec, &y),
                H::C(h, _) => h.decrypt_outputs_ckks(ce, dec, &y),
            })
        });
        let mut exp = match &helper {
            H::M(_, m, r, n) => fmatmul_ref(&x, &w, *m, *r, *n),
            H::C(_, s) => fconv_ref(&x, &w, s),
        };
        for (e, b) in exp.iter_mut().zip(&bias) {
            *e += b;
        }
        steps += 1;
        shape_h = shape.get();
        multi_any |= multi.get();
        let inp = || format!("fill={kind} x={} w={} bias={}", fshort(&x), fshort(&w), fshort(&bias));
        match run {
            Ok(Ok(o)) => {
                let worst = o.iter().zip(&exp).map(|(a, b)| (a - b).abs()).fold(0.0, f64::max);
                if o.len() != exp.len() || !(worst <= bound) {
                    return CaseOut::fail(format!("{what}:{:?}:{:?}:wrong", c.dir, c.transport), format!("{} -> {} within {bound:e}", inp(), fshort(&exp)), format!("{} (max error {worst:e})", fshort(&o)));
                }
            }
            Ok(Err(e)) => return CaseOut::fail(format!("{what}:{}:error", e.stage), format!("{} -> {}", inp(), fshort(&exp)), e.msg),
            Err(p) => return CaseOut::fail(format!("{what}:{}:panic:{}", stage.get(), panic_class(&p)), format!("{} -> {}", inp(), fshort(&exp)), p),
        }
    }
    CaseOut::pass(multi_any, h64(&(what.as_str(), c.dir, c.transport, shape_h)), steps)
}

fn ckks_cases(specs: &[(ParamSpec, u32, usize, Vec<ConvShape>)]) -> Vec<KCase> {
    let mut v = vec![];
    for (spec, log_scale, b, convs) in specs {
        for m in 1..=*b {
            for r in 1..=*b {
                for n in 1..=*b {
                    for obj in Obj::all() {
                        for pack in [false, true] {
                            for dir in [Dir::Forward, Dir::Reverse] {
                                for transport in [Transport::Direct, Transport::Wire] {
                                    v.push(KCase { spec: spec.clone(), log_scale: *log_scale, shape: KShape::Matmul { m, r, n, pack }, obj, dir, transport });
                                }
                            }
                        }
                    }
                }
            }
        }
        for s in convs {
            for obj in Obj::all() {
                for dir in [Dir::Forward, Dir::Reverse] {
                    for transport in [Transport::Direct, Transport::Wire] {
                        v.push(KCase { spec: spec.clone(), log_scale: *log_scale, shape: KShape::Conv(*s), obj, dir, transport });
                    }
                }
            }
        }
    }
    v
}

// ---------------------------------------------------------------------------------------------
// RNS-plaintext wrapper
// ---------------------------------------------------------------------------------------------

#[derive(Serialize, Deserialize, Clone, Debug)]
pub struct RCase {
    pub scheme: Scheme,
    pub n: usize,
    pub q: Vec<u64>,
    /// plain moduli
    pub t: Vec<u64>,
    /// slot (batch) encoding or coefficient (polynomial) encoding
    pub batch: bool,
    pub op: String,
    /// 0: all pairs of the value set; 1..: value a paired with partner_k(a)
    pub partner: u8,
    /// value set: every residue modulo the product (true) or the boundary set (false)
    pub all: bool,
    /// this case handles the slot vectors whose index is congruent to `part` modulo `parts`
    pub part: usize,
    pub parts: usize,
}

const R_OPS: &[&str] = &["roundtrip", "add", "sub", "multiply", "square", "negate", "add_plain", "sub_plain", "multiply_plain", "mod_switch"];

struct RKit {
    ctx: RnspHeContext,
    enc: RnspBatchEncoder,
    encryptor: RnspEncryptor,
    dec: RnspDecryptor,
    ev: RnspEvaluator,
    rk: RnspRelinKeys,
}

fn rnsp_values(c: &RCase, p: &BigU) -> Vec<BigU> {
    if c.all {
        let pm = p.to_u64().expect("exhaustive value set needs a one-word product");
        (0..pm).map(BigU::from_u64).collect()
    } else {
        let one = BigU::one();
        let mut v = vec![BigU::zero(), one.clone(), BigU::from_u64(2), p.sub(&one), p.sub(&BigU::from_u64(2)), p.shr(1), p.shr(1).add(&one)];
        for &ti in &c.t {
            for d in [0u64, 1] {
                v.push(BigU::from_u64(ti - d).rem(p));
                v.push(BigU::from_u64(ti + 1).rem(p));
                // P/t_i and neighbours: the CRT basis boundaries
                let pi = p.div(&BigU::from_u64(ti));
                v.push(pi.clone());
                v.push(pi.sub(&one));
                v.push(pi.mul_u64(ti - 1).rem(p));
            }
        }
        v.push(BigU::from_limbs(&[0x5555_5555_5555_5555, 0x5555_5555_5555_5555, 0x5555]).rem(p));
        v.push(BigU::from_limbs(&[u64::MAX, u64::MAX, u64::MAX]).rem(p));
        v.sort();
        v.dedup();
        v
    }
}

fn check_rnsp(c: &RCase, seed: u64) -> CaseOut {
    let tag = h64(&serde_json::to_string(c).unwrap_or_default());
    env_real(seed, tag);
    let k = c.t.len();
    let n = c.n;
    let kp = format!("rnsp:{:?}:{}:{}", c.scheme, if c.batch { "batch" } else { "poly" }, c.op);
    let built = guard(|| {
        let parms = RnspEncryptionParameters::new(c.scheme.ty())
            .set_poly_modulus_degree(n)
            .set_plain_modulus(c.t.iter().map(|&v| heathcliff::Modulus::new(v)).collect())
            .set_coeff_modulus(c.q.iter().map(|&v| heathcliff::Modulus::new(v)).collect());
        let ctx = RnspHeContext::new(parms, true, heathcliff::SecurityLevel::None);
        if !ctx.parameters_set() {
            return None;
        }
        let kg = RnspKeyGenerator::new(&ctx);
        let sk = kg.get_secret_key();
        let pk = kg.create_public_key(false);
        let rk = kg.create_relin_keys(false);
        Some(RKit {
            enc: RnspBatchEncoder::new(&ctx),
            encryptor: RnspEncryptor::new(&ctx).set_public_key(pk).set_secret_key(sk.clone()),
            dec: RnspDecryptor::new(&ctx, sk),
            ev: RnspEvaluator::new(&ctx),
            rk,
            ctx,
        })
    });
    let kit = match built {
        Ok(Some(k)) => k,
        Ok(None) => return CaseOut::skip("parameter set rejected"),
        Err(p) => return CaseOut::skip(&format!("parameter set rejected: {}", panic_class(&p))),
    };
    let p = BigU::product(&c.t);
    let vals = rnsp_values(c, &p);
    // operand pairs
    let mut pairs: Vec<(BigU, BigU)> = vec![];
    if c.partner == 0 {
        for a in &vals {
            for b in &vals {
                pairs.push((a.clone(), b.clone()));
            }
        }
    } else {
        let g = BigU::from_u64(h64(&(seed, "rnsp-g")) | 1).rem(&p);
        let off = BigU::from_u64(h64(&(seed, "rnsp-c"))).rem(&p);
        for a in &vals {
            let b = match c.partner {
                1 => a.clone(),
                2 => p.sub(&BigU::one()).sub(a),
                3 => a.mul(&g).add(&off).rem(&p),
                4 => p.sub(&BigU::one()),
                _ => BigU::one(),
            };
            pairs.push((a.clone(), b));
        }
    }
    let words = |v: &[BigU]| -> Vec<u64> { v.iter().flat_map(|x| x.limbs(k)).collect() };
    let unwords = |w: &[u64]| -> Vec<BigU> { w.chunks(k).map(BigU::from_limbs).collect() };
    let submod = |a: &BigU, b: &BigU| a.add(&p).sub(b).rem(&p);
    // reference on one slot vector (batch: slot-wise; poly: ring Z_P[X]/(X^N+1))
    let ref_mul = |a: &[BigU], b: &[BigU]| -> Vec<BigU> {
        if c.batch {
            a.iter().zip(b).map(|(x, y)| x.mul(y).rem(&p)).collect()
        } else {
            let mut r = vec![BigU::zero(); n];
            for i in 0..n {
                for j in 0..n {
                    let pr = a[i].mul(&b[j]).rem(&p);
                    let kk = (i + j) % n;
                    r[kk] = if i + j < n { r[kk].add(&pr).rem(&p) } else { submod(&r[kk], &pr) };
                }
            }
            r
        }
    };
    let empty = || RnspCiphertext::from_raw_parts(vec![Ciphertext::new(); k]);
    let mut steps = 0u64;
    for (ci, chunk) in pairs.chunks(n).enumerate() {
        if ci % c.parts.max(1) != c.part {
            continue;
        }
        let mut a: Vec<BigU> = chunk.iter().map(|x| x.0.clone()).collect();
        let mut b: Vec<BigU> = chunk.iter().map(|x| x.1.clone()).collect();
        a.resize(n, BigU::zero());
        b.resize(n, BigU::zero());
        // the last chunk is passed un-padded to exercise the encoder's own padding
        let la = chunk.len() * k;
        let stage = Cell::new("");
        let form = ci % 3; // 0: _new, 1: _inplace, 2: destination form
        let run = guard(|| -> Vec<(String, Vec<BigU>, Vec<BigU>)> {
            let (wa, wb) = (words(&a), words(&b));
            stage.set("encode");
            let (pa, pb) = if c.batch { (kit.enc.encode_new(&wa[..la]), kit.enc.encode_new(&wb[..la])) } else { (kit.enc.encode_polynomial_new(&wa[..la]), kit.enc.encode_polynomial_new(&wb[..la])) };
            let decode = |pt: &RnspPlaintext| -> Vec<BigU> { unwords(&if c.batch { kit.enc.decode_new(pt) } else { kit.enc.decode_polynomial_new(pt) }) };
            let mut out: Vec<(String, Vec<BigU>, Vec<BigU>)> = vec![];
            // tiny rings (fewer than 9 words per polynomial) produce seedless symmetric ciphertexts: expand only when there is a seed
            let sym = |pt: &RnspPlaintext| -> RnspCiphertext {
                let ct = kit.encryptor.encrypt_symmetric_new(pt);
                if ct.contains_seed() {
                    ct.expand_seed(&kit.ctx)
                } else {
                    ct
                }
            };
            if c.op == "roundtrip" {
                stage.set("decode");
                out.push(("decode(encode(a))".into(), decode(&pa), a.clone()));
                stage.set("encrypt");
                let ct = kit.encryptor.encrypt_new(&pa);
                stage.set("decrypt");
                out.push(("decrypt(encrypt(a))".into(), decode(&kit.dec.decrypt_new(&ct)), a.clone()));
                stage.set("encrypt_symmetric");
                let ct = sym(&pb);
                stage.set("decrypt");
                let mut dst = RnspPlaintext::from_raw_parts(vec![heathcliff::Plaintext::new(); k]);
                kit.dec.decrypt(&ct, &mut dst);
                out.push(("decrypt(encrypt_symmetric(b))".into(), decode(&dst), b.clone()));
                return out;
            }
            stage.set("encrypt");
            let ca = kit.encryptor.encrypt_new(&pa);
            let cb = if ci % 2 == 0 { kit.encryptor.encrypt_new(&pb) } else { sym(&pb) };
            let ev = &kit.ev;
            stage.set("evaluate");
            macro_rules! forms {
                ($new:ident, $inpl:ident, $dst:ident, $rhs:expr) => {{
                    match form {
                        0 => ev.$new(&ca, $rhs),
                        1 => {
                            let mut x = ca.clone();
                            ev.$inpl(&mut x, $rhs);
                            x
                        }
                        _ => {
                            let mut d = empty();
                            ev.$dst(&ca, $rhs, &mut d);
                            d
                        }
                    }
                }};
            }
            let (res, exp): (RnspCiphertext, Vec<BigU>) = match c.op.as_str() {
                "add" => (forms!(add_new, add_inplace, add, &cb), a.iter().zip(&b).map(|(x, y)| x.add(y).rem(&p)).collect()),
                "sub" => (forms!(sub_new, sub_inplace, sub, &cb), a.iter().zip(&b).map(|(x, y)| submod(x, y)).collect()),
                "multiply" => {
                    let prod = forms!(multiply_new, multiply_inplace, multiply, &cb);
                    let exp = ref_mul(&a, &b);
                    stage.set("decrypt size-3");
                    out.push(("decrypt(multiply(a,b)) before relinearization".into(), decode(&kit.dec.decrypt_new(&prod)), exp.clone()));
                    stage.set("relinearize");
                    let r = match form {
                        0 => ev.relinearize_new(&prod, &kit.rk),
                        1 => {
                            let mut x = prod.clone();
                            ev.relinearize_inplace(&mut x, &kit.rk);
                            x
                        }
                        _ => {
                            let mut d = empty();
                            ev.relinearize(&prod, &kit.rk, &mut d);
                            d
                        }
                    };
                    (r, exp)
                }
                "square" => {
                    let sq = match form {
                        0 => ev.square_new(&ca),
                        1 => {
                            let mut x = ca.clone();
                            ev.square_inplace(&mut x);
                            x
                        }
                        _ => {
                            let mut d = empty();
                            ev.square(&ca, &mut d);
                            d
                        }
                    };
                    stage.set("relinearize");
                    (ev.relinearize_new(&sq, &kit.rk), ref_mul(&a, &a))
                }
                "negate" => {
                    let r = if form == 1 {
                        let mut x = ca.clone();
                        ev.negate_inplace(&mut x);
                        x
                    } else {
                        ev.negate_new(&ca)
                    };
                    (r, a.iter().map(|x| submod(&BigU::zero(), x)).collect())
                }
                "add_plain" => (forms!(add_plain_new, add_plain_inplace, add_plain, &pb), a.iter().zip(&b).map(|(x, y)| x.add(y).rem(&p)).collect()),
                "sub_plain" => (forms!(sub_plain_new, sub_plain_inplace, sub_plain, &pb), a.iter().zip(&b).map(|(x, y)| submod(x, y)).collect()),
                "multiply_plain" => (forms!(multiply_plain_new, multiply_plain_inplace, multiply_plain, &pb), ref_mul(&a, &b)),
                "mod_switch" => {
                    let r = match form {
                        0 => ev.mod_switch_to_next_new(&ca),
                        1 => {
                            let mut x = ca.clone();
                            ev.mod_switch_to_next_inplace(&mut x);
                            x
                        }
                        _ => {
                            let mut d = empty();
                            ev.mod_switch_to_next(&ca, &mut d);
                            d
                        }
                    };
                    (r, a.clone())
                }
                o => panic!("unknown rnsp op {o}"),
            };
            stage.set("decrypt");
            out.push((format!("{}(a,b) form {form}", c.op), decode(&kit.dec.decrypt_new(&res)), exp));
            out
        });
        match run {
            Ok(list) => {
                for (what, obs, exp) in list {
                    steps += 1;
                    if obs != exp {
                        let hx = |v: &[BigU]| v.iter().map(|x| x.to_hex()).collect::<Vec<_>>().join(",");
                        return CaseOut::fail(format!("{kp}:wrong"), format!("{what}: a=[{}] b=[{}] modulo P={} -> [{}]", hx(&a), hx(&b), p.to_hex(), hx(&exp)), format!("[{}]", hx(&obs)));
                    }
                }
            }
            Err(pn) => {
                let hx = |v: &[BigU]| v.iter().map(|x| x.to_hex()).collect::<Vec<_>>().join(",");
                // multiplication of a zero plaintext is refused by the library ("transparent" result): not a wrapper matter
                if c.op == "multiply_plain" && pn.contains("transparent") {
                    note(format!("rnsp: multiply_plain refusal: {}", panic_class(&pn)));
                    continue;
                }
                return CaseOut::fail(format!("{kp}:{}:panic:{}", stage.get(), panic_class(&pn)), format!("no panic for a=[{}] b=[{}] P={}", hx(&a), hx(&b), p.to_hex()), pn);
            }
        }
    }
    CaseOut::pass(steps > 0, h64(&(kp.as_str(), c.t.len(), c.partner, steps)), steps)
}


fn range(a: usize, b: usize) -> Vec<usize> {
    (a..=b).collect()
}

pub fn sections(cfg: &RunCfg) -> Vec<Box<dyn AnySection>> {
    let seed = cfg.seed;
    let thorough = cfg.thorough();
    let mut v: Vec<Box<dyn AnySection>> = vec![];
    let wrap = |s: Box<dyn AnySection>| -> Box<dyn AnySection> { Box::new(Observed { inner: s }) };

    // ---- cheetah ----
    {
        let q8 = chain(8, &[50, 50, 50]);
        let q16 = chain(16, &[50, 50, 50]);
        let q32 = chain(32, &[50, 50, 50]);
        let mut specs = vec![];
        if !thorough {
            specs.push((ParamSpec::new(Scheme::BFV, 8, q8.clone(), 1 << 20), range(1, 4)));
            specs.push((ParamSpec::new(Scheme::BFV, 16, q16.clone(), 65537), range(1, 4)));
            specs.push((ParamSpec::new(Scheme::BGV, 8, q8.clone(), 65537), range(1, 3)));
        } else {
            specs.push((ParamSpec::new(Scheme::BFV, 8, q8.clone(), 1 << 20), range(1, 17)));
            specs.push((ParamSpec::new(Scheme::BFV, 16, q16.clone(), 65537), range(1, 12)));
            specs.push((ParamSpec::new(Scheme::BFV, 32, q32.clone(), 1 << 20), range(1, 12)));
            specs.push((ParamSpec::new(Scheme::BGV, 8, q8.clone(), 65537), range(1, 9)));
            specs.push((ParamSpec::new(Scheme::BGV, 16, q16.clone(), 257), range(1, 6)));
            // spot checks at the sizes of the repository's unit tests (not part of the exhaustive claim)
            specs.push((ParamSpec::new(Scheme::BFV, 1024, chain(1024, &[60, 49, 60]), 1 << 20), vec![1, 17, 80]));
            specs.push((ParamSpec::new(Scheme::BFV, 4096, chain(4096, &[60, 49, 60]), 1 << 20), vec![4, 100]));
        }
        let bound = specs.iter().map(|(s, d)| format!("{} (m,r,n) in [1..{}]^3", s.label(), d.last().unwrap())).collect::<Vec<_>>().join("; ");
        let cases = cheetah_cases(&specs, 256, true);
        v.push(wrap(
            E1::new(
                "cheetah",
                &format!("{bound} (+3 zero-dimension shapes) x objective(3) x pack_lwe(2) x {{matmul, matmul_reverse, sum (CpAddPc only)}} x transport(2); fills: all unit pairs when m*r*r*n <= 256 (<= 64 with the Wire transport), dense+bias, all-(t-1)+bias; 4 encode_outputs inverses per (shape, objective[, pack])"),
                cases.into_iter(),
                move |c: &MCase| check_cheetah(c, seed),
            )
            .deadline(Duration::from_secs(60)),
        ));
    }
    // ---- bolt ----
    {
        let q = |n: usize| chain(n, &[55, 55, 55]);
        let mut specs = vec![];
        if !thorough {
            specs.push((ParamSpec::new(Scheme::BFV, 8, q(8), 17), range(1, 5), 256));
            specs.push((ParamSpec::new(Scheme::BFV, 16, q(16), 65537), vec![1, 2, 3, 9], 36));
            specs.push((ParamSpec::new(Scheme::BFV, 32, q(32), 193), vec![1, 3, 17], 9));
            specs.push((ParamSpec::new(Scheme::BGV, 8, q(8), 97), vec![1, 2, 5], 16));
        } else {
            specs.push((ParamSpec::new(Scheme::BFV, 8, q(8), 17), range(1, 9), 256));
            specs.push((ParamSpec::new(Scheme::BFV, 8, q(8), 65537), range(1, 5), 256));
            specs.push((ParamSpec::new(Scheme::BFV, 16, q(16), 65537), vec![1, 2, 3, 4, 5, 6, 8, 9, 17], 81));
            specs.push((ParamSpec::new(Scheme::BFV, 32, q(32), 193), vec![1, 2, 3, 4, 5, 16, 17, 33], 36));
            specs.push((ParamSpec::new(Scheme::BGV, 8, q(8), 97), range(1, 6), 256));
            specs.push((ParamSpec::new(Scheme::BGV, 16, q(16), 97), vec![1, 2, 3, 4, 9], 36));
        }
        let bound = specs.iter().map(|(s, d, cap)| format!("{} (m,r,n) in {:?}^3 (unit pairs when m*r*r*n <= {cap})", s.label(), d)).collect::<Vec<_>>().join("; ");
        let cases = bolt_cases(&specs);
        v.push(wrap(
            E1::new(
                "bolt",
                &format!("{bound} x {{MatmulBoltCp, MatmulBoltCcCr, MatmulBoltCcDc}} x transport(2); fills: unit pairs, dense+bias, all-(t-1)+bias; 3 encode/decode_outputs inverses per case"),
                cases.into_iter(),
                move |c: &BCase| check_bolt(c, seed),
            )
            .deadline(Duration::from_secs(120)),
        ));
    }
    // ---- conv2d ----
    {
        let q = |n: usize| chain(n, &[50, 50, 50]);
        let mut specs = vec![];
        if !thorough {
            let box6 = conv_shapes(2, 2, 6, 6, 3);
            specs.push((ParamSpec::new(Scheme::BFV, 8, q(8), 1 << 20), box6.clone(), 128, 24));
            specs.push((ParamSpec::new(Scheme::BFV, 16, q(16), 65537), box6.clone(), 32, 16));
            specs.push((ParamSpec::new(Scheme::BFV, 32, q(32), 1 << 20), box6, 0, 0));
            specs.push((ParamSpec::new(Scheme::BGV, 8, q(8), 65537), conv_shapes(2, 2, 4, 4, 2), 16, 0));
        } else {
            let box12 = conv_shapes(2, 2, 12, 12, 3);
            specs.push((ParamSpec::new(Scheme::BFV, 8, q(8), 1 << 20), conv_shapes(2, 2, 8, 8, 3), 256, 48));
            specs.push((ParamSpec::new(Scheme::BFV, 16, q(16), 65537), box12.clone(), 256, 48));
            specs.push((ParamSpec::new(Scheme::BFV, 32, q(32), 1 << 20), box12.clone(), 128, 32));
            specs.push((ParamSpec::new(Scheme::BFV, 64, chain(64, &[50, 50, 50]), 65537), box12, 64, 0));
            specs.push((ParamSpec::new(Scheme::BGV, 8, q(8), 65537), conv_shapes(2, 2, 6, 6, 3), 128, 24));
            specs.push((ParamSpec::new(Scheme::BGV, 16, q(16), 65537), conv_shapes(2, 2, 6, 6, 3), 64, 16));
            // spot checks at the sizes of the repository's unit tests (not part of the exhaustive claim)
            let big = vec![ConvShape { b: 1, ci: 3, co: 5, h: 16, w: 17, kh: 3, kw: 5 }, ConvShape { b: 4, ci: 3, co: 16, h: 32, w: 32, kh: 5, kw: 5 }, ConvShape { b: 1, ci: 1, co: 1, h: 40, w: 2, kh: 2, kw: 2 }];
            specs.push((ParamSpec::new(Scheme::BFV, 64, chain(64, &[50, 50, 50]), 1 << 20), big.clone(), 0, 0));
            specs.push((ParamSpec::new(Scheme::BFV, 4096, chain(4096, &[60, 49, 60]), 1 << 20), big, 0, 0));
        }
        let bound = specs
            .iter()
            .map(|(s, sh, pc, sc)| {
                let l = sh.iter().fold((0, 0, 0, 0, 0), |a, s| (a.0.max(s.b), a.1.max(s.ci), a.2.max(s.h), a.3.max(s.w), a.4.max(s.kh)));
                format!("{} batch<={} c_in,c_out<={} H<={} W<={} k<=min(image,{}) ({} shapes; unit pairs when |x|*|w| <= {pc}, one-sided units when |x|+|w| <= {sc})", s.label(), l.0, l.1, l.2, l.3, l.4, sh.len())
            })
            .collect::<Vec<_>>()
            .join("; ");
        let cases = conv_cases(&specs);
        v.push(wrap(
            E1::new(
                "conv2d",
                &format!("{bound} x objective(3) x {{conv2d, conv2d_reverse}} x transport(2); fills (unit fills with the Direct transport only): unit pairs / one-sided units, dense+bias, all-(t-1)+bias; 4 encode_outputs inverses per (shape, objective[, pack])"),
                cases.into_iter(),
                move |c: &VCase| check_conv(c, seed),
            )
            .deadline(Duration::from_secs(60)),
        ));
    }
    // ---- ckks ----
    {
        let q = |n: usize| chain(n, &[60, 40, 60]);
        let mut specs = vec![];
        if !thorough {
            specs.push((ParamSpec::new(Scheme::CKKS, 8, q(8), 0), 40u32, 3usize, conv_shapes(2, 2, 6, 3, 3)));
            specs.push((ParamSpec::new(Scheme::CKKS, 16, q(16), 0), 40, 3, conv_shapes(1, 2, 5, 5, 2)));
        } else {
            specs.push((ParamSpec::new(Scheme::CKKS, 8, q(8), 0), 40u32, 6usize, conv_shapes(2, 2, 6, 6, 3)));
            specs.push((ParamSpec::new(Scheme::CKKS, 16, q(16), 0), 40, 5, conv_shapes(2, 2, 6, 6, 3)));
            specs.push((ParamSpec::new(Scheme::CKKS, 32, q(32), 0), 40, 4, conv_shapes(2, 2, 8, 8, 3)));
        }
        let bound = specs.iter().map(|(s, ls, b, cv)| format!("{} scale 2^{ls}: matmul (m,r,n) in [1..{b}]^3 x pack(2), {} conv shapes", s.label(), cv.len())).collect::<Vec<_>>().join("; ");
        let cases = ckks_cases(&specs);
        v.push(wrap(
            E1::new(
                "ckks",
                &format!("{bound} x objective(3) x direction(2) x transport(2); pipeline of the unit tests (multiply, pack, rescale, bias, transport); fills dense / +-4 / first unit; error within the a-priori bound"),
                cases.into_iter(),
                move |c: &KCase| check_ckks(c, seed),
            )
            .deadline(Duration::from_secs(60)),
        ));
    }
    // ---- rnsp ----
    {
        // (scheme, N, plain moduli, batch encoding, every residue?)
        let mut sets: Vec<(Scheme, usize, Vec<u64>, bool, bool)> = vec![];
        let b30 = |n: usize, c: usize| primes_1_mod(2 * n as u64, 30, c);
        let b36 = |n: usize, c: usize| primes_1_mod(2 * n as u64, 36, c);
        sets.push((Scheme::BFV, 2, vec![5, 13], true, true));
        sets.push((Scheme::BGV, 2, vec![5, 13], true, true));
        sets.push((Scheme::BFV, 4, vec![17, 41], true, true));
        sets.push((Scheme::BFV, 2, vec![5, 13, 17], true, true));
        sets.push((Scheme::BFV, 4, vec![3, 5, 7], false, true));
        sets.push((Scheme::BFV, 4, vec![16, 9, 25], false, true));
        sets.push((Scheme::BFV, 8, b30(8, 3), true, false));
        sets.push((Scheme::BGV, 8, b30(8, 2), true, false));
        sets.push((Scheme::BFV, 8, b36(8, 2), true, false));
        sets.push((Scheme::BFV, 8, vec![1 << 20, 1_000_003, 999_999_937], false, false));
        if thorough {
            sets.push((Scheme::BGV, 4, vec![17, 41], true, true));
            sets.push((Scheme::BFV, 8, vec![17, 97], true, true));
            sets.push((Scheme::BGV, 2, vec![5, 13, 17], true, true));
            sets.push((Scheme::BFV, 4, vec![17, 41, 73], true, true));
            sets.push((Scheme::BGV, 4, vec![7, 11, 13], false, true));
            sets.push((Scheme::BGV, 8, b30(8, 3), true, false));
            sets.push((Scheme::BFV, 16, b30(16, 3), true, false));
        }
        let mut cases = vec![];
        let mut bound = vec![];
        for (scheme, n, t, batch, all) in sets {
            let p: u128 = if all { t.iter().map(|&x| x as u128).product() } else { 0 };
            let partners: Vec<u8> = if !all || p <= 128 { vec![0] } else if p > 5000 { vec![1, 3] } else { vec![1, 2, 3, 4, 5] };
            bound.push(format!("{scheme:?}/N{n}/t{t:?}/{}/{}", if batch { "batch" } else { "poly" }, if !all { "boundary set, all pairs".to_string() } else if p <= 128 { format!("all {p}^2 pairs") } else { format!("all {p} values x {} partner maps", partners.len()) }));
            for op in R_OPS {
                for &partner in &partners {
                    let mut c = RCase { scheme, n, q: chain(n, &[50, 50, 50]), t: t.clone(), batch, op: op.to_string(), partner, all, part: 0, parts: 1 };
                    let nv = rnsp_values(&c, &BigU::product(&t)).len();
                    let chunks = (if partner == 0 { nv * nv } else { nv } + n - 1) / n;
                    c.parts = (chunks + 63) / 64;
                    for part in 0..c.parts {
                        cases.push(RCase { part, ..c.clone() });
                    }
                }
            }
        }
        v.push(wrap(
            E1::new(
                "rnsp",
                &format!("{} x ops {:?} (new / inplace / destination forms in rotation, pk and symmetric encryption)", bound.join("; "), R_OPS),
                cases.into_iter(),
                move |c: &RCase| check_rnsp(c, seed),
            )
            .deadline(Duration::from_secs(120)),
        ));
    }
    v
}
