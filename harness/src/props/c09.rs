//! C09 — the NTT is the documented evaluation map, invertible, convolution-preserving.
//!
//! E1 sections:
//!  * `transform`   per (N, q): construction data (root minimal and primitive, table orders, 1/N), the N unit
//!                  vectors and a set of extreme vectors through the four transforms (exact / lazy, forward /
//!                  inverse) against the evaluation map written out by its definition
//!  * `full`        every vector of [0,q)^N, [0,2q)^N (inverse lazy domain), [0,4q)^N (forward lazy domain)
//!                  for tiny (N, q)
//!  * `convolution` dyadic products of transforms vs. the naive negacyclic product (all unit pairs, extreme
//!                  pairs, all residue pairs, all vector pairs for N = 2), negacyclic shifts / monomials
//!  * `wrappers`    the polysmallmod `_p` / `_ps` forms over several moduli and polynomials
//!  * `roots`       hook H3: every first random draw (and every second draw after a failing first one) gives
//!                  the same root — the minimal primitive 2N-th root found by brute force
//!  * `contexts`    two independently constructed contexts (different scripted entropy and draws) and a
//!                  direct `NTTTables::new` hold identical tables and transform identically
//!
//! Production-size sections (structured exhaustive families, O(N log N) reference `refmodel::ntt::fast_*`):
//!  * `big-tables`      `create_ntt_tables` over every count of 1..20 (.. 65) unsorted moduli at N = 2..8192 (2^15):
//!                      table i is the table of modulus i (root, table data), equals the direct construction and
//!                      transforms under modulus i
//!  * `big-lazy`        the documented input ranges of the four transforms at every N = 2..8192 (2^15): constants,
//!                      block-alternating vectors of every block size, one-hole / one-spike vectors, boundary
//!                      mixes, generic fills, and sums of two transforms left unreduced for every unit vector
//!  * `big-convolution` every monomial x dense operands through the transforms, every shift 0..2N, N = 64..8192
//!  * `big-wrappers`    the `wrappers` check over 1..10 moduli x 1..5 polynomials at N = 64..8192 and 1..20 (.. 65)
//!                      moduli at N = 4, 8, every NTT form compared with the reference transform
//!  * `big-contexts`    the `contexts` check on chains of 1..20 primes (N = 4, 8, 1024) and 7..17 primes at
//!                      N = 128..8192, including every level's Bsk tables

use crate::engine::*;
use crate::he::{self, ParamSpec, Scheme};
use crate::refmodel::bigu::*;
use crate::refmodel::ntt as rn;
use crate::refmodel::poly as rp;
use heathcliff::util::{self as hu, NTTTables};
use heathcliff::verif_hooks::{self as vh, polysmallmod as pm};
use heathcliff::Modulus;
use serde::{Deserialize, Serialize};
use std::collections::BTreeSet;

pub fn describe(rep: &Report) {
    rep.set_rule(
        "case = (log2 N, prime q ≡ 1 mod 2N, part); a part loops over its whole alphabet (a block of unit vectors x \
         coefficient classes x the four transforms; every vector of a tiny space; every first / second random draw). \
         traces_validated_against_impl = library calls compared with the definition-level reference. non-trivial = the \
         case compared at least one call (for lazy forms: the outcome class records the largest multiple of q seen in an \
         output, so that 'lazy' outputs really leave [0,q)).",
    );
    rep.assume("reference = evaluation a(psi^(2*brv(i)+1)) written out with a power table and u128 accumulators; cross-checked in every `tables` case with N <= 64 against refmodel::poly::naive_ntt / pmul (Horner evaluation, schoolbook product)");
    rep.assume("psi is required to be the minimal primitive 2N-th root: brute force over [1,q) for q < 2^20, minimum over the odd powers of an independently found element of order 2N above (cyclic unit group of a prime field)");
    rep.assume("documented ranges taken as: forward (lazy and exact) input [0,4q), lazy output [0,4q); inverse input [0,2q), lazy output [0,2q) (comments in ntt.rs, the final corrections of the exact forms, and the SEAL documentation the file is ported from); dyadic products on reduced operands");
    rep.assume("moduli per degree: the two smallest primes = 1 mod 2N and the largest one of 13, 20, 30, 40, 50, 59, 60, 61 bits; not all NTT-friendly primes");
    rep.assume("all-vectors enumeration only for tiny (N,q); beyond that unit vectors (linearity) + extreme vectors at the range maxima");
    rep.assume("composite moduli are outside the property's domain: observed, never judged");
    rep.assume("big-* sections: reference = refmodel::ntt::fast_ntt / fast_intt (textbook radix-2 cyclic FFT over Z_q plus the psi^k twist, every product fully reduced; compared with the by-definition transform for N <= 256 in the start-up self-test), closed forms for unit vectors (ntt_unit / intt_unit) and the index shift for monomial products; structured families instead of all vectors: linearity covers the unit vectors, the range extremes are driven by constants, block patterns of every block size, boundary mixes and unreduced sums");
    rep.assume("big-tables / big-wrappers moduli: distinct primes = 1 mod 2N of 61,30,60,40,59,50,45,35,55,25 bits taken round-robin (not sorted), big-contexts: 60,30,59,40,50,45,35,55,58,36 bits (user primes have at most 60 bits); a table 'belongs to its modulus' when root, both power tables with their quotients and 1/N are those computed for that modulus (NTTTables does not expose its modulus)");
    rep.assume("the scripted event 'all 100 draws of try_primitive_root fail' (probability 2^-100 with real randomness) is not enumerated");

    // composite moduli: observation only (the 'minimal root over the odd powers of a random root' is not unique there)
    for (k, q) in [(1usize, 85u64), (1, 221), (2, 1649), (1, 65)] {
        let mut roots: BTreeSet<u64> = BTreeSet::new();
        let mut refused = 0u64;
        let mut panics = 0u64;
        for r in 0..q {
            let mut script = vec![r];
            script.extend(2..100u64);
            let res = guard(|| {
                vh::set_nt_draws(Some(filler(q, 64)));
                let m = Modulus::new(q);
                vh::set_nt_draws(Some(script.clone()));
                NTTTables::new(k, &m).map(|t| t.root()).map_err(|e| e.to_string())
            });
            match res {
                Ok(Ok(root)) => {
                    roots.insert(root);
                }
                Ok(Err(_)) => refused += 1,
                Err(_) => panics += 1,
            }
        }
        vh::set_nt_draws(None);
        rep.observe(format!(
            "composite modulus q={q}, N={}: over all {q} first draws NTTTables::new returned {} distinct roots {:?}, refused {refused}, panicked {panics} (outside the domain of C09; see C13)",
            1 << k,
            roots.len(),
            roots.iter().take(8).collect::<Vec<_>>()
        ));
    }
}

// ------------------------------------------------------------------------------------------
// common helpers
// ------------------------------------------------------------------------------------------

/// deterministic filler for the number-theory draw script (so that no real randomness is consumed)
fn filler(tag: u64, len: usize) -> Vec<u64> {
    (0..len as u64).map(|i| h64(&(tag, i, "c09-draw"))).collect()
}

fn build(k: usize, q: u64, tag: u64) -> Result<(Modulus, NTTTables), String> {
    match guard(|| {
        vh::set_nt_draws(Some(filler(tag, 256)));
        let m = Modulus::new(q);
        let r = NTTTables::new(k, &m).map_err(|e| e.to_string());
        r.map(|t| (m, t))
    }) {
        Ok(Ok(x)) => Ok(x),
        Ok(Err(e)) => Err(format!("refused: {e}")),
        Err(p) => Err(format!("panic: {p}")),
    }
}

fn build_fail(sec: &str, k: usize, q: u64, e: &str) -> CaseOut {
    CaseOut::fail(
        format!("{sec}:construct:{}", if e.starts_with("panic") { format!("panic:{}", panic_class(e)) } else { "refused".to_string() }),
        format!("NTTTables::new({k}, {q}) succeeds (q prime, q = 1 mod {})", 2usize << k),
        e.to_string(),
    )
}

fn fmtv(v: &[u64]) -> String {
    if v.len() <= 16 {
        format!("{v:?}")
    } else {
        format!("[{} values, first {:?} .. last {:?}, h={:016x}]", v.len(), &v[..6], &v[v.len() - 3..], h64(v))
    }
}

fn first_diff(out: &[u64], reference: &[u64], q: u64, out_mult: u64) -> String {
    for (i, (&o, &r)) in out.iter().zip(reference).enumerate() {
        if o >= out_mult * q || o % q != r {
            return format!("index {i}: got {o} (= {} mod q, {}q+..), reference {r}; output {}", o % q, o / q, fmtv(out));
        }
    }
    "no difference".into()
}

fn quotient_of(x: u64, q: u64) -> u64 {
    (((x as u128) << 64) / q as u128) as u64
}

fn fingerprint(t: &NTTTables) -> u64 {
    let rp: Vec<(u64, u64)> = t.get_root_powers().iter().map(|o| (o.operand, o.quotient)).collect();
    let ip: Vec<(u64, u64)> = t.get_inv_root_powers().iter().map(|o| (o.operand, o.quotient)).collect();
    let d = t.inv_degree_modulo();
    h64(&(t.root(), rp, ip, d.operand, d.quotient, t.coeff_count(), t.coeff_count_power()))
}

#[derive(Clone, Copy, Debug, PartialEq, Eq)]
enum Fun {
    Fwd,
    FwdLazy,
    Inv,
    InvLazy,
}
const FUNS: [Fun; 4] = [Fun::Fwd, Fun::FwdLazy, Fun::Inv, Fun::InvLazy];

impl Fun {
    fn name(self) -> &'static str {
        match self {
            Fun::Fwd => "ntt_negacyclic_harvey",
            Fun::FwdLazy => "ntt_negacyclic_harvey_lazy",
            Fun::Inv => "inverse_ntt_negacyclic_harvey",
            Fun::InvLazy => "inverse_ntt_negacyclic_harvey_lazy",
        }
    }
    fn forward(self) -> bool {
        matches!(self, Fun::Fwd | Fun::FwdLazy)
    }
    /// documented input range [0, in_mult*q)
    fn in_mult(self) -> u64 {
        if self.forward() {
            4
        } else {
            2
        }
    }
    /// documented output range [0, out_mult*q)
    fn out_mult(self) -> u64 {
        match self {
            Fun::Fwd | Fun::Inv => 1,
            Fun::FwdLazy => 4,
            Fun::InvLazy => 2,
        }
    }
    fn apply(self, t: &NTTTables, v: &mut [u64]) {
        match self {
            Fun::Fwd => t.ntt_negacyclic_harvey(v),
            Fun::FwdLazy => t.ntt_negacyclic_harvey_lazy(v),
            Fun::Inv => t.inverse_ntt_negacyclic_harvey(v),
            Fun::InvLazy => t.inverse_ntt_negacyclic_harvey_lazy(v),
        }
    }
}

/// Runs transforms on the real tables and judges them; keeps the counters of one case.
struct Run<'a> {
    sec: &'static str,
    q: u64,
    t: &'a NTTTables,
    steps: u64,
    /// largest floor(output / q) seen in a lazy output
    lazy_top: u64,
}

impl<'a> Run<'a> {
    fn new(sec: &'static str, q: u64, t: &'a NTTTables) -> Self {
        Run { sec, q, t, steps: 0, lazy_top: 0 }
    }

    /// apply `f` to `input`, compare with `reference` (reduced values); returns the raw output
    fn tj(&mut self, f: Fun, class: &str, input: &[u64], reference: &[u64]) -> Result<Vec<u64>, CaseOut> {
        let mut v = input.to_vec();
        let (t, q) = (self.t, self.q);
        if let Err(p) = guard(|| f.apply(t, &mut v)) {
            return Err(CaseOut::fail(
                format!("{}:{}:{class}:panic:{}", self.sec, f.name(), panic_class(&p)),
                format!("N={} q={q} input {} (inside [0,{}q)) is transformed without panic", input.len(), fmtv(input), f.in_mult()),
                p,
            ));
        }
        self.steps += 1;
        let m = f.out_mult();
        let (range_bad, wrong);
        if m == 1 {
            wrong = v[..] != reference[..];
            range_bad = wrong && v.iter().any(|&x| x >= q);
        } else {
            let top = v.iter().copied().max().unwrap_or(0);
            range_bad = top >= m * q;
            self.lazy_top = self.lazy_top.max(top / q);
            // reduce by conditional subtractions (valid below 4q; anything above is out of range anyway)
            wrong = v.iter().zip(reference).any(|(&o, &r)| {
                let mut x = o;
                if x >= 2 * q {
                    x -= 2 * q;
                }
                if x >= q {
                    x -= q;
                }
                x != r && o % q != r
            });
        }
        if range_bad || wrong {
            let what = if wrong { "wrong" } else { "range" };
            return Err(CaseOut::fail(
                format!("{}:{}:{class}:{what}", self.sec, f.name()),
                format!(
                    "N={} q={q} input {}: output {} {}",
                    input.len(),
                    fmtv(input),
                    if m == 1 { "equal to".to_string() } else { format!("inside [0,{m}q) and congruent to") },
                    fmtv(reference)
                ),
                first_diff(&v, reference, q, m),
            ));
        }
        Ok(v)
    }
}

fn fold(r: Result<CaseOut, CaseOut>) -> CaseOut {
    match r {
        Ok(o) => o,
        Err(o) => o,
    }
}

/// moduli used for degree 2^k
fn moduli_for(k: usize) -> Vec<u64> {
    let two_n = 2u64 << k;
    let mut v = vec![];
    let mut x = two_n + 1;
    while v.len() < 2 {
        if is_prime_u64(x) {
            v.push(x);
        }
        x += two_n;
    }
    for bits in [13usize, 20, 30, 40, 50, 59, 60, 61] {
        if let Some(&p) = primes_1_mod(two_n, bits, 1).first() {
            v.push(p);
        }
    }
    v.sort();
    v.dedup();
    v
}

/// extreme vectors of [0, mult*q)^n
fn extreme_vectors(n: usize, q: u64, mult: u64, seed: u64) -> Vec<(&'static str, Vec<u64>)> {
    let r = mult * q;
    let top = r - 1;
    let mut v: Vec<(&'static str, Vec<u64>)> = vec![];
    let mut consts = vec![top, q - 1, 1];
    if mult > 1 {
        consts.extend([q, q + 1]);
    }
    if mult > 2 {
        consts.extend([2 * q - 1, 2 * q, 2 * q + 1, 3 * q]);
    }
    consts.sort();
    consts.dedup();
    for c in consts {
        v.push(("const", vec![c; n]));
    }
    v.push(("alt", (0..n).map(|i| if i % 2 == 0 { top } else { 0 }).collect()));
    v.push(("alt", (0..n).map(|i| if i % 2 == 1 { top } else { 0 }).collect()));
    v.push(("half", (0..n).map(|i| if i < n / 2 { top } else { 0 }).collect()));
    v.push(("half", (0..n).map(|i| if i >= n / 2 { top } else { 0 }).collect()));
    v.push(("ramp", (0..n).map(|i| ((i as u128 * top as u128) / (n as u128 - 1).max(1)) as u64).collect()));
    v.push(("generic", (0..n).map(|i| h64(&(seed, i as u64, q, "c09-fill")) % r).collect()));
    v.push(("neartop", (0..n).map(|i| top - h64(&(seed, i as u64, q, "c09-fill2")) % q.min(1 << 20)).collect()));
    v
}

// ------------------------------------------------------------------------------------------
// section `transform`
// ------------------------------------------------------------------------------------------

#[derive(Serialize, Deserialize, Clone, Debug)]
pub enum TPart {
    /// construction data of the tables
    Tables,
    /// unit vectors X^j, j in lo..hi
    Units { lo: usize, hi: usize },
    /// unit vectors X^j for j in {0..3, 2^i - 1, 2^i, 2^i + 1, N-2, N-1} (large N only)
    UnitsSparse,
    /// extreme vectors
    Extremes,
}

#[derive(Serialize, Deserialize, Clone, Debug)]
pub struct TCase {
    pub k: usize,
    pub q: u64,
    pub part: TPart,
}

fn check_transform(c: &TCase, seed: u64) -> CaseOut {
    let tag = h64(&(seed, c.k as u64, c.q, "transform"));
    he::env_real(seed, tag);
    let (k, q) = (c.k, c.q);
    let n = 1usize << k;
    if !is_prime_u64(q) || (q - 1) % (2 * n as u64) != 0 {
        return CaseOut::skip("modulus not a prime = 1 mod 2N");
    }
    let (m, t) = match build(k, q, tag) {
        Ok(x) => x,
        Err(e) => return build_fail("transform", k, q, &e),
    };
    let out = fold(match &c.part {
        TPart::Tables => tables_part(k, q, &m, &t, tag, seed),
        TPart::Units { lo, hi } => units_part(k, q, &t, (*lo..(*hi).min(n)).collect()),
        TPart::UnitsSparse => {
            let mut js: Vec<usize> = vec![0, 1, 2, 3, n - 2, n - 1];
            for i in 1..k {
                js.extend([(1 << i) - 1, 1 << i, (1 << i) + 1]);
            }
            js.retain(|&j| j < n);
            js.sort();
            js.dedup();
            units_part(k, q, &t, js)
        }
        TPart::Extremes => extremes_part(k, q, &t, seed),
    });
    vh::set_nt_draws(None);
    out
}

fn expected_root(n: usize, q: u64) -> u64 {
    let fast = rn::min_primitive_root_2n_cyclic(n, q).expect("prime q = 1 mod 2N has a primitive 2N-th root");
    if q < (1 << 20) {
        let brute = rp::min_primitive_root_2n(n, q).expect("brute force finds a primitive root");
        assert_eq!(brute, fast, "reference inconsistent: brute-force minimal root vs. minimum over odd powers (N={n}, q={q})");
    }
    fast
}

fn tables_part(k: usize, q: u64, m: &Modulus, t: &NTTTables, tag: u64, seed: u64) -> Result<CaseOut, CaseOut> {
    let n = 1usize << k;
    let mut steps = 0u64;
    let psi = t.root();
    let exp = expected_root(n, q);
    steps += 1;
    if psi != exp {
        return Err(CaseOut::fail(
            "transform:root:not-minimal",
            format!("N={n} q={q}: root() = {exp} (smallest x with x^N = -1)"),
            format!("{psi} (x^N = {})", pow_mod(psi, n as u64, q)),
        ));
    }
    if t.coeff_count() != n || t.coeff_count_power() != k {
        return Err(CaseOut::fail("transform:tables:size", format!("coeff_count={n} power={k}"), format!("coeff_count={} power={}", t.coeff_count(), t.coeff_count_power())));
    }
    // table orders
    let ptab = rn::power_table(psi, n, q);
    let (rpw, ipw) = (t.get_root_powers(), t.get_inv_root_powers());
    if rpw.len() != n || ipw.len() != n {
        return Err(CaseOut::fail("transform:tables:size", format!("tables of length {n}"), format!("{} / {}", rpw.len(), ipw.len())));
    }
    for i in 0..n {
        let slot = rp::bit_reverse(i, k as u32);
        let e = ptab[i];
        steps += 1;
        if rpw[slot].operand != e || rpw[slot].quotient != quotient_of(e, q) {
            return Err(CaseOut::fail(
                "transform:tables:root_powers",
                format!("N={n} q={q} psi={psi}: root_powers[brv({i})={slot}] = (psi^{i} = {e}, floor(2^64*{e}/q) = {})", quotient_of(e, q)),
                format!("({}, {})", rpw[slot].operand, rpw[slot].quotient),
            ));
        }
        // i-th slot of the inverse table stores the (brv(i-1)+1)-th power of psi^-1; slot 0 stores 1
        let (islot, ie) = if i == 0 { (0, 1 % q) } else { (i, ptab[2 * n - (rp::bit_reverse(i - 1, k as u32) + 1)]) };
        if ipw[islot].operand != ie || ipw[islot].quotient != quotient_of(ie, q) {
            return Err(CaseOut::fail(
                "transform:tables:inv_root_powers",
                format!("N={n} q={q} psi={psi}: inv_root_powers[{islot}] = psi^-(brv({islot}-1)+1) = {ie} with quotient {}", quotient_of(ie, q)),
                format!("({}, {})", ipw[islot].operand, ipw[islot].quotient),
            ));
        }
    }
    let ninv = inv_mod_u64(n as u64 % q, q).unwrap();
    let d = t.inv_degree_modulo();
    steps += 1;
    if d.operand != ninv || d.quotient != quotient_of(ninv, q) {
        return Err(CaseOut::fail("transform:tables:inv_degree", format!("N^-1 mod {q} = {ninv}, quotient {}", quotient_of(ninv, q)), format!("({}, {})", d.operand, d.quotient)));
    }
    // an independently constructed second table (different draws) and create_ntt_tables
    let fp = fingerprint(t);
    let second = guard(|| {
        vh::set_nt_draws(Some(filler(tag ^ 0x5EC0_4D, 256)));
        let m2 = Modulus::new(q);
        let a = NTTTables::new(k, &m2).map(|x| fingerprint(&x)).map_err(|e| e.to_string());
        let b = NTTTables::create_ntt_tables(k, &[m2, *m]).map(|v| v.iter().map(fingerprint).collect::<Vec<_>>());
        (a, b)
    });
    steps += 2;
    match second {
        Ok((Ok(a), Ok(b))) if a == fp && b == vec![fp, fp] => {}
        other => {
            return Err(CaseOut::fail(
                "transform:tables:second-construction-differs",
                format!("N={n} q={q}: NTTTables::new / create_ntt_tables under other random draws give identical tables (fingerprint {fp:016x})"),
                format!("{other:?}"),
            ))
        }
    }
    // a degree the modulus does not support must be refused
    let mut kk = k + 1;
    while (q - 1) % (2u64 << kk) == 0 {
        kk += 1;
    }
    if kk <= 17 {
        steps += 1;
        match guard(|| NTTTables::new(kk, m).map(|x| x.root()).map_err(|e| e.to_string())) {
            Ok(Err(_)) => {}
            Ok(Ok(r)) => {
                return Err(CaseOut::fail(
                    "transform:construct:accepts-unsupported-degree",
                    format!("NTTTables::new({kk}, {q}) is refused: 2^{} does not divide q-1, no primitive root exists", kk + 1),
                    format!("Ok, root {r}"),
                ))
            }
            Err(p) => {
                return Err(CaseOut::fail(format!("transform:construct:unsupported-degree:panic:{}", panic_class(&p)), "Err(..) for an unsupported degree", p));
            }
        }
    }
    // reference self-consistency (definition with accumulators vs. Horner evaluation / schoolbook product)
    if n <= 64 {
        for (_, a) in extreme_vectors(n, q, 1, seed) {
            let d1 = rn::ntt_by_definition(&a, &ptab, q);
            assert_eq!(d1, rp::naive_ntt(&a, psi, q), "reference inconsistent: ntt_by_definition vs naive_ntt (N={n}, q={q})");
            assert_eq!(rn::intt_by_definition(&d1, &ptab, q), a, "reference inconsistent: intt_by_definition does not invert (N={n}, q={q})");
            let b: Vec<u64> = a.iter().rev().map(|&x| (x + 1) % q).collect();
            assert_eq!(rn::negacyclic_mul(&a, &b, q), rp::pmul(&a, &b, q), "reference inconsistent: negacyclic_mul vs pmul (N={n}, q={q})");
            for j in [0, n / 2, n - 1] {
                let mut u = vec![0u64; n];
                u[j] = q - 1;
                assert_eq!(rn::ntt_unit(j, q - 1, n, &ptab, q), rp::naive_ntt(&u, psi, q), "reference inconsistent: ntt_unit");
                assert_eq!(rn::intt_unit(j, q - 1, n, &ptab, q), rn::intt_by_definition(&u, &ptab, q), "reference inconsistent: intt_unit");
            }
        }
    }
    Ok(CaseOut::pass(true, h64(&("tables", k, 64 - q.leading_zeros())), steps))
}

fn units_part(k: usize, q: u64, t: &NTTTables, js: Vec<usize>) -> Result<CaseOut, CaseOut> {
    let n = 1usize << k;
    let psi = t.root();
    if pow_mod(psi, n as u64, q) != q - 1 {
        return Err(CaseOut::fail("transform:root:not-primitive", format!("root()^N = -1 mod {q}"), format!("root {psi}")));
    }
    let ptab = rn::power_table(psi, n, q);
    let ninv = inv_mod_u64(n as u64 % q, q).unwrap();
    let ptab_n: Vec<u64> = ptab.iter().map(|&p| mul_mod(p, ninv, q)).collect();
    let mut run = Run::new("transform", q, t);
    for j in js {
        for (c, class) in [(1u64, "unit"), (q - 1, "unit"), (4 * q - 1, "unit-lazymax"), (2 * q - 1, "unit-lazymax")] {
            // from N = 4096 on the coefficient -1 is exercised through its lazy representatives 4q-1 / 2q-1 only
            if k >= 12 && c == q - 1 {
                continue;
            }
            let mut x = vec![0u64; n];
            x[j] = c;
            for f in FUNS {
                if c >= f.in_mult() * q || (c == 2 * q - 1 && f.forward()) {
                    continue;
                }
                // c = +-1 mod q: the image of c*X^j is a column of powers (forward) / of N^-1-scaled inverse powers, up to sign
                let tab = if f.forward() { &ptab } else { &ptab_n };
                let neg = c % q == q - 1;
                let reference: Vec<u64> = (0..n)
                    .map(|i| {
                        let e = ((2 * rp::bit_reverse(if f.forward() { i } else { j }, k as u32) + 1) * if f.forward() { j } else { i }) & (2 * n - 1);
                        let p = tab[if f.forward() { e } else { (2 * n - e) & (2 * n - 1) }];
                        if neg && p != 0 {
                            q - p
                        } else {
                            p
                        }
                    })
                    .collect();
                if n <= 32 || (j & (j + 1)) == 0 {
                    // tie the lookup form to the refmodel functions
                    let slow = if f.forward() { rn::ntt_unit(j, c, n, &ptab, q) } else { rn::intt_unit(j, c, n, &ptab, q) };
                    assert_eq!(reference, slow, "reference inconsistent: unit image by lookup vs refmodel::ntt (N={n}, q={q}, j={j})");
                }
                let out = run.tj(f, class, &x, &reference)?;
                // round trips on the dense image
                if c < q {
                    match f {
                        Fun::Fwd => {
                            run.tj(Fun::Inv, "roundtrip-fwd-inv", &out, &x)?;
                        }
                        Fun::InvLazy => {
                            run.tj(Fun::Fwd, "roundtrip-invlazy-fwd", &out, &x)?;
                        }
                        _ => {}
                    }
                }
            }
        }
    }
    Ok(CaseOut::pass(run.steps > 0 && run.lazy_top >= 2, h64(&("units", k, 64 - q.leading_zeros(), run.lazy_top)), run.steps))
}

fn extremes_part(k: usize, q: u64, t: &NTTTables, seed: u64) -> Result<CaseOut, CaseOut> {
    let n = 1usize << k;
    let psi = t.root();
    if pow_mod(psi, n as u64, q) != q - 1 {
        return Err(CaseOut::fail("transform:root:not-primitive", format!("root()^N = -1 mod {q}"), format!("root {psi}")));
    }
    let ptab = rn::power_table(psi, n, q);
    let mut run = Run::new("transform", q, t);
    for mult in [1u64, 2, 4] {
        for (class, x) in extreme_vectors(n, q, mult, seed) {
            let class = if mult == 1 { class.to_string() } else { format!("{class}-lazy{mult}q") };
            let fref = rn::ntt_by_definition(&x, &ptab, q);
            let iref = if mult <= 2 { rn::intt_by_definition(&x, &ptab, q) } else { vec![] };
            for f in FUNS {
                if mult > f.in_mult() || (mult == 2 && f.forward()) {
                    // mult == 2 vectors are a subset class of the 4q range for the forward forms: covered by mult == 4
                    continue;
                }
                let reference = if f.forward() { &fref } else { &iref };
                let out = run.tj(f, &class, &x, reference)?;
                let xr: Vec<u64> = x.iter().map(|&v| v % q).collect();
                match f {
                    Fun::Fwd => {
                        run.tj(Fun::Inv, "roundtrip-fwd-inv", &out, &xr)?;
                        run.tj(Fun::InvLazy, "roundtrip-fwd-invlazy", &out, &xr)?;
                    }
                    Fun::Inv => {
                        run.tj(Fun::Fwd, "roundtrip-inv-fwd", &out, &xr)?;
                    }
                    Fun::InvLazy => {
                        // a lazy inverse output is a legal input of both forward forms
                        run.tj(Fun::Fwd, "roundtrip-invlazy-fwd", &out, &xr)?;
                        run.tj(Fun::FwdLazy, "roundtrip-invlazy-fwdlazy", &out, &xr)?;
                    }
                    Fun::FwdLazy => {}
                }
            }
        }
    }
    Ok(CaseOut::pass(run.steps > 0 && run.lazy_top >= 2, h64(&("extremes", k, 64 - q.leading_zeros(), run.lazy_top)), run.steps))
}

// ------------------------------------------------------------------------------------------
// section `full`: every vector of a tiny space
// ------------------------------------------------------------------------------------------

#[derive(Serialize, Deserialize, Clone, Debug)]
pub struct FCase {
    pub k: usize,
    pub q: u64,
    /// coordinates lie in [0, mult*q): 1 = all transforms + round trips, 2 = inverse forms, 4 = forward forms
    pub mult: u64,
    /// values a coordinate takes (empty = every value of [0, mult*q))
    #[serde(default)]
    pub alphabet: Vec<u64>,
    /// leading coordinates fixed by this case
    pub prefix: Vec<u64>,
}

fn matvec(mat: &[Vec<u64>], x: &[u64], q: u64) -> Vec<u64> {
    // entries and coordinates below 2^61, at most 32 terms: the u128 sum cannot overflow
    mat.iter().map(|row| (row.iter().zip(x).map(|(&a, &b)| a as u128 * b as u128).sum::<u128>() % q as u128) as u64).collect()
}

fn check_full(c: &FCase, seed: u64) -> CaseOut {
    let tag = h64(&(seed, c.k as u64, c.q, "full"));
    he::env_real(seed, tag);
    let (k, q, mult) = (c.k, c.q, c.mult);
    let n = 1usize << k;
    if !is_prime_u64(q) || (q - 1) % (2 * n as u64) != 0 || c.prefix.len() > n || n > 32 || (c.alphabet.is_empty() && q >= 1 << 12) {
        return CaseOut::skip("not a prime = 1 mod 2N / space not tiny");
    }
    let (_m, t) = match build(k, q, tag) {
        Ok(x) => x,
        Err(e) => return build_fail("full", k, q, &e),
    };
    let out = fold((|| -> Result<CaseOut, CaseOut> {
        let psi = t.root();
        if psi != expected_root(n, q) {
            return Err(CaseOut::fail("full:root:not-minimal", format!("N={n} q={q}: root {}", expected_root(n, q)), format!("{psi}")));
        }
        let ptab = rn::power_table(psi, n, q);
        let ninv = inv_mod_u64(n as u64 % q, q).unwrap();
        let bits = k as u32;
        let mask = 2 * n - 1;
        // forward matrix F[i][j] = psi^((2brv(i)+1) j), inverse matrix G[j][i] = N^-1 psi^(-(2brv(i)+1) j)
        let fmat: Vec<Vec<u64>> = (0..n).map(|i| (0..n).map(|j| ptab[((2 * rp::bit_reverse(i, bits) + 1) * j) & mask]).collect()).collect();
        let gmat: Vec<Vec<u64>> = (0..n)
            .map(|j| (0..n).map(|i| mul_mod(ninv, ptab[(2 * n - (((2 * rp::bit_reverse(i, bits) + 1) * j) & mask)) & mask], q)).collect())
            .collect();
        let r = mult * q;
        let alpha: Vec<u64> = if c.alphabet.is_empty() { (0..r).collect() } else { c.alphabet.clone() };
        let free = n - c.prefix.len();
        let mut x: Vec<u64> = c.prefix.clone();
        x.resize(n, alpha[0]);
        if x.iter().chain(alpha.iter()).any(|&v| v >= r) {
            return Ok(CaseOut::skip("prefix / alphabet outside the range"));
        }
        let mut idx = vec![0usize; n];
        let mut run = Run::new("full", q, &t);
        let class = if c.alphabet.is_empty() { format!("all-vectors-{mult}q") } else { format!("alphabet-vectors-{mult}q") };
        loop {
            let xr: Vec<u64> = x.iter().map(|&v| v % q).collect();
            if mult != 2 {
                let fref = matvec(&fmat, &xr, q);
                let out = run.tj(Fun::Fwd, &class, &x, &fref)?;
                run.tj(Fun::FwdLazy, &class, &x, &fref)?;
                if mult == 1 {
                    run.tj(Fun::Inv, "all-vectors-roundtrip", &out, &x)?;
                }
            }
            if mult != 4 {
                let iref = matvec(&gmat, &xr, q);
                run.tj(Fun::Inv, &class, &x, &iref)?;
                let lz = run.tj(Fun::InvLazy, &class, &x, &iref)?;
                if mult == 1 {
                    run.tj(Fun::Fwd, "all-vectors-roundtrip", &lz, &x)?;
                }
            }
            // odometer over the free coordinates (last coordinate fastest)
            let mut pos = n;
            loop {
                if pos == n - free {
                    // non-trivial: the lazy outputs really used the upper part of their range
                    let nontrivial = run.lazy_top >= if mult == 4 { 2 } else { 1 };
                    return Ok(CaseOut::pass(nontrivial, h64(&("full", k, 64 - q.leading_zeros(), mult, run.lazy_top)), run.steps));
                }
                pos -= 1;
                idx[pos] += 1;
                if idx[pos] < alpha.len() {
                    x[pos] = alpha[idx[pos]];
                    break;
                }
                idx[pos] = 0;
                x[pos] = alpha[0];
            }
        }
    })());
    vh::set_nt_draws(None);
    out
}

fn full_cases(thorough: bool) -> Vec<FCase> {
    // (k, q, mult, alphabet)
    let mut spaces: Vec<(usize, u64, u64, Vec<u64>)> = vec![];
    // N = 2: every prime = 1 mod 4 below 128 (256 thorough), all three ranges
    for q in (5..if thorough { 256u64 } else { 128 }).filter(|&q| q % 4 == 1 && is_prime_u64(q)) {
        for mult in [1, 2, 4] {
            spaces.push((1, q, mult, vec![]));
        }
    }
    for (q, mult) in [(17u64, 1u64), (17, 2), (17, 4), (41, 1)] {
        spaces.push((2, q, mult, vec![]));
    }
    if thorough {
        spaces.extend([(2, 41, 2, vec![]), (2, 73, 1, vec![])]);
    }
    // boundary alphabets for every modulus of the `transform` list (incl. 61 bits):
    // {0, 1, q-1, q, R-1}^N for N <= 4 (8 thorough), {0, 1, R-1}^N for N = 8, {0, R-1}^N for N = 16
    for k in 1..=4usize {
        for q in moduli_for(k) {
            for mult in [1u64, 2, 4] {
                let top = mult * q - 1;
                let mut a = match k {
                    1 | 2 => vec![0, 1, q - 1, q, top],
                    3 => {
                        if thorough {
                            vec![0, 1, q - 1, q, top]
                        } else {
                            vec![0, 1, top]
                        }
                    }
                    _ => vec![0, top],
                };
                a.retain(|&x| x <= top);
                a.sort();
                a.dedup();
                spaces.push((k, q, mult, a));
            }
        }
    }
    let mut v = vec![];
    for (k, q, mult, alphabet) in spaces {
        let n = 1usize << k;
        let vals: Vec<u64> = if alphabet.is_empty() { (0..mult * q).collect() } else { alphabet.clone() };
        let r = vals.len() as f64;
        // fix leading coordinates until the remaining space has at most 2^20 vectors
        let mut plen = 0;
        while r.powi((n - plen) as i32) > (1u64 << 20) as f64 {
            plen += 1;
        }
        let mut prefixes: Vec<Vec<u64>> = vec![vec![]];
        for _ in 0..plen {
            prefixes = prefixes.iter().flat_map(|p| vals.iter().map(move |&x| p.iter().copied().chain([x]).collect())).collect();
        }
        for prefix in prefixes {
            v.push(FCase { k, q, mult, alphabet: alphabet.clone(), prefix });
        }
    }
    v
}

// ------------------------------------------------------------------------------------------
// section `convolution`
// ------------------------------------------------------------------------------------------

#[derive(Serialize, Deserialize, Clone, Debug)]
pub enum CPart {
    /// X^i * X^j for i in lo..hi, all j, coefficients in {1, q-1}
    UnitPairs { lo: usize, hi: usize },
    /// extreme / generic operand pairs
    Extremes,
    /// negacyclic_shift / negacyclic_multiply_mononomial against X^s * a
    Shifts,
    /// dyadic product on all residue pairs (q < 2^9) or boundary residues
    Residues,
    /// all pairs of vectors (N = 2, tiny q); first operand's coordinate 0 fixed
    AllPairs { a0: u64 },
}

#[derive(Serialize, Deserialize, Clone, Debug)]
pub struct CCase {
    pub k: usize,
    pub q: u64,
    pub part: CPart,
}

/// all single-modulus forms of the dyadic product must agree; returns the common value
fn dyadic_all(sec: &str, a: &[u64], b: &[u64], m: &Modulus, steps: &mut u64) -> Result<Vec<u64>, CaseOut> {
    let n = a.len();
    let r = guard(|| {
        let mut r1 = vec![0xDEADu64; n];
        pm::dyadic_product(a, b, m, &mut r1);
        let mut r2 = a.to_vec();
        pm::dyadic_product_inplace(&mut r2, b, m);
        let mut r3 = vec![0xDEADu64; n];
        pm::dyadic_product_p(a, b, n, std::slice::from_ref(m), &mut r3);
        let mut r4 = a.to_vec();
        pm::dyadic_product_inplace_ps(&mut r4, b, 1, n, std::slice::from_ref(m));
        (r1, r2, r3, r4)
    });
    *steps += 4;
    match r {
        Err(p) => Err(CaseOut::fail(format!("{sec}:dyadic_product:panic:{}", panic_class(&p)), format!("no panic for reduced operands {} , {}", fmtv(a), fmtv(b)), p)),
        Ok((r1, r2, r3, r4)) => {
            if r1 != r2 || r1 != r3 || r1 != r4 {
                return Err(CaseOut::fail(
                    format!("{sec}:dyadic_product:forms-differ"),
                    format!("dyadic_product, _inplace, _p, _inplace_ps agree on {} , {}", fmtv(a), fmtv(b)),
                    format!("{} / {} / {} / {}", fmtv(&r1), fmtv(&r2), fmtv(&r3), fmtv(&r4)),
                ));
            }
            Ok(r1)
        }
    }
}

/// NTT-domain product of a and b through the library, compared with `expected` (coefficient form)
fn conv_check(run: &mut Run, m: &Modulus, class: &str, a: &[u64], fa: &[u64], b: &[u64], fb: &[u64], expected: &[u64]) -> Result<(), CaseOut> {
    let q = run.q;
    let sec = run.sec;
    let mut steps = 0;
    let prod = dyadic_all(sec, fa, fb, m, &mut steps)?;
    run.steps += steps;
    if prod.iter().zip(fa.iter().zip(fb)).any(|(&p, (&x, &y))| p != mul_mod(x, y, q)) {
        return Err(CaseOut::fail(
            format!("{sec}:dyadic_product:wrong"),
            format!("pointwise products modulo {q} of {} and {}", fmtv(fa), fmtv(fb)),
            fmtv(&prod),
        ));
    }
    let mut r = prod.clone();
    let t = run.t;
    if let Err(p) = guard(|| t.inverse_ntt_negacyclic_harvey(&mut r)) {
        return Err(CaseOut::fail(format!("{sec}:inverse:{class}:panic:{}", panic_class(&p)), "no panic", p));
    }
    run.steps += 1;
    if r != expected {
        return Err(CaseOut::fail(
            format!("{sec}:{class}:wrong"),
            format!("N={} q={q}: intt(ntt(a) . ntt(b)) = a*b mod (X^N+1) = {} for a={} b={}", a.len(), fmtv(expected), fmtv(a), fmtv(b)),
            fmtv(&r),
        ));
    }
    Ok(())
}

fn check_convolution(c: &CCase, seed: u64) -> CaseOut {
    let tag = h64(&(seed, c.k as u64, c.q, "convolution"));
    he::env_real(seed, tag);
    let (k, q) = (c.k, c.q);
    let n = 1usize << k;
    if !is_prime_u64(q) || (q - 1) % (2 * n as u64) != 0 {
        return CaseOut::skip("modulus not a prime = 1 mod 2N");
    }
    let (m, t) = match build(k, q, tag) {
        Ok(x) => x,
        Err(e) => return build_fail("convolution", k, q, &e),
    };
    let out = fold((|| -> Result<CaseOut, CaseOut> {
        let psi = t.root();
        if psi != expected_root(n, q) {
            return Err(CaseOut::fail("convolution:root:not-minimal", format!("N={n} q={q}: root {}", expected_root(n, q)), format!("{psi}")));
        }
        let ptab = rn::power_table(psi, n, q);
        let mut run = Run::new("convolution", q, &t);
        match &c.part {
            CPart::UnitPairs { lo, hi } => {
                // library transforms of every c*X^j (each also compared with the definition)
                let mut fw: Vec<[Vec<u64>; 2]> = Vec::with_capacity(n);
                for j in 0..n {
                    let mut pair: [Vec<u64>; 2] = [vec![], vec![]];
                    for (ci, cf) in [1u64, q - 1].into_iter().enumerate() {
                        let mut x = vec![0u64; n];
                        x[j] = cf;
                        pair[ci] = run.tj(Fun::Fwd, "unit", &x, &rn::ntt_unit(j, cf, n, &ptab, q))?;
                    }
                    fw.push(pair);
                }
                for i in *lo..(*hi).min(n) {
                    for j in 0..n {
                        for (ci, cj) in [(0usize, 0usize), (1, 1), (0, 1)] {
                            let (ca, cb) = ([1u64, q - 1][ci], [1u64, q - 1][cj]);
                            let mut a = vec![0u64; n];
                            a[i] = ca;
                            let mut b = vec![0u64; n];
                            b[j] = cb;
                            // X^i * X^j = +-X^(i+j mod N)
                            let mut e = vec![0u64; n];
                            let coef = mul_mod(ca, cb, q);
                            if i + j < n {
                                e[i + j] = coef;
                            } else {
                                e[i + j - n] = neg_mod(coef, q);
                            }
                            if n <= 16 {
                                assert_eq!(e, rp::pmul(&a, &b, q), "reference inconsistent: unit product");
                            }
                            conv_check(&mut run, &m, "unit-pair", &a, &fw[i][ci], &b, &fw[j][cj], &e)?;
                        }
                    }
                }
            }
            CPart::Extremes => {
                let vs = extreme_vectors(n, q, 1, seed);
                let mut fs = vec![];
                for (class, x) in &vs {
                    fs.push(run.tj(Fun::Fwd, class, x, &rn::ntt_by_definition(x, &ptab, q))?);
                }
                // every extreme vector with itself, with the all-(q-1) vector and with the generic one
                let pick: Vec<usize> = vs.iter().enumerate().filter(|(_, (cl, v))| *cl == "generic" || (*cl == "const" && v[0] == q - 1)).map(|(i, _)| i).collect();
                for i in 0..vs.len() {
                    let mut partners = pick.clone();
                    partners.push(i);
                    partners.sort();
                    partners.dedup();
                    for &j in &partners {
                        let e = rn::negacyclic_mul(&vs[i].1, &vs[j].1, q);
                        conv_check(&mut run, &m, "extreme-pair", &vs[i].1, &fs[i], &vs[j].1, &fs[j], &e)?;
                        // and the transform of the reference product is the pointwise product
                        let fe = run.tj(Fun::Fwd, "product", &e, &rn::ntt_by_definition(&e, &ptab, q))?;
                        let pw: Vec<u64> = fs[i].iter().zip(&fs[j]).map(|(&x, &y)| mul_mod(x, y, q)).collect();
                        if fe != pw {
                            return Err(CaseOut::fail("convolution:homomorphism:wrong", format!("ntt(a*b) = ntt(a).ntt(b) = {}", fmtv(&pw)), fmtv(&fe)));
                        }
                    }
                }
            }
            CPart::Shifts => {
                let vs = extreme_vectors(n, q, 1, seed);
                let shifts: Vec<usize> = if n <= 64 { (0..2 * n).collect() } else { vec![0, 1, 2, n / 2, n - 1, n, n + 1, n + n / 2, 2 * n - 1] };
                let mut units: Vec<(&'static str, Vec<u64>)> = vec![];
                for j in if n <= 64 { (0..n).collect::<Vec<_>>() } else { vec![0, 1, n / 2, n - 1] } {
                    let mut u = vec![0u64; n];
                    u[j] = 1;
                    units.push(("unit", u));
                }
                for (_, a) in vs.iter().chain(units.iter()) {
                    let fa = if n <= 64 { Some(run.tj(Fun::Fwd, "operand", a, &rn::ntt_by_definition(a, &ptab, q))?) } else { None };
                    for &s in &shifts {
                        let e = rp::pshift(a, s, q);
                        let r = guard(|| {
                            let mut r1 = vec![0xDEADu64; n];
                            pm::negacyclic_shift(a, s, &m, &mut r1);
                            let mut r2 = vec![0xDEADu64; n];
                            pm::negacyclic_shift_p(a, s, n, std::slice::from_ref(&m), &mut r2);
                            let mut r3 = vec![0xDEADu64; n];
                            pm::negacyclic_shift_ps(a, s, 1, n, std::slice::from_ref(&m), &mut r3);
                            (r1, r2, r3)
                        });
                        run.steps += 3;
                        match r {
                            Err(p) => return Err(CaseOut::fail(format!("convolution:negacyclic_shift:panic:{}", panic_class(&p)), format!("X^{s} * {} without panic", fmtv(a)), p)),
                            Ok((r1, r2, r3)) => {
                                if r1 != e || r2 != e || r3 != e {
                                    return Err(CaseOut::fail(
                                        "convolution:negacyclic_shift:wrong",
                                        format!("N={n} q={q}: X^{s} * {} = {}", fmtv(a), fmtv(&e)),
                                        format!("{} / _p {} / _ps {}", fmtv(&r1), fmtv(&r2), fmtv(&r3)),
                                    ));
                                }
                            }
                        }
                        // monomial products c*X^s*a, c in {1, q-1, generic}
                        for coef in [1u64, q - 1, h64(&(seed, s as u64, "mono")) % q] {
                            let e2 = rp::pscale(&e, coef, q);
                            let r = guard(|| {
                                let mut r1 = vec![0xDEADu64; n];
                                pm::negacyclic_multiply_mononomial(a, coef, s, &m, &mut r1);
                                let mut r2 = a.to_vec();
                                pm::negacyclic_multiply_mononomial_inplace(&mut r2, coef, s, &m);
                                let mut r3 = vec![0xDEADu64; n];
                                pm::negacyclic_multiply_mononomials_p(a, &[coef], s, n, std::slice::from_ref(&m), &mut r3);
                                (r1, r2, r3)
                            });
                            run.steps += 3;
                            match r {
                                Err(p) => return Err(CaseOut::fail(format!("convolution:mononomial:panic:{}", panic_class(&p)), format!("{coef}*X^{s} * {} without panic", fmtv(a)), p)),
                                Ok((r1, r2, r3)) => {
                                    if r1 != e2 || r2 != e2 || r3 != e2 {
                                        return Err(CaseOut::fail(
                                            "convolution:mononomial:wrong",
                                            format!("N={n} q={q}: {coef}*X^{s} * {} = {}", fmtv(a), fmtv(&e2)),
                                            format!("{} / inplace {} / mononomials_p {}", fmtv(&r1), fmtv(&r2), fmtv(&r3)),
                                        ));
                                    }
                                }
                            }
                        }
                        // the same shift in the NTT domain
                        if let Some(fa) = &fa {
                            if s < n {
                                let mut xs = vec![0u64; n];
                                xs[s] = 1;
                                let fx = run.tj(Fun::Fwd, "unit", &xs, &rn::ntt_unit(s, 1, n, &ptab, q))?;
                                conv_check(&mut run, &m, "shift-as-product", a, fa, &xs, &fx, &e)?;
                            }
                        }
                    }
                }
            }
            CPart::Residues => {
                let vals: Vec<u64> = if q < 512 {
                    (0..q).collect()
                } else {
                    let mut v = vec![0, 1, 2, 3, q / 2 - 1, q / 2, q / 2 + 1, q - 3, q - 2, q - 1, (1u64 << 32).min(q - 1), ((1u64 << 32) - 1).min(q - 1), q / 3, 2 * (q / 3)];
                    v.extend((0..50u64).map(|i| h64(&(seed, i, q, "res")) % q));
                    v.sort();
                    v.dedup();
                    v
                };
                for &x in &vals {
                    let a = vec![x; vals.len()];
                    let mut steps = 0;
                    let r = dyadic_all("convolution", &a, &vals, &m, &mut steps)?;
                    run.steps += steps;
                    for (i, &y) in vals.iter().enumerate() {
                        if r[i] != mul_mod(x, y, q) {
                            return Err(CaseOut::fail("convolution:dyadic_product:wrong", format!("{x}*{y} mod {q} = {}", mul_mod(x, y, q)), format!("{}", r[i])));
                        }
                    }
                }
            }
            CPart::AllPairs { a0 } => {
                if n != 2 || q > 64 || *a0 >= q {
                    return Ok(CaseOut::skip("all-pairs only for N = 2, q < 64"));
                }
                // library transforms of all q^2 vectors
                let mut fw: Vec<Vec<u64>> = Vec::with_capacity((q * q) as usize);
                for x0 in 0..q {
                    for x1 in 0..q {
                        let x = [x0, x1];
                        fw.push(run.tj(Fun::Fwd, "all-vectors-1q", &x, &rn::ntt_by_definition(&x, &ptab, q))?);
                    }
                }
                for a1 in 0..q {
                    let a = [*a0, a1];
                    for b0 in 0..q {
                        for b1 in 0..q {
                            let b = [b0, b1];
                            let e = rp::pmul(&a, &b, q);
                            conv_check(&mut run, &m, "all-pairs", &a, &fw[(*a0 * q + a1) as usize], &b, &fw[(b0 * q + b1) as usize], &e)?;
                        }
                    }
                }
            }
        }
        Ok(CaseOut::pass(run.steps > 0, h64(&("conv", k, 64 - q.leading_zeros(), std::mem::discriminant(&c.part))), run.steps))
    })());
    vh::set_nt_draws(None);
    out
}

// ------------------------------------------------------------------------------------------
// section `wrappers`: _p / _ps forms
// ------------------------------------------------------------------------------------------

#[derive(Serialize, Deserialize, Clone, Debug)]
pub struct WCase {
    pub k: usize,
    pub qs: Vec<u64>,
    pub pcount: usize,
}

fn check_wrappers(c: &WCase, seed: u64) -> CaseOut {
    check_wrappers_in("wrappers", c, seed)
}

/// `sec` = section name used as key prefix (`wrappers`, `big-wrappers`)
fn check_wrappers_in(sec: &'static str, c: &WCase, seed: u64) -> CaseOut {
    let tag = h64(&(seed, c.k as u64, &c.qs, c.pcount as u64, "wrappers"));
    he::env_real(seed, tag);
    let k = c.k;
    let n = 1usize << k;
    if c.qs.is_empty() || c.pcount == 0 || c.qs.iter().any(|&q| !is_prime_u64(q) || (q - 1) % (2 * n as u64) != 0) {
        return CaseOut::skip("moduli not primes = 1 mod 2N");
    }
    let mut ms = vec![];
    let mut ts = vec![];
    for &q in &c.qs {
        match build(k, q, tag) {
            Ok((m, t)) => {
                ms.push(m);
                ts.push(t);
            }
            Err(e) => return build_fail(sec, k, q, &e),
        }
    }
    let l = c.qs.len();
    let total = c.pcount * l * n;
    let comp_q = |ci: usize| c.qs[ci % l];
    let out = fold((|| -> Result<CaseOut, CaseOut> {
        let mut steps = 0u64;
        // operand arrays: component ci (polynomial ci / l, modulus ci % l) filled inside [0, mult*q)
        let fill = |mult: u64, salt: &str| -> Vec<u64> {
            (0..total)
                .map(|idx| {
                    let (ci, i) = (idx / n, idx % n);
                    let r = mult * comp_q(ci);
                    match (ci + i) % 5 {
                        0 => r - 1,
                        1 => 0,
                        _ => h64(&(seed, idx as u64, salt)) % r,
                    }
                })
                .collect()
        };
        type PsFn = fn(&mut [u64], usize, usize, &[NTTTables]);
        type PFn = fn(&mut [u64], usize, &[NTTTables]);
        type CFn = fn(&mut [u64], &NTTTables);
        let forms: [(Fun, PsFn, PFn, CFn); 4] = [
            (Fun::Fwd, pm::ntt_ps, pm::ntt_p, pm::ntt),
            (Fun::FwdLazy, pm::ntt_lazy_ps, pm::ntt_lazy_p, pm::ntt_lazy),
            (Fun::Inv, pm::intt_ps, pm::intt_p, pm::intt),
            (Fun::InvLazy, pm::intt_lazy_ps, pm::intt_lazy_p, pm::intt_lazy),
        ];
        for (f, ps, p, cf) in forms {
            for mult in [1, f.in_mult()] {
                let x = fill(mult, f.name());
                // direct method per component
                let mut direct = x.clone();
                for ci in 0..c.pcount * l {
                    let t = &ts[ci % l];
                    let sl = &mut direct[ci * n..(ci + 1) * n];
                    guard(|| f.apply(t, sl)).map_err(|pn| CaseOut::fail(format!("{sec}:{}:panic:{}", f.name(), panic_class(&pn)), "no panic for operands in range", pn))?;
                }
                // against the definition (moderate N); the sections that name another prefix (`big-wrappers`) use the
                // O(N log N) reference transform above that (for `wrappers` itself larger N is covered by `transform`)
                if n <= 256 || sec != "wrappers" {
                    for ci in 0..c.pcount * l {
                        let q = comp_q(ci);
                        let psi = ts[ci % l].root();
                        let xin = &x[ci * n..(ci + 1) * n];
                        let reference = if n <= 256 {
                            let ptab = rn::power_table(psi, n, q);
                            if f.forward() {
                                rn::ntt_by_definition(xin, &ptab, q)
                            } else {
                                rn::intt_by_definition(xin, &ptab, q)
                            }
                        } else if f.forward() {
                            rn::fast_ntt(xin, psi, q)
                        } else {
                            rn::fast_intt(xin, psi, q)
                        };
                        let o = &direct[ci * n..(ci + 1) * n];
                        if o.iter().zip(&reference).any(|(&a, &b)| a >= f.out_mult() * q || a % q != b) {
                            return Err(CaseOut::fail(
                                format!("{sec}:{}:wrong", f.name()),
                                format!("N={n} q={q} input {} -> {}", fmtv(xin), fmtv(&reference)),
                                first_diff(o, &reference, q, f.out_mult()),
                            ));
                        }
                    }
                }
                let r = guard(|| {
                    let mut a = x.clone();
                    ps(&mut a, c.pcount, n, &ts);
                    let mut b = x.clone();
                    for pi in 0..c.pcount {
                        p(&mut b[pi * l * n..(pi + 1) * l * n], n, &ts);
                    }
                    let mut d = x.clone();
                    for ci in 0..c.pcount * l {
                        cf(&mut d[ci * n..(ci + 1) * n], &ts[ci % l]);
                    }
                    (a, b, d)
                });
                steps += 3;
                match r {
                    Err(pn) => return Err(CaseOut::fail(format!("{sec}:{}:forms:panic:{}", f.name(), panic_class(&pn)), format!("_ps/_p/component forms on {} polynomials x {} moduli without panic", c.pcount, l), pn)),
                    Ok((a, b, d)) => {
                        for (form, o) in [("_ps", &a), ("_p", &b), ("component", &d)] {
                            if *o != direct {
                                let at = o.iter().zip(&direct).position(|(x, y)| x != y).unwrap();
                                return Err(CaseOut::fail(
                                    format!("{sec}:{}:{form}:differs", f.name()),
                                    format!("polysmallmod {form} form of {} equals the NTTTables method on every component ({} polynomials x moduli {:?}, N={n})", f.name(), c.pcount, c.qs),
                                    format!("first difference at flat index {at} (component {}, coefficient {}): {} vs {}", at / n, at % n, o[at], direct[at]),
                                ));
                            }
                        }
                    }
                }
            }
        }
        // dyadic product, shift, monomial: _p / _ps against the component form
        let x = fill(1, "dy-a");
        let y = fill(1, "dy-b");
        let shift = (h64(&(seed, tag, "shift")) % (2 * n as u64)) as usize;
        let coeffs: Vec<u64> = (0..l).map(|i| h64(&(seed, i as u64, "mono-c")) % c.qs[i]).collect();
        let r = guard(|| {
            let mut comp = vec![vec![0u64; total]; 4];
            for ci in 0..c.pcount * l {
                let (lo, hi) = (ci * n, (ci + 1) * n);
                let m = &ms[ci % l];
                let (c0, rest) = comp.split_at_mut(1);
                pm::dyadic_product(&x[lo..hi], &y[lo..hi], m, &mut c0[0][lo..hi]);
                pm::negacyclic_shift(&x[lo..hi], shift, m, &mut rest[0][lo..hi]);
                pm::negacyclic_multiply_mononomial(&x[lo..hi], coeffs[0], shift, m, &mut rest[1][lo..hi]);
                pm::negacyclic_multiply_mononomial(&x[lo..hi], coeffs[ci % l], shift, m, &mut rest[2][lo..hi]);
            }
            let mut outs: Vec<(&'static str, usize, Vec<u64>)> = vec![];
            let mut o = vec![0xDEADu64; total];
            pm::dyadic_product_ps(&x, &y, c.pcount, n, &ms, &mut o);
            outs.push(("dyadic_product_ps", 0, o));
            let mut o = x.clone();
            pm::dyadic_product_inplace_ps(&mut o, &y, c.pcount, n, &ms);
            outs.push(("dyadic_product_inplace_ps", 0, o));
            let mut o = x.clone();
            for pi in 0..c.pcount {
                let (lo, hi) = (pi * l * n, (pi + 1) * l * n);
                pm::dyadic_product_inplace_p(&mut o[lo..hi], &y[lo..hi], n, &ms);
            }
            outs.push(("dyadic_product_inplace_p", 0, o));
            let mut o = vec![0xDEADu64; total];
            for pi in 0..c.pcount {
                let (lo, hi) = (pi * l * n, (pi + 1) * l * n);
                pm::dyadic_product_p(&x[lo..hi], &y[lo..hi], n, &ms, &mut o[lo..hi]);
            }
            outs.push(("dyadic_product_p", 0, o));
            let mut o = vec![0xDEADu64; total];
            pm::negacyclic_shift_ps(&x, shift, c.pcount, n, &ms, &mut o);
            outs.push(("negacyclic_shift_ps", 1, o));
            let mut o = vec![0xDEADu64; total];
            pm::negacyclic_multiply_mononomial_ps(&x, coeffs[0], shift, c.pcount, n, &ms, &mut o);
            outs.push(("negacyclic_multiply_mononomial_ps", 2, o));
            let mut o = x.clone();
            pm::negacyclic_multiply_mononomial_inplace_ps(&mut o, coeffs[0], shift, c.pcount, n, &ms);
            outs.push(("negacyclic_multiply_mononomial_inplace_ps", 2, o));
            let mut o = vec![0xDEADu64; total];
            pm::negacyclic_multiply_mononomials_ps(&x, &coeffs, shift, c.pcount, n, &ms, &mut o);
            outs.push(("negacyclic_multiply_mononomials_ps", 3, o));
            let mut o = x.clone();
            pm::negacyclic_multiply_mononomials_inplace_ps(&mut o, &coeffs, shift, c.pcount, n, &ms);
            outs.push(("negacyclic_multiply_mononomials_inplace_ps", 3, o));
            (comp, outs)
        });
        match r {
            Err(pn) => return Err(CaseOut::fail(format!("{sec}:pointwise:panic:{}", panic_class(&pn)), "no panic for reduced operands", pn)),
            Ok((comp, outs)) => {
                // component forms against the reference
                for ci in 0..c.pcount * l {
                    let (lo, hi) = (ci * n, (ci + 1) * n);
                    let q = comp_q(ci);
                    let e0: Vec<u64> = x[lo..hi].iter().zip(&y[lo..hi]).map(|(&a, &b)| mul_mod(a, b, q)).collect();
                    let e1 = rp::pshift(&x[lo..hi], shift, q);
                    let e2 = rp::pscale(&e1, coeffs[0] % q, q);
                    let e3 = rp::pscale(&e1, coeffs[ci % l], q);
                    for (name, e, o) in [("dyadic_product", &e0, &comp[0][lo..hi]), ("negacyclic_shift", &e1, &comp[1][lo..hi]), ("negacyclic_multiply_mononomial", &e2, &comp[2][lo..hi]), ("negacyclic_multiply_mononomial", &e3, &comp[3][lo..hi])] {
                        steps += 1;
                        if o != &e[..] {
                            return Err(CaseOut::fail(format!("{sec}:{name}:wrong"), format!("N={n} q={q} shift={shift}: {}", fmtv(e)), fmtv(o)));
                        }
                    }
                }
                for (name, which, o) in outs {
                    steps += 1;
                    if o != comp[which] {
                        let at = o.iter().zip(&comp[which]).position(|(x, y)| x != y).unwrap();
                        return Err(CaseOut::fail(
                            format!("{sec}:{name}:differs"),
                            format!("{name} equals the component form on every component ({} polynomials x moduli {:?}, N={n}, shift {shift})", c.pcount, c.qs),
                            format!("first difference at flat index {at} (component {}, coefficient {}): {} vs {}", at / n, at % n, o[at], comp[which][at]),
                        ));
                    }
                }
            }
        }
        Ok(CaseOut::pass(true, h64(&("wrappers", k, l, c.pcount)), steps))
    })());
    vh::set_nt_draws(None);
    out
}

// ------------------------------------------------------------------------------------------
// section `roots`: determinism of the root under every random draw
// ------------------------------------------------------------------------------------------

#[derive(Serialize, Deserialize, Clone, Debug)]
pub struct RCase {
    pub k: usize,
    pub q: u64,
    /// first draws lo..hi
    pub lo: u64,
    pub hi: u64,
    /// false: every first draw; true: for every failing first draw in lo..hi every second draw in [0,q)
    pub pairs: bool,
}

fn check_roots(c: &RCase, seed: u64) -> CaseOut {
    let tag = h64(&(seed, c.k as u64, c.q, "roots"));
    he::env_real(seed, tag);
    let (k, q) = (c.k, c.q);
    let n = 1usize << k;
    if !is_prime_u64(q) || (q - 1) % (2 * n as u64) != 0 || q >= 1 << 20 {
        return CaseOut::skip("modulus not a small prime = 1 mod 2N");
    }
    let m = match guard(|| {
        vh::set_nt_draws(Some(filler(tag, 64)));
        Modulus::new(q)
    }) {
        Ok(m) => m,
        Err(p) => return CaseOut::fail(format!("roots:modulus:panic:{}", panic_class(&p)), format!("Modulus::new({q})"), p),
    };
    let expected = expected_root(n, q);
    let e = (q - 1) / (2 * n as u64);
    // reference: the draw d yields the candidate d^e; it is accepted iff candidate^N = -1
    let cand = |d: u64| pow_mod(d % q, e, q);
    let accepted = |d: u64| d % q != 0 && pow_mod(cand(d), n as u64, q) == q - 1;
    let pad: Vec<u64> = (2..100u64).collect();
    let mut steps = 0u64;
    let mut max_draws = 0usize;
    let mut fails = 0u64;

    let mut one = |script_head: &[u64]| -> Result<(), CaseOut> {
        let mut script = script_head.to_vec();
        script.extend_from_slice(&pad);
        let used = script.iter().position(|&d| accepted(d)).map(|p| p + 1);
        let Some(used) = used else {
            return Ok(()); // no draw of the script succeeds: not enumerated (see assumptions)
        };
        let first_ok = script[used - 1];
        // (a) the table constructor
        let s1 = script.clone();
        let r = guard(|| {
            vh::set_nt_draws(Some(s1));
            let r = NTTTables::new(k, &m).map(|t| (t.root(), t.get_root_powers().get(n / 2).map(|o| o.operand).unwrap_or(0))).map_err(|e| e.to_string());
            (r, vh::nt_draw_log())
        });
        steps += 1;
        match r {
            Err(p) => return Err(CaseOut::fail(format!("roots:construct:panic:{}", panic_class(&p)), format!("N={n} q={q} draws {:?}..: NTTTables::new succeeds", &script[..2]), p)),
            Ok((Err(e), _)) => return Err(CaseOut::fail("roots:construct:refused", format!("N={n} q={q} draws {:?}..: NTTTables::new succeeds", &script[..2]), e)),
            Ok((Ok((root, psi1)), log)) => {
                if log.len() != used || log[..] != script[..used] {
                    return Err(CaseOut::fail(
                        "roots:draw-script-not-followed",
                        format!("N={n} q={q}: try_primitive_root consumes exactly the draws {:?} (the first accepted one is {first_ok})", &script[..used]),
                        format!("{log:?}"),
                    ));
                }
                if root != expected || psi1 != expected {
                    return Err(CaseOut::fail(
                        "roots:root-depends-on-draw",
                        format!("N={n} q={q}: root() = {expected} (minimal primitive 2N-th root) whatever the random draws; draws {:?}", &script[..used]),
                        format!("root() = {root}, root_powers[N/2] = {psi1}"),
                    ));
                }
            }
        }
        // (b) the two number-theory routines themselves
        let s2 = script.clone();
        let r = guard(|| {
            vh::set_nt_draws(Some(s2.clone()));
            let mut any = 0u64;
            let ok_any = hu::try_primitive_root(2 * n as u64, &m, &mut any);
            vh::set_nt_draws(Some(s2));
            let mut min = 0u64;
            let ok_min = hu::try_minimal_primitive_root(2 * n as u64, &m, &mut min);
            (ok_any, any, ok_min, min, hu::is_primitive_root(any, 2 * n as u64, &m))
        });
        steps += 2;
        match r {
            Err(p) => return Err(CaseOut::fail(format!("roots:try_primitive_root:panic:{}", panic_class(&p)), "no panic", p)),
            Ok((ok_any, any, ok_min, min, isp)) => {
                if !ok_any || any != cand(first_ok) || !isp {
                    return Err(CaseOut::fail(
                        "roots:try_primitive_root:wrong",
                        format!("N={n} q={q} draws {:?}: true, {} = {first_ok}^((q-1)/2N), primitive", &script[..used], cand(first_ok)),
                        format!("{ok_any}, {any}, is_primitive_root={isp}"),
                    ));
                }
                if !ok_min || min != expected {
                    return Err(CaseOut::fail(
                        "roots:try_minimal_primitive_root:wrong",
                        format!("N={n} q={q} draws {:?}: true, {expected}", &script[..used]),
                        format!("{ok_min}, {min}"),
                    ));
                }
            }
        }
        max_draws = max_draws.max(used);
        Ok(())
    };

    let res = (|| -> Result<(), CaseOut> {
        for r1 in c.lo..c.hi.min(q) {
            if !c.pairs {
                one(&[r1])?;
                if !accepted(r1) {
                    fails += 1;
                }
            } else if !accepted(r1) {
                fails += 1;
                for r2 in 0..q {
                    one(&[r1, r2])?;
                }
            }
        }
        if !c.pairs && c.lo == 0 {
            // raw draws above the modulus (the routine reduces them)
            for raw in [q, q + 1, 2 * q - 1, 2 * q + 3, 1 << 63, u64::MAX, u64::MAX - q, u64::MAX - 1] {
                one(&[raw])?;
            }
        }
        Ok(())
    })();
    vh::set_nt_draws(None);
    match res {
        Err(o) => o,
        Ok(()) => CaseOut::pass(steps > 0, h64(&("roots", k, c.pairs, max_draws, fails > 0)), steps),
    }
}

// ------------------------------------------------------------------------------------------
// section `contexts`
// ------------------------------------------------------------------------------------------

#[derive(Serialize, Deserialize, Clone, Debug)]
pub struct XCase {
    pub spec: ParamSpec,
}

/// (level, modulus value, table fingerprint, transform of a fixed vector) for every table of a context
fn context_tables(spec: &ParamSpec, bsk: bool, seed: u64, tag: u64, probe_seed: u64) -> Result<Vec<(String, u64, u64, u64, u64)>, String> {
    guard(|| {
        he::env_real(seed, tag);
        vh::set_nt_draws(Some(filler(tag, 1 << 14)));
        let ctx = spec.context();
        if !ctx.parameters_set() {
            return Err("parameters not set".to_string());
        }
        let mut out = vec![];
        let mut level = ctx.key_context_data();
        let mut first = true;
        while let Some(cd) = level {
            let name = if first { "key".to_string() } else { format!("chain{}", cd.chain_index()) };
            let mods: Vec<u64> = cd.parms().coeff_modulus().iter().map(|m| m.value()).collect();
            let mut tabs: Vec<(String, u64, &NTTTables)> = cd.small_ntt_tables().iter().zip(&mods).enumerate().map(|(i, (t, &q))| (format!("{name}/q{i}"), q, t)).collect();
            if spec.scheme != Scheme::CKKS && cd.qualifiers().using_batching {
                tabs.push((format!("{name}/plain"), spec.t, cd.plain_ntt_tables()));
            }
            if bsk {
                let tool = cd.verif_rns_tool();
                let base: Vec<u64> = tool.base_Bsk().base().iter().map(|m| m.value()).collect();
                let bt = tool.base_Bsk_ntt_tables();
                if bt.len() != base.len() {
                    return Err(format!("{name}: {} Bsk tables for a base of {} moduli", bt.len(), base.len()));
                }
                for (i, (t, &q)) in bt.iter().zip(&base).enumerate() {
                    tabs.push((format!("{name}/Bsk{i}"), q, t));
                }
            }
            if cd.small_ntt_tables().len() != mods.len() {
                return Err(format!("{name}: {} coefficient tables for {} moduli", cd.small_ntt_tables().len(), mods.len()));
            }
            for (nm, q, t) in tabs {
                let n = t.coeff_count();
                if is_prime_u64(q) && pow_mod(t.root(), n as u64, q) != q - 1 {
                    return Err(format!("{nm}: table does not belong to its modulus: root() = {} is not a primitive 2N-th root of unity modulo {q}", t.root()));
                }
                let x: Vec<u64> = (0..n as u64).map(|i| h64(&(probe_seed, i, q)) % q).collect();
                let mut y = x.clone();
                t.ntt_negacyclic_harvey(&mut y);
                let mut z = y.clone();
                t.inverse_ntt_negacyclic_harvey(&mut z);
                if z != x {
                    return Err(format!("{nm}: round trip of a generic vector fails"));
                }
                out.push((nm, q, t.root(), fingerprint(t), h64(&y)));
            }
            level = if first { ctx.first_context_data() } else { cd.next_context_data() };
            first = false;
        }
        Ok(out)
    })
    .unwrap_or_else(|p| Err(format!("panic: {p}")))
}

fn check_contexts(c: &XCase, seed: u64) -> CaseOut {
    check_contexts_in("contexts", false, c, seed)
}

/// `sec` = section name used as key prefix; `bsk` = also the NTT tables of every level's auxiliary base Bsk (hook H5)
fn check_contexts_in(sec: &'static str, bsk: bool, c: &XCase, seed: u64) -> CaseOut {
    let tag = h64(&(seed, &c.spec, "contexts"));
    let n = c.spec.n;
    let k = n.trailing_zeros() as usize;
    let a = context_tables(&c.spec, bsk, seed, tag, seed);
    let b = context_tables(&c.spec, bsk, seed ^ 0xABCD_EF01, tag.rotate_left(17) ^ 0x1234_5678, seed);
    vh::set_nt_draws(None);
    let (a, b) = match (a, b) {
        (Ok(a), Ok(b)) => (a, b),
        (Err(e), Err(_)) if e == "parameters not set" => return CaseOut::skip("parameter set rejected by the library"),
        (a, b) => {
            let msg = format!("{:?} / {:?}", a.as_ref().err(), b.as_ref().err());
            return CaseOut::fail(
                format!(
                    "{sec}:{}",
                    if msg.contains("panic") {
                        format!("construct:panic:{}", panic_class(&msg))
                    } else if msg.contains("does not belong") {
                        "table-of-another-modulus".to_string()
                    } else if msg.contains("round trip") {
                        "roundtrip:wrong".to_string()
                    } else {
                        "construct:differs".into()
                    }
                ),
                format!("{}: both constructions succeed, every table belongs to its modulus and intt(ntt(x)) = x on every table", c.spec.label()),
                msg,
            );
        }
    };
    let mut steps = 0u64;
    if a != b {
        let at = a.iter().zip(&b).position(|(x, y)| x != y);
        return CaseOut::fail(
            format!("{sec}:tables-differ"),
            format!("{}: two independently constructed contexts hold identical NTT tables and transform identically", c.spec.label()),
            format!("first difference: {:?} vs {:?} (counts {} / {})", at.map(|i| &a[i]), at.map(|i| &b[i]), a.len(), b.len()),
        );
    }
    for (nm, q, root, fp, img) in &a {
        steps += 2;
        if !is_prime_u64(*q) {
            continue; // composite (plain) modulus: outside the domain
        }
        let exp = expected_root(n, *q);
        if *root != exp {
            return CaseOut::fail(format!("{sec}:root:not-minimal"), format!("{} {nm} q={q}: root {exp}", c.spec.label()), format!("{root}"));
        }
        // a directly constructed table is the same object
        match build(k, *q, tag ^ 0x77) {
            Err(e) => return build_fail(sec, k, *q, &e),
            Ok((_, t)) => {
                let x: Vec<u64> = (0..n as u64).map(|i| h64(&(seed, i, *q)) % *q).collect();
                let mut y = x.clone();
                let _ = guard(|| t.ntt_negacyclic_harvey(&mut y));
                if fingerprint(&t) != *fp || h64(&y) != *img {
                    return CaseOut::fail(
                        format!("{sec}:direct-table-differs"),
                        format!("{} {nm} q={q}: NTTTables::new gives the context's table and the same transform", c.spec.label()),
                        format!("fingerprints {:016x} vs {fp:016x}, images {:016x} vs {img:016x}", fingerprint(&t), h64(&y)),
                    );
                }
            }
        }
    }
    vh::set_nt_draws(None);
    CaseOut::pass(true, h64(&("contexts", a.len(), k)), steps)
}

// ------------------------------------------------------------------------------------------
// production-size sections (`big-*`): every dimension the transforms, the wrappers and the table constructors loop
// over is driven across 8 / 16 / 64 / 128 / ... / 8192 with structured exhaustive families and the O(N log N)
// reference transform of refmodel::ntt (a textbook cyclic FFT plus twist, validated against the definition in the
// start-up self-test)
// ------------------------------------------------------------------------------------------

/// `count` distinct primes = 1 mod 2N of the given sizes taken round-robin (deliberately NOT sorted: neighbours in the
/// list differ by up to 36 bits, so that a table handed out for the wrong list position cannot go unnoticed)
fn mixed_moduli(k: usize, count: usize, sizes: &[usize]) -> Vec<u64> {
    let two_n = 2u64 << k;
    let rounds = (count + sizes.len() - 1) / sizes.len();
    let lists: Vec<Vec<u64>> = sizes.iter().map(|&b| primes_1_mod(two_n, b, rounds)).collect();
    let mut v = vec![];
    for r in 0..rounds {
        for l in &lists {
            if let Some(&p) = l.get(r) {
                if !v.contains(&p) {
                    v.push(p);
                }
            }
        }
    }
    assert!(v.len() >= count, "not enough primes = 1 mod {two_n} for a list of {count}");
    v.truncate(count);
    v
}

/// moduli of the direct (NTTTables) sections: 25..61 bits
fn many_moduli(k: usize, count: usize) -> Vec<u64> {
    mixed_moduli(k, count, &[61, 30, 60, 40, 59, 50, 45, 35, 55, 25])
}

/// coefficient moduli of the context section: user primes have at most 60 bits (the 61-bit primes are the library's
/// own auxiliary primes)
fn many_ctx_moduli(k: usize, count: usize) -> Vec<u64> {
    mixed_moduli(k, count, &[60, 30, 59, 40, 50, 45, 35, 55, 58, 36])
}

/// root, both power tables (order and quotients) and 1/N of `t` are those of the modulus q; None = all fine
fn table_data_mismatch(t: &NTTTables, k: usize, q: u64) -> Option<(&'static str, String, String)> {
    let n = 1usize << k;
    if t.coeff_count() != n || t.coeff_count_power() != k || t.get_root_powers().len() != n || t.get_inv_root_powers().len() != n {
        return Some(("size", format!("coeff_count={n} power={k}, tables of length {n}"), format!("coeff_count={} power={} lengths {} / {}", t.coeff_count(), t.coeff_count_power(), t.get_root_powers().len(), t.get_inv_root_powers().len())));
    }
    let psi = t.root();
    let exp = expected_root(n, q);
    if psi != exp {
        return Some(("root", format!("root() = {exp}, the smallest x with x^N = -1 modulo {q}"), format!("{psi} (x^N = {} modulo {q})", pow_mod(psi % q, n as u64, q))));
    }
    let ptab = rn::power_table(psi, n, q);
    let (rpw, ipw) = (t.get_root_powers(), t.get_inv_root_powers());
    for i in 0..n {
        let slot = rp::bit_reverse(i, k as u32);
        let e = ptab[i];
        if rpw[slot].operand != e || rpw[slot].quotient != quotient_of(e, q) {
            return Some(("root_powers", format!("root_powers[brv({i})={slot}] = (psi^{i} = {e}, floor(2^64*{e}/{q}) = {})", quotient_of(e, q)), format!("({}, {})", rpw[slot].operand, rpw[slot].quotient)));
        }
        let (islot, ie) = if i == 0 { (0, 1 % q) } else { (i, ptab[2 * n - (rp::bit_reverse(i - 1, k as u32) + 1)]) };
        if ipw[islot].operand != ie || ipw[islot].quotient != quotient_of(ie, q) {
            return Some(("inv_root_powers", format!("inv_root_powers[{islot}] = psi^-(brv({islot}-1)+1) = {ie} with quotient {} modulo {q}", quotient_of(ie, q)), format!("({}, {})", ipw[islot].operand, ipw[islot].quotient)));
        }
    }
    let ninv = inv_mod_u64(n as u64 % q, q).unwrap();
    let d = t.inv_degree_modulo();
    if d.operand != ninv || d.quotient != quotient_of(ninv, q) {
        return Some(("inv_degree", format!("N^-1 mod {q} = {ninv}, quotient {}", quotient_of(ninv, q)), format!("({}, {})", d.operand, d.quotient)));
    }
    None
}

/// indices 0, 1, 2^i - 1, 2^i, 2^i + 1, N-2, N-1
fn sparse_indices(k: usize) -> Vec<usize> {
    let n = 1usize << k;
    let mut js: Vec<usize> = vec![0, 1, n.saturating_sub(2), n - 1];
    for i in 1..k {
        js.extend([(1 << i) - 1, 1 << i, (1 << i) + 1]);
    }
    js.retain(|&j| j < n);
    js.sort();
    js.dedup();
    js
}

// ---- section `big-tables`: create_ntt_tables over 1..20 (.. 65) moduli

#[derive(Serialize, Deserialize, Clone, Debug)]
pub struct BTCase {
    pub k: usize,
    pub qs: Vec<u64>,
}

fn check_bigtables(c: &BTCase, seed: u64) -> CaseOut {
    const SEC: &str = "big-tables";
    let tag = h64(&(seed, c.k as u64, &c.qs, SEC));
    he::env_real(seed, tag);
    let k = c.k;
    let n = 1usize << k;
    let l = c.qs.len();
    if l == 0 || k == 0 || k > 17 || c.qs.iter().any(|&q| !is_prime_u64(q) || (q - 1) % (2 * n as u64) != 0 || q >> 61 != 0) {
        return CaseOut::skip("moduli not primes = 1 mod 2N below 2^61");
    }
    let qs = c.qs.clone();
    let made = guard(|| {
        vh::set_nt_draws(Some(filler(tag, 64 * l + 256)));
        let ms: Vec<Modulus> = qs.iter().map(|&q| Modulus::new(q)).collect();
        NTTTables::create_ntt_tables(k, &ms)
    });
    let out = fold((|| -> Result<CaseOut, CaseOut> {
        let shape = format!("N={n}, {l} moduli {}", fmtv(&c.qs));
        let ts = match made {
            Err(p) => return Err(CaseOut::fail(format!("{SEC}:create_ntt_tables:panic:{}", panic_class(&p)), format!("create_ntt_tables succeeds ({shape})"), p)),
            Ok(Err(e)) => return Err(CaseOut::fail(format!("{SEC}:create_ntt_tables:refused"), format!("create_ntt_tables succeeds ({shape})"), e)),
            Ok(Ok(ts)) => ts,
        };
        let mut steps = 1u64;
        if ts.len() != l {
            return Err(CaseOut::fail(format!("{SEC}:create_ntt_tables:count"), format!("{l} tables ({shape})"), format!("{} tables", ts.len())));
        }
        let mut top = 0u64;
        for (i, (t, &q)) in ts.iter().zip(&c.qs).enumerate() {
            // (1) the i-th table is the table of the i-th modulus: deterministic root, table data, 1/N
            steps += 1;
            if let Some((what, exp, obs)) = table_data_mismatch(t, k, q) {
                // diagnostic only: is it the table of another list position?
                let other = c.qs.iter().position(|&q2| q2 != q && pow_mod(t.root() % q2, n as u64, q2) == q2 - 1 && t.root() == expected_root(n, q2));
                return Err(CaseOut::fail(
                    format!("{SEC}:table-not-of-its-modulus:{what}"),
                    format!("table {i} of create_ntt_tables belongs to modulus {i} = {q}: {exp} ({shape})"),
                    format!("{obs}{}", other.map(|j| format!("; this is the root of list position {j} (modulus {})", c.qs[j])).unwrap_or_default()),
                ));
            }
            // (2) identical to a directly constructed table (other random draws)
            steps += 1;
            match build(k, q, tag ^ (i as u64 + 1)) {
                Err(e) => return Err(build_fail(SEC, k, q, &e)),
                Ok((_, d)) => {
                    if fingerprint(&d) != fingerprint(t) {
                        return Err(CaseOut::fail(
                            format!("{SEC}:differs-from-direct-construction"),
                            format!("table {i} equals NTTTables::new({k}, {q}) ({shape})"),
                            format!("fingerprints {:016x} vs {:016x}", fingerprint(t), fingerprint(&d)),
                        ));
                    }
                }
            }
            // (3) it transforms under its modulus: lazy maxima of both directions against the reference
            let psi = t.root();
            let ptab = rn::power_table(psi, n, q);
            let mut run = Run::new(SEC, q, t);
            let j = 1 % n;
            let mut u = vec![0u64; n];
            u[j] = 4 * q - 1;
            let r = rn::ntt_unit(j, 4 * q - 1, n, &ptab, q);
            run.tj(Fun::Fwd, "unit-lazymax", &u, &r)?;
            run.tj(Fun::FwdLazy, "unit-lazymax", &u, &r)?;
            let mut u = vec![0u64; n];
            u[n - 1] = 2 * q - 1;
            let r = rn::intt_unit(n - 1, 2 * q - 1, n, &ptab, q);
            run.tj(Fun::Inv, "unit-lazymax", &u, &r)?;
            run.tj(Fun::InvLazy, "unit-lazymax", &u, &r)?;
            let g4: Vec<u64> = (0..n).map(|x| h64(&(seed, x as u64, q, "bt-4q")) % (4 * q)).collect();
            let r = rn::fast_ntt(&g4, psi, q);
            let f = run.tj(Fun::Fwd, "generic-lazy4q", &g4, &r)?;
            run.tj(Fun::FwdLazy, "generic-lazy4q", &g4, &r)?;
            let g4r: Vec<u64> = g4.iter().map(|&x| x % q).collect();
            run.tj(Fun::Inv, "roundtrip-fwd-inv", &f, &g4r)?;
            let g2: Vec<u64> = (0..n).map(|x| h64(&(seed, x as u64, q, "bt-2q")) % (2 * q)).collect();
            let r = rn::fast_intt(&g2, psi, q);
            run.tj(Fun::Inv, "generic-lazy2q", &g2, &r)?;
            run.tj(Fun::InvLazy, "generic-lazy2q", &g2, &r)?;
            steps += run.steps;
            top = top.max(run.lazy_top);
        }
        Ok(CaseOut::pass(true, h64(&(SEC, k, l, top.min(1))), steps))
    })());
    vh::set_nt_draws(None);
    out
}

// ---- section `big-lazy`: the documented input ranges of the four transforms at every N

#[derive(Serialize, Deserialize, Clone, Debug)]
pub enum LPart {
    /// structured vectors of [0, R)^N, R = documented input range of transform number `fun` (index into
    /// [exact forward, lazy forward, exact inverse, lazy inverse])
    Patterns { fun: usize },
    /// sums of two transforms left unreduced, one of them the image of (q-1) X^i, i in lo..hi
    Sums { lo: usize, hi: usize },
    /// the same for i in {0, 1, 2^j - 1, 2^j, 2^j + 1, N-2, N-1}
    SumsSparse,
}

#[derive(Serialize, Deserialize, Clone, Debug)]
pub struct LCase {
    pub k: usize,
    pub q: u64,
    pub part: LPart,
}

/// structured vectors of [0, mult*q)^N: (class, vector)
fn lazy_patterns(k: usize, q: u64, mult: u64, seed: u64) -> Vec<(&'static str, Vec<u64>)> {
    let n = 1usize << k;
    let r = mult * q;
    let top = r - 1;
    let mut v: Vec<(&'static str, Vec<u64>)> = vec![];
    for c in [top, r - q, q - 1] {
        v.push(("const", vec![c; n]));
    }
    // block-alternating: blocks of 2^l entries a, b, a, b, ... for every block size (l = 0: alternating, l = k-1: halves)
    let mut pairs: Vec<(u64, u64)> = vec![(top, 0), (0, top), (top, q), (q, top), (q - 1, 0), (0, q - 1)];
    if mult == 4 {
        pairs.extend([(top, 2 * q), (2 * q, top), (2 * q - 1, 2 * q)]);
    }
    for l in 0..k {
        for &(a, b) in &pairs {
            v.push(("block-alt", (0..n).map(|i| if (i >> l) & 1 == 0 { a } else { b }).collect()));
        }
    }
    // every entry at the range maximum but one (and the complement: one entry at the maximum, the others q)
    let mut holes: Vec<usize> = vec![0, 1 % n, n - 1];
    holes.extend((1..k).map(|i| 1usize << i));
    holes.sort();
    holes.dedup();
    for &j in &holes {
        let mut x = vec![top; n];
        x[j] = 0;
        v.push(("one-hole", x));
        let mut x = vec![q; n];
        x[j] = top;
        v.push(("one-spike", x));
    }
    // every entry one of the boundary values, chosen by a fixed hash
    let alpha = [0, 1, q - 1, q, top - 1, top];
    for salt in 0..3u64 {
        v.push(("boundary-mix", (0..n).map(|i| alpha[(h64(&(seed, i as u64, q, salt, "c09-bmix")) % alpha.len() as u64) as usize]).collect()));
    }
    for salt in 0..3u64 {
        v.push(("generic", (0..n).map(|i| h64(&(seed, i as u64, q, salt, "c09-lfill")) % r).collect()));
    }
    v.push(("neartop", (0..n).map(|i| top - h64(&(seed, i as u64, q, "c09-lfill2")) % q.min(1 << 16)).collect()));
    v
}

fn check_biglazy(c: &LCase, seed: u64) -> CaseOut {
    const SEC: &str = "big-lazy";
    let tag = h64(&(seed, c.k as u64, c.q, SEC));
    he::env_real(seed, tag);
    let (k, q) = (c.k, c.q);
    let n = 1usize << k;
    if k == 0 || k > 17 || !is_prime_u64(q) || (q - 1) % (2 * n as u64) != 0 || q >> 61 != 0 {
        return CaseOut::skip("modulus not a prime = 1 mod 2N below 2^61");
    }
    let (_m, t) = match build(k, q, tag) {
        Ok(x) => x,
        Err(e) => return build_fail(SEC, k, q, &e),
    };
    let out = fold((|| -> Result<CaseOut, CaseOut> {
        let psi = t.root();
        if psi != expected_root(n, q) {
            return Err(CaseOut::fail(format!("{SEC}:root:not-minimal"), format!("N={n} q={q}: root {}", expected_root(n, q)), format!("{psi}")));
        }
        let mut run = Run::new(SEC, q, &t);
        match &c.part {
            LPart::Patterns { fun } => {
                let Some(&f) = FUNS.get(*fun) else { return Ok(CaseOut::skip("no such transform")) };
                for (class, x) in lazy_patterns(k, q, f.in_mult(), seed) {
                    let reference = if f.forward() { rn::fast_ntt(&x, psi, q) } else { rn::fast_intt(&x, psi, q) };
                    let out = run.tj(f, class, &x, &reference)?;
                    if f == Fun::InvLazy && matches!(class, "boundary-mix" | "generic" | "const") {
                        // a lazy inverse output is a legal input of both forward forms
                        let xr: Vec<u64> = x.iter().map(|&v| v % q).collect();
                        run.tj(Fun::Fwd, "roundtrip-invlazy-fwd", &out, &xr)?;
                        run.tj(Fun::FwdLazy, "roundtrip-invlazy-fwdlazy", &out, &xr)?;
                    }
                }
                let need = if f.out_mult() == 4 { 2 } else if f.out_mult() == 2 { 1 } else { 0 };
                Ok(CaseOut::pass(run.steps > 0 && run.lazy_top >= need, h64(&(SEC, "patterns", k, 64 - q.leading_zeros(), *fun, run.lazy_top)), run.steps))
            }
            LPart::Sums { .. } | LPart::SumsSparse => {
                let is: Vec<usize> = match &c.part {
                    LPart::Sums { lo, hi } => (*lo..(*hi).min(n)).collect(),
                    _ => sparse_indices(k),
                };
                let ptab = rn::power_table(psi, n, q);
                // partners in the evaluation domain (entries in [0,q)): the library's exact image of a generic
                // vector, and the constant q-1
                let g: Vec<u64> = (0..n).map(|i| h64(&(seed, i as u64, q, "c09-sum-g")) % q).collect();
                let fg = run.tj(Fun::Fwd, "operand", &g, &rn::fast_ntt(&g, psi, q))?;
                let cst = vec![q - 1; n];
                let icst = rn::fast_intt(&cst, psi, q);
                // partners in the coefficient domain (entries in [0,2q)): the library's lazy inverse image of a
                // generic vector, and the constant 2q-1
                let gg: Vec<u64> = (0..n).map(|i| h64(&(seed, i as u64, q, "c09-sum-gg")) % q).collect();
                let lgg = run.tj(Fun::InvLazy, "operand", &gg, &rn::fast_intt(&gg, psi, q))?;
                let cst2 = vec![2 * q - 1; n];
                let fcst2 = rn::fast_ntt(&cst2, psi, q);
                let add = |a: &[u64], b: &[u64]| -> Vec<u64> { a.iter().zip(b).map(|(&x, &y)| x + y).collect() };
                let addq = |a: &[u64], i: usize, cf: u64| -> Vec<u64> {
                    let mut r = a.to_vec();
                    r[i] = (r[i] % q + cf) % q;
                    r
                };
                for i in is {
                    let cf = q - 1;
                    let mut a = vec![0u64; n];
                    a[i] = cf;
                    // ntt(a) + ntt(b), entries in [0, 2q): input of the inverse forms; expected a + b
                    let fa = run.tj(Fun::Fwd, "unit", &a, &rn::ntt_unit(i, cf, n, &ptab, q))?;
                    for (partner, coeffs) in [(&fg, &g), (&cst, &icst)] {
                        let s = add(&fa, partner);
                        let e = addq(coeffs, i, cf);
                        run.tj(Fun::Inv, "sum-of-transforms", &s, &e)?;
                        run.tj(Fun::InvLazy, "sum-of-transforms", &s, &e)?;
                    }
                    // intt_lazy(a) + intt_lazy(b), entries in [0, 4q): input of the forward forms; expected a + b
                    let la = run.tj(Fun::InvLazy, "unit", &a, &rn::intt_unit(i, cf, n, &ptab, q))?;
                    for (partner, vals) in [(&lgg, &gg), (&cst2, &fcst2)] {
                        let s = add(&la, partner);
                        let e = addq(vals, i, cf);
                        run.tj(Fun::Fwd, "sum-of-lazy-inverses", &s, &e)?;
                        run.tj(Fun::FwdLazy, "sum-of-lazy-inverses", &s, &e)?;
                    }
                }
                Ok(CaseOut::pass(run.steps > 2 && run.lazy_top >= 1, h64(&(SEC, "sums", k, 64 - q.leading_zeros(), run.lazy_top)), run.steps))
            }
        }
    })());
    vh::set_nt_draws(None);
    out
}

/// moduli of `big-lazy` for degree 2^k: the smallest prime = 1 mod 2N, the largest ones of 31 and 61 bits
fn lazy_moduli(k: usize) -> Vec<u64> {
    let two_n = 2u64 << k;
    let mut x = two_n + 1;
    while !is_prime_u64(x) {
        x += two_n;
    }
    let mut v = vec![x];
    for bits in [31usize, 61] {
        if let Some(&p) = primes_1_mod(two_n, bits, 1).first() {
            v.push(p);
        }
    }
    v.sort();
    v.dedup();
    v
}

// ---- section `big-convolution`: products with every monomial and every shift at production degrees

#[derive(Serialize, Deserialize, Clone, Debug)]
pub enum BCPart {
    /// (q-1) X^i * g through the transforms for i in lo..hi, g dense
    Monomials { lo: usize, hi: usize },
    /// the same for i in {0, 1, 2^j - 1, 2^j, 2^j + 1, N-2, N-1}
    MonomialsSparse,
    /// negacyclic_shift / monomial product forms of a generic vector for every shift in lo..hi (of 0..2N); the part
    /// with lo = 0 also takes the all-(q-1) vector through the shifts 0, 1, 2^j - 1, 2^j, 2^j + 1, 2N-2, 2N-1
    Shifts { lo: usize, hi: usize },
}

#[derive(Serialize, Deserialize, Clone, Debug)]
pub struct BCCase {
    pub k: usize,
    pub q: u64,
    pub part: BCPart,
}

fn check_bigconv(c: &BCCase, seed: u64) -> CaseOut {
    const SEC: &str = "big-convolution";
    let tag = h64(&(seed, c.k as u64, c.q, SEC));
    he::env_real(seed, tag);
    let (k, q) = (c.k, c.q);
    let n = 1usize << k;
    if k == 0 || k > 17 || !is_prime_u64(q) || (q - 1) % (2 * n as u64) != 0 || q >> 61 != 0 {
        return CaseOut::skip("modulus not a prime = 1 mod 2N below 2^61");
    }
    let (m, t) = match build(k, q, tag) {
        Ok(x) => x,
        Err(e) => return build_fail(SEC, k, q, &e),
    };
    let out = fold((|| -> Result<CaseOut, CaseOut> {
        let psi = t.root();
        if psi != expected_root(n, q) {
            return Err(CaseOut::fail(format!("{SEC}:root:not-minimal"), format!("N={n} q={q}: root {}", expected_root(n, q)), format!("{psi}")));
        }
        let mut run = Run::new(SEC, q, &t);
        // dense operands: generic, and every coefficient q-1
        let g: Vec<u64> = (0..n).map(|i| h64(&(seed, i as u64, q, "c09-bc-g")) % q).collect();
        let top = vec![q - 1; n];
        match &c.part {
            BCPart::Monomials { .. } | BCPart::MonomialsSparse => {
                let is: Vec<usize> = match &c.part {
                    BCPart::Monomials { lo, hi } => (*lo..(*hi).min(n)).collect(),
                    _ => sparse_indices(k),
                };
                let ptab = rn::power_table(psi, n, q);
                let fg = run.tj(Fun::Fwd, "operand", &g, &rn::fast_ntt(&g, psi, q))?;
                let ftop = run.tj(Fun::Fwd, "operand", &top, &rn::fast_ntt(&top, psi, q))?;
                for i in is {
                    let mut a = vec![0u64; n];
                    a[i] = q - 1;
                    let fa = run.tj(Fun::Fwd, "unit", &a, &rn::ntt_unit(i, q - 1, n, &ptab, q))?;
                    // (q-1) X^i * b = -(X^i * b)
                    for (b, fb) in [(&g, &fg), (&top, &ftop)] {
                        let e = rp::pneg(&rp::pshift(b, i, q), q);
                        conv_check(&mut run, &m, "monomial-times-dense", &a, &fa, b, fb, &e)?;
                    }
                }
            }
            BCPart::Shifts { lo, hi } => {
                for (vi, a) in [&g, &top].into_iter().enumerate() {
                    let shifts: Vec<usize> = if vi == 0 {
                        (*lo..(*hi).min(2 * n)).collect()
                    } else if *lo == 0 {
                        sparse_indices(k + 1)
                    } else {
                        vec![]
                    };
                    for s in shifts {
                        let e = rp::pshift(a, s, q);
                        let coef = if s % 2 == 0 { q - 1 } else { 1 + h64(&(seed, s as u64, q, "c09-bc-mono")) % (q - 1) };
                        let e2 = rp::pscale(&e, coef, q);
                        let r = guard(|| {
                            let mut r1 = vec![0xDEADu64; n];
                            pm::negacyclic_shift(a, s, &m, &mut r1);
                            let mut r2 = vec![0xDEADu64; n];
                            pm::negacyclic_shift_p(a, s, n, std::slice::from_ref(&m), &mut r2);
                            let mut r3 = vec![0xDEADu64; n];
                            pm::negacyclic_shift_ps(a, s, 1, n, std::slice::from_ref(&m), &mut r3);
                            let mut m1 = vec![0xDEADu64; n];
                            pm::negacyclic_multiply_mononomial(a, coef, s, &m, &mut m1);
                            let mut m2 = a.to_vec();
                            pm::negacyclic_multiply_mononomial_inplace(&mut m2, coef, s, &m);
                            let mut m3 = vec![0xDEADu64; n];
                            pm::negacyclic_multiply_mononomials_p(a, &[coef], s, n, std::slice::from_ref(&m), &mut m3);
                            ([r1, r2, r3], [m1, m2, m3])
                        });
                        run.steps += 6;
                        match r {
                            Err(p) => return Err(CaseOut::fail(format!("{SEC}:shift-forms:panic:{}", panic_class(&p)), format!("N={n} q={q}: X^{s} * {} and {coef}*X^{s} * .. without panic", fmtv(a)), p)),
                            Ok((rs, ms)) => {
                                if rs.iter().any(|r| *r != e) {
                                    return Err(CaseOut::fail(
                                        format!("{SEC}:negacyclic_shift:wrong"),
                                        format!("N={n} q={q}: X^{s} * {} = {}", fmtv(a), fmtv(&e)),
                                        format!("{} / _p {} / _ps {}", fmtv(&rs[0]), fmtv(&rs[1]), fmtv(&rs[2])),
                                    ));
                                }
                                if ms.iter().any(|r| *r != e2) {
                                    return Err(CaseOut::fail(
                                        format!("{SEC}:mononomial:wrong"),
                                        format!("N={n} q={q}: {coef}*X^{s} * {} = {}", fmtv(a), fmtv(&e2)),
                                        format!("{} / inplace {} / mononomials_p {}", fmtv(&ms[0]), fmtv(&ms[1]), fmtv(&ms[2])),
                                    ));
                                }
                            }
                        }
                    }
                }
            }
        }
        Ok(CaseOut::pass(run.steps > 0, h64(&(SEC, k, 64 - q.leading_zeros(), std::mem::discriminant(&c.part))), run.steps))
    })());
    vh::set_nt_draws(None);
    out
}

// ------------------------------------------------------------------------------------------
// enumeration
// ------------------------------------------------------------------------------------------

pub fn sections(cfg: &RunCfg) -> Vec<Box<dyn AnySection>> {
    let seed = cfg.seed;
    let thorough = cfg.thorough();
    let mut v: Vec<Box<dyn AnySection>> = vec![];

    // ---- transform
    let kmax = if thorough { 13 } else { 10 };
    let kmax_sparse = if thorough { 17 } else { 14 };
    let mut cases: Vec<TCase> = vec![];
    for k in 1..=kmax_sparse {
        let n = 1usize << k;
        for q in moduli_for(k) {
            cases.push(TCase { k, q, part: TPart::Tables });
            if k <= kmax + 1 {
                cases.push(TCase { k, q, part: TPart::Extremes });
            }
            if k > kmax {
                cases.push(TCase { k, q, part: TPart::UnitsSparse });
                continue;
            }
            // blocks of unit vectors: about 2^19 butterflies per transform call batch
            let block = ((1usize << 19) / (n * k)).clamp(1, n);
            let mut lo = 0;
            while lo < n {
                cases.push(TCase { k, q, part: TPart::Units { lo, hi: (lo + block).min(n) } });
                lo += block;
            }
        }
    }
    v.push(
        E1::new(
            "transform",
            &format!(
                "N = 2^k, k = 1..{kmax} (k = {}..{kmax_sparse}: table data and the unit vectors at 0..3, 2^i-1, 2^i, 2^i+1, N-2, N-1 only; extreme vectors up to k = {}); q in {{two smallest primes = 1 mod 2N, largest such prime of 13,20,30,40,50,59,60,61 bits}}; table data (root minimal, root / inverse-root table orders and quotients, 1/N, second construction, refusal of unsupported degree); all N unit vectors x coefficients {{1, q-1 (k < 12), 2q-1 (inverse), 4q-1 (forward)}} x 4 transforms + round trips; extreme vectors (constants 1, q-1, q, q+1, 2q-1, 2q, 2q+1, 3q, range maximum; alternating; halves; ramp; generic; near-top) in [0,q), [0,2q), [0,4q)",
                kmax + 1,
                kmax + 1
            ),
            cases.into_iter(),
            move |c: &TCase| check_transform(c, seed),
        )
        .deadline(std::time::Duration::from_secs(120))
        .share(0.65),
    );

    // ---- full
    let fcs = full_cases(thorough);
    v.push(
        E1::new(
            "full",
            &format!(
                "every vector: N=2 x every prime q = 1 mod 4 below {} in [0,q)^2, [0,2q)^2, [0,4q)^2; N=4: q=17 (all three ranges), q=41 [0,q){}; every vector over the boundary alphabet {{0,1,q-1,q,R-1}}^N (N=2,4{}), {{0,1,R-1}}^8, {{0,R-1}}^16 for R in {{q,2q,4q}} and every modulus of the `transform` list",
                if thorough { 256 } else { 128 },
                if thorough { ", q=41 [0,2q), q=73 [0,q)" } else { "" },
                if thorough { ",8" } else { "" }
            ),
            fcs.into_iter(),
            move |c: &FCase| check_full(c, seed),
        )
        .deadline(std::time::Duration::from_secs(120))
        .share(0.4),
    );

    // ---- convolution
    let ckmax_units = if thorough { 8 } else { 7 };
    let ckmax = if thorough { 13 } else { 10 };
    let mut cases: Vec<CCase> = vec![];
    for k in 1..=ckmax {
        let n = 1usize << k;
        for q in moduli_for(k) {
            cases.push(CCase { k, q, part: CPart::Residues });
            cases.push(CCase { k, q, part: CPart::Extremes });
            cases.push(CCase { k, q, part: CPart::Shifts });
            if k <= ckmax_units {
                let block = ((1usize << 17) / (n * n * k)).clamp(1, n);
                let mut lo = 0;
                while lo < n {
                    cases.push(CCase { k, q, part: CPart::UnitPairs { lo, hi: (lo + block).min(n) } });
                    lo += block;
                }
            }
        }
    }
    for q in [5u64, 13, 17, 29, 37, 41, 53, 61] {
        if q <= 29 || thorough {
            for a0 in 0..q {
                cases.push(CCase { k: 1, q, part: CPart::AllPairs { a0 } });
            }
        }
    }
    v.push(
        E1::new(
            "convolution",
            &format!(
                "same (N,q) as `transform` up to k={ckmax}: dyadic_product (4 forms) on all residue pairs (q<512) / boundary residues; all pairs of unit vectors x coefficients {{1,q-1}} for k <= {ckmax_units}; extreme operand pairs; negacyclic_shift / monomial products for every shift 0..2N (N <= 64, boundary shifts above); all pairs of vectors for N=2, q in {}",
                if thorough { "{5,13,17,29,37,41,53,61}" } else { "{5,13,17,29}" }
            ),
            cases.into_iter(),
            move |c: &CCase| check_convolution(c, seed),
        )
        .deadline(std::time::Duration::from_secs(120))
        .share(0.5),
    );

    // ---- wrappers
    let mut cases: Vec<WCase> = vec![];
    for k in 1..=(if thorough { 12 } else { 9 }) {
        let ms = moduli_for(k);
        let big: Vec<u64> = ms.iter().rev().take(3).copied().collect();
        let small: Vec<u64> = ms.iter().take(2).copied().collect();
        for qs in [vec![ms[0]], small.clone(), big.clone(), ms.clone()] {
            for pcount in [1usize, 2, 3] {
                cases.push(WCase { k, qs: qs.clone(), pcount });
            }
        }
    }
    v.push(E1::new(
        "wrappers",
        "polysmallmod ntt/ntt_lazy/intt/intt_lazy, dyadic_product*, negacyclic_shift*, negacyclic_multiply_mononomial(s)* in component, _p and _ps form: 1..3 polynomials x {1 modulus, 2 smallest, 3 largest, all} moduli of the `transform` list, operands at the range maxima and generic",
        cases.into_iter(),
        move |c: &WCase| check_wrappers(c, seed),
    ));

    // ---- roots
    let qmax_first: u64 = if thorough { 1 << 14 } else { 1 << 12 };
    let qmax_pairs: u64 = if thorough { 3 << 9 } else { 1 << 9 };
    let mut cases: Vec<RCase> = vec![];
    for q in (5..qmax_first).filter(|&q| q % 4 == 1 && is_prime_u64(q)) {
        let mut k = 1;
        while (q - 1) % (2u64 << k) == 0 {
            cases.push(RCase { k, q, lo: 0, hi: q, pairs: false });
            if q < qmax_pairs {
                let mut lo = 0;
                while lo < q {
                    cases.push(RCase { k, q, lo, hi: (lo + 128).min(q), pairs: true });
                    lo += 128;
                }
            }
            k += 1;
        }
    }
    cases.sort_by_key(|c| (c.pairs, c.q, c.k, c.lo));
    v.push(
        E1::new(
            "roots",
            &format!(
                "every prime q < {qmax_first} and every N with 2N | q-1: every first draw r in [0,q) (+ raw draws >= q); for q < {qmax_pairs}: every (failing first draw, second draw in [0,q)); NTTTables::new, try_primitive_root, try_minimal_primitive_root"
            ),
            cases.into_iter(),
            move |c: &RCase| check_roots(c, seed),
        )
        .deadline(std::time::Duration::from_secs(120)),
    );

    // ---- contexts
    let mut cases: Vec<XCase> = vec![];
    for k in 1..=(if thorough { 12 } else { 10 }) {
        let n = 1usize << k;
        let small = moduli_for(k)[0];
        let small2 = moduli_for(k)[1];
        let mut sets: Vec<(Scheme, Vec<u64>, u64)> = vec![];
        let tb = he::ntt_primes(n, 20.max(k + 3), 1)[0];
        sets.push((Scheme::BFV, he::chain(n, &[30, 30, 31]), tb));
        sets.push((Scheme::BGV, he::chain(n, &[40, 59, 60]), tb));
        sets.push((Scheme::CKKS, he::chain(n, &[40, 40, 50]), 0));
        sets.push((Scheme::BFV, he::chain(n, &[60, 60]), small));
        sets.push((Scheme::BFV, vec![he::ntt_primes(n, 59, 1)[0]], small2));
        for (s, q, t) in sets {
            cases.push(XCase { spec: ParamSpec::new(s, n, q, t) });
        }
    }
    v.push(E1::new(
        "contexts",
        "N = 2..2^10 (2^12 thorough) x 5 parameter sets (BFV/BGV/CKKS, 1..3 primes of 30..61 bits, batching plain moduli): every level's coefficient and plain tables of two contexts built under different scripted entropy/draws and of a direct NTTTables::new are identical, roots minimal, same image of a generic vector",
        cases.into_iter(),
        move |c: &XCase| check_contexts(c, seed),
    ));

    // ---- big-tables: create_ntt_tables over many moduli
    let bt_kmax = if thorough { 15 } else { 13 };
    let mut cases: Vec<BTCase> = vec![];
    for k in 1..=bt_kmax {
        let all = many_moduli(k, 20);
        for l in 1..=20usize {
            // odd counts: the first l of the mixed list; even counts: the same in reverse
            let mut qs = all[..l].to_vec();
            if l % 2 == 0 {
                qs.reverse();
            }
            cases.push(BTCase { k, qs });
        }
    }
    let bt_long: &[usize] = if thorough { &[2, 3, 6, 10, 12, 13] } else { &[2, 3, 10] };
    for &k in bt_long {
        let all = many_moduli(k, 65);
        for l in [31usize, 32, 33, 63, 64, 65] {
            cases.push(BTCase { k, qs: all[..l].to_vec() });
        }
    }
    cases.sort_by_key(|c| (c.qs.len() > 20, c.k, c.qs.len()));
    v.push(
        E1::new(
            "big-tables",
            &format!(
                "NTTTables::create_ntt_tables(k, moduli) for N = 2^k, k = 1..{bt_kmax}, and every count of 1..20 moduli (distinct primes = 1 mod 2N of 61,30,60,40,59,50,45,35,55,25 bits taken round-robin, NOT sorted; even counts in reverse), plus 31,32,33,63,64,65 moduli for k in {bt_long:?}: count of tables; table i is the table of modulus i (root = minimal primitive 2N-th root, both power tables with orders and quotients, 1/N), equals a directly constructed NTTTables::new (fingerprint), and transforms under modulus i: unit vectors at the lazy maxima 4q-1 / 2q-1 and generic vectors of [0,4q)^N / [0,2q)^N through the four transforms against the reference transform"
            ),
            cases.into_iter(),
            move |c: &BTCase| check_bigtables(c, seed),
        )
        .deadline(std::time::Duration::from_secs(120))
        .batch(1),
    );

    // ---- big-lazy: input ranges at every N
    let bl_kmax = if thorough { 15 } else { 13 };
    let bl_all_moduli = if thorough { 15 } else { 12 };
    let bl_sums_all = if thorough { 13 } else { 10 };
    let mut cases: Vec<LCase> = vec![];
    for k in 1..=bl_kmax {
        let n = 1usize << k;
        let mut ms = lazy_moduli(k);
        if k > bl_all_moduli {
            // the largest (61-bit) modulus only
            ms = vec![*ms.last().unwrap()];
        }
        for q in ms {
            for fun in 0..4 {
                cases.push(LCase { k, q, part: LPart::Patterns { fun } });
            }
            if k <= bl_sums_all {
                // about 2^18 butterflies per transform call batch
                let block = ((1usize << 18) / (n * k)).clamp(1, n);
                let mut lo = 0;
                while lo < n {
                    cases.push(LCase { k, q, part: LPart::Sums { lo, hi: (lo + block).min(n) } });
                    lo += block;
                }
            } else {
                cases.push(LCase { k, q, part: LPart::SumsSparse });
            }
        }
    }
    v.push(
        E1::new(
            "big-lazy",
            &format!(
                "documented input ranges [0,4q) (forward exact / lazy) and [0,2q) (inverse exact / lazy) at N = 2^k, k = 1..{bl_kmax}; q in {{smallest prime = 1 mod 2N, largest of 31 bits, largest of 61 bits}} (k > {bl_all_moduli}: 61 bits only); per transform with range R: constants R-1, R-q, q-1; block-alternating vectors a,..,a,b,..,b of EVERY block size 2^l, l = 0..k-1, for (a,b) in {{(R-1,0),(0,R-1),(R-1,q),(q,R-1),(q-1,0),(0,q-1)}} (+ (4q-1,2q),(2q,4q-1),(2q-1,2q) forward); all entries R-1 but one 0 / all entries q but one R-1 at positions 0,1,2^i,N-1; 3 hash-chosen vectors over {{0,1,q-1,q,R-2,R-1}}; 3 generic and 1 near-top fills; lazy inverse outputs fed back to both forward forms; sums left unreduced: ntt((q-1)X^i) + {{ntt(generic), constant q-1}} in [0,2q) through both inverse forms and intt_lazy((q-1)e_i) + {{intt_lazy(generic), constant 2q-1}} in [0,4q) through both forward forms for every i in 0..N (k <= {bl_sums_all}; above: i in 0,1,2^j-1,2^j,2^j+1,N-2,N-1); reference = O(N log N) textbook transform"
            ),
            cases.into_iter(),
            move |c: &LCase| check_biglazy(c, seed),
        )
        .deadline(std::time::Duration::from_secs(180))
        .batch(1),
    );

    // ---- big-convolution: every monomial x dense operands, every shift, N = 64..8192
    let bc_all = if thorough { 13 } else { 10 };
    let mut cases: Vec<BCCase> = vec![];
    for k in 6..=13usize {
        let n = 1usize << k;
        let mut ms = lazy_moduli(k);
        if k > bc_all {
            ms = vec![*ms.last().unwrap()];
        }
        for q in ms {
            // about 2^21 coefficients per block of shifts
            let sblock = ((1usize << 21) / n).clamp(1, 2 * n);
            let mut lo = 0;
            while lo < 2 * n {
                cases.push(BCCase { k, q, part: BCPart::Shifts { lo, hi: (lo + sblock).min(2 * n) } });
                lo += sblock;
            }
            if k <= bc_all {
                let block = ((1usize << 18) / (n * k)).clamp(1, n);
                let mut lo = 0;
                while lo < n {
                    cases.push(BCCase { k, q, part: BCPart::Monomials { lo, hi: (lo + block).min(n) } });
                    lo += block;
                }
            } else {
                cases.push(BCCase { k, q, part: BCPart::MonomialsSparse });
            }
        }
    }
    v.push(
        E1::new(
            "big-convolution",
            &format!(
                "N = 2^k, k = 6..13, q in {{smallest prime = 1 mod 2N, largest of 31 bits, largest of 61 bits}} (k > {bc_all}: 61 bits only): intt(ntt((q-1)X^i) . ntt(b)) = -(X^i b) for every i in 0..N (k > {bc_all}: i in 0,1,2^j-1,2^j,2^j+1,N-2,N-1) and b in {{generic, all q-1}}, the four dyadic_product forms agreeing; negacyclic_shift (3 forms) and monomial products (3 forms, coefficient q-1 / generic) of a generic vector for EVERY shift 0..2N and of the all-(q-1) vector for the shifts 0,1,2^j-1,2^j,2^j+1,2N-2,2N-1"
            ),
            cases.into_iter(),
            move |c: &BCCase| check_bigconv(c, seed),
        )
        .deadline(std::time::Duration::from_secs(180))
        .batch(1),
    );

    // ---- big-wrappers: _p / _ps forms over 1..10 (.. 65) components x 1..5 polynomials at N = 64..8192
    let mut cases: Vec<WCase> = vec![];
    // many moduli at tiny N
    for k in [2usize, 3] {
        let all = many_moduli(k, if thorough { 65 } else { 33 });
        let mut counts: Vec<usize> = (1..=20).collect();
        counts.extend([32usize, 33]);
        if thorough {
            counts.extend([63usize, 64, 65]);
        }
        for l in counts {
            for pcount in 1..=5usize {
                cases.push(WCase { k, qs: all[..l].to_vec(), pcount });
            }
        }
    }
    let bw_grid_kmax = if thorough { 13 } else { 10 };
    for k in 6..=13usize {
        let all = many_moduli(k, 10);
        for l in 1..=10usize {
            for pcount in 1..=5usize {
                let diagonal = matches!((l, pcount), (1, 1) | (1, 5) | (2, 3) | (8, 2) | (9, 2) | (10, 1)) || (k <= 11 && (l, pcount) == (10, 5));
                if k <= bw_grid_kmax || diagonal {
                    cases.push(WCase { k, qs: all[..l].to_vec(), pcount });
                }
            }
        }
    }
    // simplest (fewest words) first
    cases.sort_by_key(|c| ((c.qs.len() * c.pcount) << c.k, c.k, c.qs.len(), c.pcount));
    v.push(
        E1::new(
            "big-wrappers",
            &format!(
                "the `wrappers` check (polysmallmod ntt/ntt_lazy/intt/intt_lazy, dyadic_product*, negacyclic_shift*, negacyclic_multiply_mononomial(s)* in component, _p and _ps form; operands at the range maxima and generic) with the NTT forms of every component compared with the reference transform at every N: N = 4, 8 x every count of 1..20, 32, 33{} moduli x 1..5 polynomials; N = 64..{} x every count of 1..10 moduli x 1..5 polynomials{}; moduli = distinct primes = 1 mod 2N of 61,30,60,40,59,50,45,35,55,25 bits round-robin",
                if thorough { ", 63, 64, 65" } else { "" },
                1usize << bw_grid_kmax,
                if thorough { "" } else { "; N = 2048..8192 x (moduli, polynomials) in {(1,1),(1,5),(2,3),(8,2),(9,2),(10,1)} (+ (10,5) up to N = 2048)" }
            ),
            cases.into_iter(),
            move |c: &WCase| check_wrappers_in("big-wrappers", c, seed),
        )
        .deadline(std::time::Duration::from_secs(180))
        .batch(1),
    );

    // ---- big-contexts: long modulus chains
    let mut cases: Vec<XCase> = vec![];
    let mut push = |k: usize, l: usize, s: Scheme| {
        let n = 1usize << k;
        let q = many_ctx_moduli(k, l);
        let t = if s == Scheme::CKKS { 0 } else { he::ntt_primes(n, 20.max(k + 3), 1)[0] };
        cases.push(XCase { spec: ParamSpec::new(s, n, q, t) });
    };
    for k in [2usize, 3] {
        for l in 1..=20usize {
            for s in [Scheme::BFV, Scheme::CKKS] {
                push(k, l, s);
            }
            if matches!(l, 1 | 2 | 7 | 8 | 9 | 15 | 16 | 17 | 18) {
                push(k, l, Scheme::BGV);
            }
        }
    }
    if thorough {
        for l in 1..=20usize {
            for s in [Scheme::BFV, Scheme::BGV, Scheme::CKKS] {
                push(10, l, s);
            }
        }
        for k in [7usize, 11, 12, 13] {
            for l in [7usize, 8, 9, 16, 17] {
                push(k, l, Scheme::BFV);
                push(k, l, Scheme::CKKS);
            }
        }
    } else {
        for (k, l, s) in [
            (10usize, 7usize, Scheme::BFV),
            (10, 8, Scheme::BFV),
            (10, 9, Scheme::CKKS),
            (10, 10, Scheme::BGV),
            (10, 16, Scheme::CKKS),
            (10, 17, Scheme::BFV),
            (7, 9, Scheme::BFV),
            (11, 9, Scheme::CKKS),
            (12, 9, Scheme::BFV),
        ] {
            push(k, l, s);
        }
    }
    v.push(
        E1::new(
            "big-contexts",
            &format!(
                "the `contexts` check (two contexts built under different scripted entropy / draws and a direct NTTTables::new hold identical tables; every table belongs to its modulus, root minimal, generic round trip) extended by every level's Bsk tables (RNSTool::base_Bsk_ntt_tables, hook H5), on long chains: N = 4, 8 x every count of 1..20 coefficient primes (30..60 bits, round-robin, not sorted) x BFV, CKKS (BGV for 1,2,7,8,9,15..18); {}",
                if thorough {
                    "N = 1024 x 1..20 primes x BFV, BGV, CKKS; N = 128, 2048, 4096, 8192 x {7,8,9,16,17} primes x BFV, CKKS"
                } else {
                    "N = 1024 x {7 BFV, 8 BFV, 9 CKKS, 10 BGV, 16 CKKS, 17 BFV}, N = 128 x 9 BFV, N = 2048 x 9 CKKS, N = 4096 x 9 BFV"
                }
            ),
            cases.into_iter(),
            move |c: &XCase| check_contexts_in("big-contexts", true, c, seed),
        )
        .deadline(std::time::Duration::from_secs(180))
        .batch(1),
    );
    v
}
