//! C04 — Galois maps, rotations, conjugation and key switching act as documented.
//!
//! E1 sections:
//!  * `tables`       GaloisTool alone, N = 2 … 8192: step -> element, default element set, index map, NTT
//!                   permutation tables for EVERY odd g against the evaluation-order model; coefficient
//!                   form `apply` against the naive m(X) -> m(X^g); `apply_ntt` against a naive NTT
//!  * `galois_elt`   every odd g < 2N on ciphertexts (keys for all elements), every level, three schemes
//!  * `rotate`       every step -(N/2-1)..N/2-1 with keys for exactly that step and with the default key
//!                   set (NAF composition), column swap / conjugation, every level
//!  * `keyswitch`    switching between two independent secret keys in both directions, every level
//!  * `galois_plain` apply_galois_plain on coefficient-form (full and short) and NTT-form plaintexts
//!
//! size sections (every loop dimension across 8 / 16 / 64 / 128 / … / 4096 / 8192):
//!  * `primes`       every key-switching consumer (apply_galois, rotations, column swap / conjugation, apply_keyswitching)
//!                   on chains of 2 … 18 primes at N = 4 / 8, every level of them (1 … 17 data primes + special prime)
//!  * `bigtab`       GaloisTool alone at N = 128 … 8192: `apply` / `apply_ntt` on a structured element family against the
//!                   substitution X -> X^g (reference transform from refmodel::ntt), the `apply_ntt` table cache over the
//!                   default key set and its colliding index classes in both call orders (thorough: every g on one tool)
//!  * `big`          ciphertext level at N = 256 … 8192: every step with the default key set (NAF) and with exact-step keys,
//!                   every odd g, structured steps on two levels, apply_keyswitching; many primes (9 … 18) at N = 1024 / 4096

use crate::engine::*;
use crate::he::*;
use crate::refmodel::bigu::{mul_mod, primes_1_mod};
use crate::refmodel::galois as rg;
use crate::refmodel::poly::{min_primitive_root_2n, naive_ntt, pgalois};
use heathcliff::util::GaloisTool;
use heathcliff::verif_hooks::NoiseMode;
use heathcliff::*;
use num_complex::Complex;
use serde::{Deserialize, Serialize};
use std::time::Duration;

pub fn describe(rep: &Report) {
    rep.set_rule(
        "tables: case = (log N, slice of the odd elements); every step / element of the slice is compared with the index model. \
         ciphertext sections: case = (explicit parameter set, error script, CKKS scale, key mode); the case builds keys and loops over \
         EVERY level x EVERY element resp. step x the whole plaintext alphabet (N unit monomials with coefficient 1 and t-1 resp. +-1.0, \
         all unit slot vectors, one dense polynomial and one dense slot vector); each executed operation is decrypted and compared with \
         the naive m(X)->m(X^g) (exact for BFV/BGV, within the a-priori bound for CKKS) and with the permuted decoded slots \
         (traces_validated counts these comparisons). A (level, operation) pair whose a-priori noise bound exceeds the decryption \
         threshold is counted as skipped inside the case and never judged. non-trivial = at least one operation of the case was judged. \
         size sections: primes = the same three checks on chains of 2..18 primes at N = 4 / 8; bigtab: case = (log N, mode) on one GaloisTool; \
         big: case = (parameter set, operation family, slice of its step / element list), alphabet = one slot vector with pairwise distinct \
         entries + one dense polynomial everywhere, unit messages at the structured steps / elements.",
    );
    rep.assume("noise: fresh <= 21(2N+1)+(1+N)/2, each modulus switch adds <= (1+N)/2+1, each key switch adds <= 21*N*sum(q_i)/P+(1+N)/2 (x t for BGV); judged iff 8t(E+2) < q_level (CKKS: 4N(E+1)/scale < 0.2)");
    rep.assume("rotate_rows / rotate_vector by s > 0 rotate LEFT (element 3^s mod 2N), s < 0 right (3^-|s|); column swap / conjugation = element 2N-1 (SEAL semantics, comments of util/galois.rs)");
    rep.assume("create_keyswitching_key(new_key) on the generator of secret s yields a key that moves ciphertexts under new_key to s (doc comment of switch_key_inplace_internal); both directions between two generators are exercised");
    rep.assume("a plaintext accepted by Evaluator::check_plaintext (coefficient form, coeff_count <= N, coefficients < t) is a valid operand of apply_galois_plain");
    rep.assume("secret keys are sampled (seeded script); the error script is Real or AllMax (+21 everywhere)");
}

// ------------------------------------------------------------------------------------------------
// tables
// ------------------------------------------------------------------------------------------------

#[derive(Serialize, Deserialize, Clone, Debug)]
pub struct TCase {
    pub logn: usize,
    /// this case covers the odd elements g = 2i+1 with i in [part*N/parts, (part+1)*N/parts)
    pub part: usize,
    pub parts: usize,
    /// also run apply (coefficient form) on every element of the slice
    pub coef: bool,
    /// also run apply_ntt against a naive NTT of the substituted polynomial
    pub eval: bool,
    /// also run apply_ntt twice (table cache) on the identity vector
    pub cache: bool,
}

fn small_ntt_prime(n: usize) -> Option<(u64, u64)> {
    for bits in (n.trailing_zeros() as usize + 3)..24 {
        if let Some(&q) = primes_1_mod(2 * n as u64, bits, 1).first() {
            if let Some(psi) = min_primitive_root_2n(n, q) {
                return Some((q, psi));
            }
        }
    }
    None
}

fn check_tables(c: &TCase) -> CaseOut {
    let n = 1usize << c.logn;
    let m = 2 * n;
    let tool = match guard(|| GaloisTool::new(c.logn)) {
        Ok(t) => t,
        Err(p) => return CaseOut::fail(format!("tables:new:panic:{}", panic_class(&p)), format!("GaloisTool::new({}) succeeds", c.logn), p),
    };
    let mut steps = 0u64;
    macro_rules! bad {
        ($key:expr, $exp:expr, $obs:expr) => {
            return CaseOut::fail(format!("tables:{}", $key), $exp, $obs)
        };
    }
    if c.part == 0 {
        // reference self-consistency (exponent model vs documented rotation)
        if n <= 512 {
            match rg::selfcheck(n) {
                Ok(k) => steps += k,
                Err(e) => bad!("reference-selfcheck", "model identities".to_string(), e),
            }
        }
        // step -> element
        let half = (n / 2) as isize;
        let mut all_steps = vec![];
        for s in -(half - 1).max(0)..=(half - 1).max(0) {
            all_steps.push(s);
            let exp = rg::elt_from_step(n, s);
            match guard(|| tool.get_elt_from_step(s)) {
                Ok(o) if o == exp => steps += 1,
                Ok(o) => bad!(format!("get_elt_from_step:{}:wrong", if s < 0 { "neg" } else if s == 0 { "zero" } else { "pos" }), format!("N={n} step={s} -> {exp}"), format!("{o}")),
                Err(p) => bad!(format!("get_elt_from_step:panic:{}", panic_class(&p)), format!("N={n} step={s} -> {exp}"), p),
            }
        }
        match guard(|| tool.get_elts_from_steps(&all_steps)) {
            Ok(v) => {
                let exp: Vec<usize> = all_steps.iter().map(|&s| rg::elt_from_step(n, s)).collect();
                if v != exp {
                    bad!("get_elts_from_steps:wrong", format!("N={n} {exp:?}"), format!("{v:?}"));
                }
                steps += 1;
            }
            Err(p) => bad!(format!("get_elts_from_steps:panic:{}", panic_class(&p)), format!("N={n}: no panic"), p),
        }
        // out-of-range steps are refused
        for s in [half, -half, half + 1, -(half + 1), n as isize, -(n as isize)] {
            if s == 0 {
                continue;
            }
            if let Ok(o) = guard(|| tool.get_elt_from_step(s)) {
                bad!("get_elt_from_step:range:accepted", format!("N={n} step={s} refused (|step| >= N/2)"), format!("returned {o}"));
            }
            steps += 1;
        }
        // default element set
        match guard(|| tool.get_elts_all()) {
            Ok(v) => {
                let mut got = v.clone();
                got.sort();
                got.dedup();
                let exp = rg::default_elts(n);
                if got != exp || v.iter().any(|&g| g % 2 == 0 || g >= m) {
                    bad!("get_elts_all:wrong", format!("N={n} set {exp:?}"), format!("{v:?}"));
                }
                steps += 1;
            }
            Err(p) => bad!(format!("get_elts_all:panic:{}", panic_class(&p)), format!("N={n}: no panic"), p),
        }
        // index map
        for g in (1..m).step_by(2) {
            match guard(|| GaloisTool::get_index_from_elt(g)) {
                Ok(i) if i == (g - 1) / 2 => {}
                Ok(i) => bad!("get_index_from_elt:wrong", format!("g={g} -> {}", (g - 1) / 2), format!("{i}")),
                Err(p) => bad!(format!("get_index_from_elt:panic:{}", panic_class(&p)), format!("g={g}: no panic"), p),
            }
        }
        steps += n as u64;
        if guard(|| GaloisTool::get_index_from_elt(2)).is_ok() {
            bad!("get_index_from_elt:even:accepted", "even element refused".to_string(), "accepted".to_string());
        }
    }

    let lo = c.part * n / c.parts;
    let hi = (c.part + 1) * n / c.parts;
    let ident: Vec<u64> = (0..n as u64).collect();
    let eval_ctx = if c.eval { small_ntt_prime(n) } else { None };
    let coef_moduli: Vec<u64> = if c.coef { vec![2, 257, 1024, *primes_1_mod(2 * n as u64, 60, 1).first().unwrap_or(&1152921504606846883)] } else { vec![] };
    for i in lo..hi {
        let g = 2 * i + 1;
        let exp = rg::ntt_perm(n, g);
        match guard(|| tool.generate_table_ntt(g)) {
            Ok(t) if t == exp => steps += 1,
            Ok(t) => {
                let at = t.iter().zip(&exp).position(|(a, b)| a != b).unwrap_or(0);
                bad!("generate_table_ntt:wrong", format!("N={n} g={g}: table[{at}]={}", exp.get(at).copied().unwrap_or(0)), format!("len={} table[{at}]={}", t.len(), t.get(at).copied().unwrap_or(0)));
            }
            Err(p) => bad!(format!("generate_table_ntt:panic:{}", panic_class(&p)), format!("N={n} g={g}: no panic"), p),
        }
        if c.cache {
            for round in 0..2 {
                let mut out = vec![0u64; n];
                match guard(|| tool.apply_ntt(&ident, g, &mut out)) {
                    Ok(()) => {
                        if out.iter().zip(&exp).any(|(&o, &e)| o != e as u64) {
                            bad!(format!("apply_ntt:{}:wrong", if round == 0 { "first" } else { "cached" }), format!("N={n} g={g}: {:?}", &exp[..n.min(16)]), format!("{:?}", &out[..n.min(16)]));
                        }
                        steps += 1;
                    }
                    Err(p) => bad!(format!("apply_ntt:panic:{}", panic_class(&p)), format!("N={n} g={g}: no panic"), p),
                }
            }
        }
        if c.coef {
            for &q in &coef_moduli {
                let md = Modulus::new(q);
                // unit monomials with coefficient 1 and q-1, one dense polynomial
                let mut polys: Vec<Vec<u64>> = vec![];
                for k in 0..n {
                    for v in [1u64, q - 1] {
                        let mut a = vec![0u64; n];
                        a[k] = v;
                        polys.push(a);
                    }
                }
                polys.push((0..n as u64).map(|j| mul_mod(j + 1, 0x9E37_79B9, q)).collect());
                for a in &polys {
                    let mut out = vec![0xDEADu64; n];
                    match guard(|| tool.apply(a, g, &md, &mut out)) {
                        Ok(()) => {
                            let e = pgalois(a, g, q);
                            if out != e {
                                bad!("apply:coef:wrong", format!("N={n} g={g} q={q} a={:?} -> {:?}", &a[..n.min(16)], &e[..n.min(16)]), format!("{:?}", &out[..n.min(16)]));
                            }
                            steps += 1;
                        }
                        Err(p) => bad!(format!("apply:coef:panic:{}", panic_class(&p)), format!("N={n} g={g} q={q}: no panic"), p),
                    }
                }
            }
        }
        if let Some((q, psi)) = eval_ctx {
            for k in 0..n {
                let mut a = vec![0u64; n];
                a[k] = 1 + (k as u64 % (q - 1));
                let fa = naive_ntt(&a, psi, q);
                let fb = naive_ntt(&pgalois(&a, g, q), psi, q);
                let mut out = vec![0u64; n];
                match guard(|| tool.apply_ntt(&fa, g, &mut out)) {
                    Ok(()) => {
                        if out != fb {
                            bad!("apply_ntt:eval:wrong", format!("N={n} g={g} q={q} psi={psi} monomial {k}: {:?}", &fb[..n.min(16)]), format!("{:?}", &out[..n.min(16)]));
                        }
                        steps += 1;
                    }
                    Err(p) => bad!(format!("apply_ntt:eval:panic:{}", panic_class(&p)), format!("N={n} g={g}: no panic"), p),
                }
            }
        }
    }
    CaseOut::pass(true, h64(&(c.logn, c.coef, c.eval, c.cache, c.part == 0)), steps)
}

// ------------------------------------------------------------------------------------------------
// ciphertext-level sections: common world
// ------------------------------------------------------------------------------------------------

#[derive(Serialize, Deserialize, Clone, Copy, Debug, PartialEq, Eq, Hash)]
pub enum KeyMode {
    /// keys generated for exactly the requested step (create_galois_keys_from_steps(&[s]))
    Exact,
    /// default power-of-two key set (create_galois_keys)
    Default,
}

#[derive(Serialize, Deserialize, Clone, Debug, Hash)]
pub struct SCase {
    pub spec: ParamSpec,
    /// script of the error samples (secret keys are always sampled)
    pub err: Noise,
    /// CKKS scale = 2^scale_bits (ignored otherwise)
    pub scale_bits: u32,
    pub keys: KeyMode,
}

struct World {
    kit: Kit,
    scheme: Scheme,
    n: usize,
    t: u64,
    ids: Vec<ParmsID>,
    /// log2 of the total modulus per data level
    logq: Vec<f64>,
    /// sum of the primes per data level (as f64)
    sumq: Vec<f64>,
    special: f64,
    batching: bool,
    benc: Option<BatchEncoder>,
    cenc: Option<CKKSEncoder>,
    scale: f64,
    scale_bits: u32,
    seed: u64,
    /// rg::slot_exponent(n, i) for every slot and its inverse map (the tables rg::batch_slot_perm rebuilds per call)
    slot_exp: Vec<usize>,
    slot_of: Vec<usize>,
}

impl World {
    /// = rg::batch_slot_perm(n, g), from the tables computed once per world
    fn batch_perm(&self, g: usize) -> Vec<usize> {
        let m = 2 * self.n;
        self.slot_exp.iter().map(|&e| self.slot_of[(e as u128 * g as u128 % m as u128) as usize]).collect()
    }
    /// = rg::ckks_slot_perm(n, g)
    fn ckks_perm(&self, g: usize) -> Vec<(usize, bool)> {
        let half = self.n / 2;
        self.batch_perm(g)[..half].iter().map(|&j| if j < half { (j, false) } else { (j - half, true) }).collect()
    }
}

fn world(c: &SCase, seed: u64, what: &str) -> Result<World, String> {
    env(seed, h64(&(what, c)), NoiseMode::Real, c.err.mode());
    let kit = guard(|| Kit::new(&c.spec)).map_err(|p| format!("context/key construction refused: {}", panic_class(&p)))??;
    if !kit.ctx.using_keyswitching() {
        return Err("no special prime: key switching unavailable".into());
    }
    let ids = kit.levels();
    let mut logq = vec![];
    let mut sumq = vec![];
    for id in &ids {
        let qs = kit.moduli_at(id);
        logq.push(qs.iter().map(|&q| (q as f64).log2()).sum());
        sumq.push(qs.iter().map(|&q| q as f64).sum());
    }
    let special = *c.spec.q.last().unwrap() as f64;
    let scheme = c.spec.scheme;
    let batching = kit.ctx.first_context_data().unwrap().qualifiers().using_batching;
    let (benc, cenc) = if scheme == Scheme::CKKS { (None, Some(CKKSEncoder::new(kit.ctx.clone()))) } else { (Some(BatchEncoder::new(kit.ctx.clone())), None) };
    let slot_exp: Vec<usize> = (0..c.spec.n).map(|i| rg::slot_exponent(c.spec.n, i)).collect();
    let mut slot_of = vec![usize::MAX; 2 * c.spec.n];
    for (i, &e) in slot_exp.iter().enumerate() {
        slot_of[e] = i;
    }
    Ok(World {
        scheme,
        n: c.spec.n,
        t: c.spec.t,
        ids,
        logq,
        sumq,
        special,
        batching,
        benc,
        cenc,
        scale: 2f64.powi(c.scale_bits as i32),
        scale_bits: c.scale_bits,
        seed,
        slot_exp,
        slot_of,
        kit,
    })
}

impl World {
    /// a-priori bound (in units of the error polynomial) after `nks` key switches at `level`
    fn noise(&self, level: usize, nks: usize) -> f64 {
        let n = self.n as f64;
        let fresh = 21.0 * (2.0 * n + 1.0) + (1.0 + n) / 2.0;
        let ms = level as f64 * ((1.0 + n) / 2.0 + 1.0);
        let ks = nks as f64 * (21.0 * n * self.sumq[level] / self.special + (1.0 + n) / 2.0);
        fresh + ms + ks
    }
    /// Some((coefficient tolerance, slot tolerance)) if an operation with `nks` key switches at
    /// `level` is inside the judged domain (tolerances are 0 for the exact schemes)
    fn room(&self, level: usize, nks: usize) -> Option<(f64, f64)> {
        let e = self.noise(level, nks);
        if self.scheme == Scheme::CKKS {
            if (self.scale_bits as f64) + 4.0 > self.logq[level] {
                return None;
            }
            let tc = 4.0 * (e + 1.0) / self.scale;
            let ts = tc * self.n as f64;
            if ts < 0.2 {
                Some((tc, ts))
            } else {
                None
            }
        } else if (8.0 * self.t as f64 * (e + 2.0)).log2() < self.logq[level] - 0.01 {
            Some((0.0, 0.0))
        } else {
            None
        }
    }
    fn lvl(level: usize) -> &'static str {
        if level == 0 {
            "L0"
        } else {
            "Llow"
        }
    }
}

#[derive(Clone, Debug, PartialEq)]
enum Msg {
    Mono(usize, bool),
    DensePoly,
    Slot(usize, u8),
    DenseSlot,
    /// slot vector with pairwise DISTINCT entries (size sections: one vector identifies the whole permutation)
    Ramp,
}

impl Msg {
    fn dense(&self) -> bool {
        matches!(self, Msg::DensePoly | Msg::DenseSlot | Msg::Ramp)
    }
}

struct Enc {
    msg: Msg,
    pt: Plaintext,
    /// BFV/BGV: coefficients of the plaintext polynomial, padded to N
    coeffs: Vec<u64>,
    /// BFV/BGV slot view (only for slot messages with batching)
    slots: Option<Vec<u64>>,
    /// CKKS slot view
    cslots: Option<Vec<Complex<f64>>>,
    /// CKKS polynomial view
    rcoeffs: Option<Vec<f64>>,
}

fn alphabet(w: &World, poly: bool, slots: bool) -> Vec<Msg> {
    let n = w.n;
    let mut v = vec![];
    if poly {
        v.push(Msg::DensePoly);
        for k in 0..n {
            v.push(Msg::Mono(k, false));
            v.push(Msg::Mono(k, true));
        }
    }
    if slots {
        if w.scheme == Scheme::CKKS {
            v.push(Msg::DenseSlot);
            for k in 0..n / 2 {
                v.push(Msg::Slot(k, 0));
                v.push(Msg::Slot(k, 1));
            }
        } else if w.batching {
            v.push(Msg::DenseSlot);
            for k in 0..n {
                v.push(Msg::Slot(k, 0));
            }
            v.push(Msg::Slot(0, 1));
            v.push(Msg::Slot(n - 1, 1));
        }
    }
    v
}

fn encode(w: &World, msg: &Msg) -> Result<Enc, String> {
    let n = w.n;
    let t = w.t;
    let mix = |i: usize| -> u64 { h64(&(w.seed, i as u64, "c04-fill")) };
    guard(|| {
        if w.scheme == Scheme::CKKS {
            let ce = w.cenc.as_ref().unwrap();
            match msg {
                Msg::Mono(..) | Msg::DensePoly => {
                    let mut v = vec![0f64; n];
                    match msg {
                        Msg::Mono(k, neg) => v[*k] = if *neg { -1.0 } else { 1.0 },
                        _ => {
                            for (i, x) in v.iter_mut().enumerate() {
                                *x = (mix(i) % 9) as f64 * 0.25 - 1.0;
                            }
                            v[n - 1] = 0.75;
                        }
                    }
                    let pt = ce.encode_f64_polynomial_new(&v, None, w.scale);
                    Enc { msg: msg.clone(), pt, coeffs: vec![], slots: None, cslots: None, rcoeffs: Some(v) }
                }
                Msg::Slot(..) | Msg::DenseSlot | Msg::Ramp => {
                    let mut v = vec![Complex::new(0.0, 0.0); n / 2];
                    match msg {
                        Msg::Slot(k, kind) => v[*k] = if *kind == 0 { Complex::new(1.0, 0.0) } else { Complex::new(0.0, 1.0) },
                        Msg::Ramp => {
                            // a 64 x 64 grid of spacing 1/2: pairwise distinct for N/2 <= 4096 slots
                            for (i, x) in v.iter_mut().enumerate() {
                                *x = Complex::new((i % 64) as f64 * 0.5 - 15.75, (i / 64 % 64) as f64 * 0.5 - 16.0);
                            }
                        }
                        _ => {
                            for (i, x) in v.iter_mut().enumerate() {
                                *x = Complex::new((mix(i) % 5) as f64 * 0.5 - 1.0, (mix(i + n) % 5) as f64 * 0.5 - 0.75);
                            }
                        }
                    }
                    let pt = ce.encode_c64_array_new(&v, None, w.scale);
                    Enc { msg: msg.clone(), pt, coeffs: vec![], slots: None, cslots: Some(v), rcoeffs: None }
                }
            }
        } else {
            let be = w.benc.as_ref().unwrap();
            match msg {
                Msg::Mono(..) | Msg::DensePoly => {
                    let mut v = vec![0u64; n];
                    let len;
                    match msg {
                        Msg::Mono(k, neg) => {
                            v[*k] = if *neg { t - 1 } else { 1 };
                            len = k + 1;
                        }
                        _ => {
                            for (i, x) in v.iter_mut().enumerate() {
                                *x = mix(i) % t;
                            }
                            v[n - 1] = 1 + mix(n) % (t - 1);
                            len = n;
                        }
                    }
                    // through the polynomial view of the encoder (short plaintext for low-degree monomials)
                    let pt = be.encode_polynomial_new(&v[..len]);
                    Enc { msg: msg.clone(), pt, coeffs: v, slots: None, cslots: None, rcoeffs: None }
                }
                Msg::Slot(..) | Msg::DenseSlot | Msg::Ramp => {
                    let mut v = vec![0u64; n];
                    match msg {
                        Msg::Slot(k, kind) => v[*k] = if *kind == 0 { 1 } else { t - 1 },
                        Msg::Ramp => {
                            // pairwise distinct whenever N < t
                            for (i, x) in v.iter_mut().enumerate() {
                                *x = (i as u64 + 1) % t;
                            }
                        }
                        _ => {
                            for (i, x) in v.iter_mut().enumerate() {
                                *x = mix(i + 7) % t;
                            }
                        }
                    }
                    let pt = be.encode_new(&v);
                    let mut coeffs: Vec<u64> = pt.data().clone();
                    coeffs.resize(n, 0);
                    Enc { msg: msg.clone(), pt, coeffs, slots: Some(v), cslots: None, rcoeffs: None }
                }
            }
        }
    })
    .map_err(|p| format!("encoding {msg:?} panicked: {p}"))
}

/// Vectors in violation records: in full up to 64 entries, otherwise the 8 entries from the first disagreement on.
fn window<T: std::fmt::Debug>(exp: &[T], obs: &[T], same: impl Fn(&T, &T) -> bool, want_exp: bool) -> String {
    let v = if want_exp { exp } else { obs };
    if exp.len() <= 64 && obs.len() <= 64 {
        return format!("{v:?}");
    }
    let at = obs.iter().zip(exp).position(|(o, x)| !same(o, x)).unwrap_or(exp.len().min(obs.len()));
    format!("len {} [{at}..]: {:?}", v.len(), &v[at.min(v.len())..(at + 8).min(v.len())])
}

fn pgalois_f64(a: &[f64], g: usize) -> Vec<f64> {
    let n = a.len();
    let mut r = vec![0f64; n];
    for i in 0..n {
        let e = (i * g) % (2 * n);
        if e < n {
            r[e] += a[i];
        } else {
            r[e - n] -= a[i];
        }
    }
    r
}

/// Compare a decrypted result with the action of the element `g` on the message.
/// Err((view, expected, observed)).
fn judge(w: &World, e: &Enc, g: usize, d: &Plaintext, tol: (f64, f64)) -> Result<u64, (String, String, String)> {
    let n = w.n;
    let mut cmp = 0u64;
    if w.scheme == Scheme::CKKS {
        let ce = w.cenc.as_ref().unwrap();
        if let Some(rc) = &e.rcoeffs {
            let obs = guard(|| ce.decode_polynomial_new(d)).map_err(|p| ("poly:decode-panic".to_string(), "decodable".to_string(), p))?;
            let exp = pgalois_f64(rc, g);
            if obs.len() != n || obs.iter().zip(&exp).any(|(o, x)| !((o - x).abs() <= tol.0 + 1e-7)) {
                return Err(("poly".into(), format!("{} (tolerance {:e})", window(&exp, &obs, |o, x| (o - x).abs() <= tol.0 + 1e-7, true), tol.0), window(&exp, &obs, |o, x| (o - x).abs() <= tol.0 + 1e-7, false)));
            }
            cmp += 1;
        }
        if let Some(cs) = &e.cslots {
            let obs = guard(|| ce.decode_new(d)).map_err(|p| ("slot:decode-panic".to_string(), "decodable".to_string(), p))?;
            let perm = w.ckks_perm(g);
            let exp: Vec<Complex<f64>> = perm.iter().map(|&(j, cj)| if cj { cs[j].conj() } else { cs[j] }).collect();
            if obs.len() != n / 2 || obs.iter().zip(&exp).any(|(o, x)| !((o - x).norm() <= tol.1 + 1e-7)) {
                return Err(("slot".into(), format!("{} (tolerance {:e})", window(&exp, &obs, |o, x| (o - x).norm() <= tol.1 + 1e-7, true), tol.1), window(&exp, &obs, |o, x| (o - x).norm() <= tol.1 + 1e-7, false)));
            }
            cmp += 1;
        }
    } else {
        let mut obs: Vec<u64> = d.data()[..d.coeff_count().min(d.data().len())].to_vec();
        if obs.len() > n {
            return Err(("poly".into(), format!("at most {n} coefficients"), format!("{} coefficients", obs.len())));
        }
        obs.resize(n, 0);
        let exp = pgalois(&e.coeffs, g, w.t);
        if obs != exp {
            return Err(("poly".into(), window(&exp, &obs, |o, x| o == x, true), window(&exp, &obs, |o, x| o == x, false)));
        }
        cmp += 1;
        if let Some(sl) = &e.slots {
            let be = w.benc.as_ref().unwrap();
            let obs = guard(|| be.decode_new(d)).map_err(|p| ("slot:decode-panic".to_string(), "decodable".to_string(), p))?;
            let perm = w.batch_perm(g);
            let exp: Vec<u64> = perm.iter().map(|&j| sl[j]).collect();
            if obs != exp {
                return Err(("slot".into(), window(&exp, &obs, |o, x| o == x, true), window(&exp, &obs, |o, x| o == x, false)));
            }
            cmp += 1;
        }
    }
    Ok(cmp)
}

/// slot-level oracle of the documented rotation (independent of the exponent model)
fn judge_rotation(w: &World, e: &Enc, s: Option<isize>, d: &Plaintext, tol: (f64, f64)) -> Result<u64, (String, String, String)> {
    let n = w.n;
    if w.scheme == Scheme::CKKS {
        if let Some(cs) = &e.cslots {
            let ce = w.cenc.as_ref().unwrap();
            let obs = guard(|| ce.decode_new(d)).map_err(|p| ("rot:decode-panic".to_string(), "decodable".to_string(), p))?;
            let half = n / 2;
            let exp: Vec<Complex<f64>> = match s {
                Some(s) => (0..half).map(|i| cs[(i as isize + s).rem_euclid(half as isize) as usize]).collect(),
                None => cs.iter().map(|c| c.conj()).collect(),
            };
            if obs.len() != half || obs.iter().zip(&exp).any(|(o, x)| !((o - x).norm() <= tol.1 + 1e-7)) {
                return Err(("rot".into(), format!("{} (tolerance {:e})", window(&exp, &obs, |o, x| (o - x).norm() <= tol.1 + 1e-7, true), tol.1), window(&exp, &obs, |o, x| (o - x).norm() <= tol.1 + 1e-7, false)));
            }
            return Ok(1);
        }
    } else if let Some(sl) = &e.slots {
        let be = w.benc.as_ref().unwrap();
        let obs = guard(|| be.decode_new(d)).map_err(|p| ("rot:decode-panic".to_string(), "decodable".to_string(), p))?;
        let exp = match s {
            Some(s) => rg::rotate_rows_left(sl, s),
            None => rg::swap_rows(sl),
        };
        if obs != exp {
            return Err(("rot".into(), window(&exp, &obs, |o, x| o == x, true), window(&exp, &obs, |o, x| o == x, false)));
        }
        return Ok(1);
    }
    Ok(0)
}

/// encrypt with `enc` at the first level and switch down: one ciphertext per (usable) data level
fn ladder(w: &World, enc: &Encryptor, pt: &Plaintext, symmetric: bool) -> Result<Vec<Ciphertext>, String> {
    guard(|| {
        let first = if symmetric {
            // seeds are only kept when a polynomial is long enough to hold one
            let c = enc.encrypt_symmetric_new(pt);
            if c.contains_seed() {
                c.expand_seed(&w.kit.ctx)
            } else {
                c
            }
        } else {
            enc.encrypt_new(pt)
        };
        let mut v = vec![first];
        for l in 1..w.ids.len() {
            // CKKS: levels too small for the scale are outside the domain (mod_switch refuses them)
            if w.scheme == Scheme::CKKS && (w.scale_bits as f64) + 4.0 > w.logq[l] {
                break;
            }
            let next = w.kit.eval.mod_switch_to_next_new(v.last().unwrap());
            v.push(next);
        }
        v
    })
}

struct Tally {
    steps: u64,
    skipped: u64,
    ops: u64,
}

macro_rules! try_op {
    ($sec:expr, $w:expr, $op:expr, $level:expr, $ctx:expr, $call:expr) => {
        match guard(|| $call) {
            Ok(v) => v,
            Err(p) => {
                return CaseOut::fail(
                    format!("{}:{:?}:{}:{}:panic:{}", $sec, $w.scheme, $op, World::lvl($level), panic_class(&p)),
                    format!("{} succeeds ({})", $op, $ctx),
                    p,
                )
            }
        }
    };
}

fn finish(sec: &str, c: &SCase, t: &Tally) -> CaseOut {
    if t.ops == 0 {
        return CaseOut::skip(&format!("{sec}: every operation of this parameter set is beyond the a-priori noise bound"));
    }
    CaseOut::pass(true, h64(&(sec, c.spec.scheme, c.spec.n, c.spec.q.len(), t.skipped > 0, t.ops % 7)), t.steps)
}

fn forms_agree(sec: &str, w: &World, op: &str, level: usize, a: &Ciphertext, b: &Ciphertext, c: &Ciphertext) -> Option<CaseOut> {
    let (fa, fb, fc) = (ct_fingerprint(a), ct_fingerprint(b), ct_fingerprint(c));
    if fa != fb || fa != fc {
        return Some(CaseOut::fail(
            format!("{sec}:{:?}:{op}:{}:forms-differ", w.scheme, World::lvl(level)),
            "in-place, destination and value-returning forms give identical ciphertexts",
            format!("new: {} / inplace: {} / dest: {}", ct_meta(a), ct_meta(b), ct_meta(c)),
        ));
    }
    None
}

// ------------------------------------------------------------------------------------------------
// galois_elt
// ------------------------------------------------------------------------------------------------

fn check_galois(c: &SCase, seed: u64) -> CaseOut {
    galois_impl("galois", c, seed)
}

fn galois_impl(sec: &str, c: &SCase, seed: u64) -> CaseOut {
    let w = match world(c, seed, sec) {
        Ok(w) => w,
        Err(e) => return CaseOut::skip(&e),
    };
    let n = w.n;
    let elts: Vec<usize> = (0..n).map(|i| 2 * i + 1).collect();
    let gk = try_op!(sec, w, "create_galois_keys_from_elts", 0, format!("{} all odd elements", c.spec.label()), w.kit.keygen.create_galois_keys_from_elts(&elts, false));
    for &g in &elts {
        if !gk.has_key(g) {
            return CaseOut::fail(format!("{sec}:{:?}:keygen:missing-key", w.scheme), format!("key for element {g} present"), "has_key = false");
        }
    }
    let ev = &w.kit.eval;
    let mut t = Tally { steps: 0, skipped: 0, ops: 0 };
    // the Galois tool of every level (and of the key level) produces the model's tables
    let mut tools = vec![w.kit.ctx.key_context_data().unwrap()];
    tools.extend(w.ids.iter().map(|id| w.kit.ctx.get_context_data(id).unwrap()));
    for cd in &tools {
        for &g in &elts {
            let tb = try_op!(sec, w, "generate_table_ntt", 0, format!("g={g}"), cd.verif_galois_tool().generate_table_ntt(g));
            if tb != rg::ntt_perm(n, g) {
                return CaseOut::fail(format!("{sec}:level-tool:generate_table_ntt:wrong"), format!("N={n} g={g}: {:?}", rg::ntt_perm(n, g)), format!("{tb:?}"));
            }
            t.steps += 1;
        }
    }
    for msg in alphabet(&w, true, true) {
        let e = match encode(&w, &msg) {
            Ok(e) => e,
            Err(p) => return CaseOut::fail(format!("{sec}:{:?}:encode:panic", w.scheme), "message encodable", p),
        };
        let cts = match ladder(&w, &w.kit.enc, &e.pt, false) {
            Ok(v) => v,
            Err(p) => return CaseOut::fail(format!("{sec}:{:?}:encrypt-or-modswitch:panic:{}", w.scheme, panic_class(&p)), "encrypt + mod_switch_to_next succeed", p),
        };
        t.skipped += ((w.ids.len() - cts.len()) * n) as u64;
        for (level, ct) in cts.iter().enumerate() {
            let Some(tol) = w.room(level, 1) else {
                t.skipped += n as u64;
                continue;
            };
            // the other representation (BFV in NTT form, BGV/CKKS in coefficient form) is either refused or handled correctly
            if e.msg.dense() {
                let other = if ct.is_ntt_form() { guard(|| ev.transform_from_ntt_new(ct)) } else { guard(|| ev.transform_to_ntt_new(ct)) };
                if let Ok(other) = other {
                    if let Ok(r) = guard(|| ev.apply_galois_new(&other, 3, &gk)) {
                        let back = if r.is_ntt_form() == ct.is_ntt_form() { Ok(r.clone()) } else if r.is_ntt_form() { guard(|| ev.transform_from_ntt_new(&r)) } else { guard(|| ev.transform_to_ntt_new(&r)) };
                        let ok = back.ok().and_then(|b| guard(|| w.kit.dec.decrypt_new(&b)).ok()).map(|d| judge(&w, &e, 3, &d, tol).is_ok()).unwrap_or(false);
                        if !ok {
                            return CaseOut::fail(
                                format!("{sec}:{:?}:apply_galois:other-representation:computed-wrong", w.scheme),
                                "a ciphertext in the representation the scheme does not use is refused (or mapped correctly)",
                                format!("accepted {} and returned {} which does not decrypt to m(X^3)", ct_meta(&other), ct_meta(&r)),
                            );
                        }
                    }
                    t.steps += 1;
                }
            }
            for &g in &elts {
                let ctxs = || format!("{} level {level} g={g} msg={:?}", c.spec.label(), e.msg);
                let r = try_op!(sec, w, "apply_galois", level, ctxs(), ev.apply_galois_new(ct, g, &gk));
                t.ops += 1;
                if r.parms_id() != ct.parms_id() || r.size() != 2 || r.is_ntt_form() != ct.is_ntt_form() || r.scale() != ct.scale() {
                    return CaseOut::fail(format!("{sec}:{:?}:apply_galois:{}:metadata", w.scheme, World::lvl(level)), format!("metadata preserved ({})", ct_meta(ct)), ct_meta(&r));
                }
                let d = try_op!(sec, w, "decrypt-after-apply_galois", level, ctxs(), w.kit.dec.decrypt_new(&r));
                match judge(&w, &e, g, &d, tol) {
                    Ok(k) => t.steps += k,
                    Err((view, exp, obs)) => {
                        return CaseOut::fail(format!("{sec}:{:?}:apply_galois:{view}:{}:wrong", w.scheme, World::lvl(level)), format!("{}: {exp}", ctxs()), obs)
                    }
                }
                if e.msg.dense() {
                    let mut a = ct.clone();
                    try_op!(sec, w, "apply_galois_inplace", level, ctxs(), ev.apply_galois_inplace(&mut a, g, &gk));
                    let mut b = crate::he::dirty_like(ct, (level as u64) * 3 + 1);
                    try_op!(sec, w, "apply_galois(dest)", level, ctxs(), ev.apply_galois(ct, g, &gk, &mut b));
                    if let Some(f) = forms_agree(sec, &w, "apply_galois", level, &r, &a, &b) {
                        return f;
                    }
                    t.steps += 2;
                }
            }
        }
    }
    // elements outside the group / without key are refused
    let e = encode(&w, &Msg::DensePoly).unwrap();
    if let Ok(cts) = ladder(&w, &w.kit.enc, &e.pt, false) {
        let one = guard(|| w.kit.keygen.create_galois_keys_from_elts(&[3], false));
        for (what, g, keys) in [("even", 2usize, Some(&gk)), ("beyond-2N", 2 * n + 1, Some(&gk)), ("no-key", 2 * n - 1, one.as_ref().ok())] {
            let Some(keys) = keys else { continue };
            if n == 2 && what == "no-key" {
                continue; // 2N-1 = 3
            }
            if let Ok(r) = guard(|| ev.apply_galois_new(&cts[0], g, keys)) {
                return CaseOut::fail(format!("{sec}:{:?}:apply_galois:{what}:accepted", w.scheme), format!("element {g} ({what}) refused"), ct_meta(&r));
            }
            t.steps += 1;
        }
    }
    finish(sec, c, &t)
}

// ------------------------------------------------------------------------------------------------
// rotate
// ------------------------------------------------------------------------------------------------

fn check_rotate(c: &SCase, seed: u64) -> CaseOut {
    rotate_impl("rotate", c, seed)
}

fn rotate_impl(sec: &str, c: &SCase, seed: u64) -> CaseOut {
    let w = match world(c, seed, sec) {
        Ok(w) => w,
        Err(e) => return CaseOut::skip(&e),
    };
    if w.scheme != Scheme::CKKS && !w.batching {
        return CaseOut::skip("plain modulus does not support batching: rotations undefined");
    }
    let n = w.n;
    let half = (n / 2) as isize;
    let ckks = w.scheme == Scheme::CKKS;
    let ev = &w.kit.eval;
    let kg = &w.kit.keygen;
    let (rot_name, conj_name) = if ckks { ("rotate_vector", "complex_conjugate") } else { ("rotate_rows", "rotate_columns") };
    let mode = format!("{:?}", c.keys).to_lowercase();

    // per-level Galois tools agree with the model
    let mut t = Tally { steps: 0, skipped: 0, ops: 0 };
    for id in &w.ids {
        let cd = w.kit.ctx.get_context_data(id).unwrap();
        for s in -(half - 1)..=(half - 1) {
            let o = try_op!(sec, w, "get_elt_from_step", 0, format!("step {s}"), cd.verif_galois_tool().get_elt_from_step(s));
            if o != rg::elt_from_step(n, s) {
                return CaseOut::fail(format!("{sec}:level-tool:get_elt_from_step:wrong"), format!("N={n} step={s} -> {}", rg::elt_from_step(n, s)), format!("{o}"));
            }
        }
    }

    let default_keys = if c.keys == KeyMode::Default { Some(try_op!(sec, w, "create_galois_keys", 0, c.spec.label(), kg.create_galois_keys(false))) } else { None };
    if let Some(dk) = &default_keys {
        for g in rg::default_elts(n) {
            if !dk.has_key(g) {
                return CaseOut::fail(format!("{sec}:{:?}:create_galois_keys:missing-key", w.scheme), format!("default key set contains element {g}"), "has_key = false");
            }
        }
    }
    // exact keys: one key set per step (step 0 = conjugation element)
    let mut exact: Vec<(isize, GaloisKeys)> = vec![];
    if c.keys == KeyMode::Exact {
        for s in -(half - 1)..=(half - 1) {
            let k = try_op!(sec, w, "create_galois_keys_from_steps", 0, format!("{} step {s}", c.spec.label()), kg.create_galois_keys_from_steps(&[s], false));
            if !k.has_key(rg::elt_from_step(n, s)) {
                return CaseOut::fail(format!("{sec}:{:?}:create_galois_keys_from_steps:missing-key", w.scheme), format!("key for step {s} = element {} present", rg::elt_from_step(n, s)), "has_key = false");
            }
            exact.push((s, k));
        }
    }
    let keys_for = |s: isize| -> &GaloisKeys {
        match &default_keys {
            Some(k) => k,
            None => &exact.iter().find(|(x, _)| *x == s).unwrap().1,
        }
    };
    // number of key switches the implementation may need for step s with the given key set
    let nks = |s: isize| -> usize {
        if c.keys == KeyMode::Exact || rg::default_elts(n).contains(&rg::elt_from_step(n, s)) {
            1
        } else {
            rg::naf_ref(s as i64).len()
        }
    };

    for msg in alphabet(&w, true, true) {
        let e = match encode(&w, &msg) {
            Ok(e) => e,
            Err(p) => return CaseOut::fail(format!("{sec}:{:?}:encode:panic", w.scheme), "message encodable", p),
        };
        let cts = match ladder(&w, &w.kit.enc, &e.pt, false) {
            Ok(v) => v,
            Err(p) => return CaseOut::fail(format!("{sec}:{:?}:encrypt-or-modswitch:panic:{}", w.scheme, panic_class(&p)), "encrypt + mod_switch_to_next succeed", p),
        };
        t.skipped += (w.ids.len() - cts.len()) as u64;
        for (level, ct) in cts.iter().enumerate() {
            // rotations
            for s in -(half - 1)..=(half - 1) {
                let k = nks(s);
                let Some(tol) = w.room(level, k) else {
                    t.skipped += 1;
                    continue;
                };
                let gk = keys_for(s);
                let ctxs = || format!("{} level {level} step {s} keys={mode} msg={:?}", c.spec.label(), e.msg);
                let opn = format!("{rot_name}:{mode}:{}", if k > 1 { "naf" } else { "direct" });
                let r = if ckks {
                    try_op!(sec, w, &opn, level, ctxs(), ev.rotate_vector_new(ct, s, gk))
                } else {
                    try_op!(sec, w, &opn, level, ctxs(), ev.rotate_rows_new(ct, s, gk))
                };
                t.ops += 1;
                let d = try_op!(sec, w, "decrypt-after-rotation", level, ctxs(), w.kit.dec.decrypt_new(&r));
                if s == 0 {
                    // documented: rotation by 0 leaves the ciphertext unchanged
                    if ct_fingerprint(&r) != ct_fingerprint(ct) {
                        return CaseOut::fail(format!("{sec}:{:?}:{rot_name}:zero-step:changed", w.scheme), "step 0 returns the operand unchanged", ct_meta(&r));
                    }
                    t.steps += 1;
                    continue;
                }
                let g = rg::elt_from_step(n, s);
                let res = judge(&w, &e, g, &d, tol).and_then(|a| judge_rotation(&w, &e, Some(s), &d, tol).map(|b| a + b));
                match res {
                    Ok(k) => t.steps += k,
                    Err((view, exp, obs)) => {
                        return CaseOut::fail(format!("{sec}:{:?}:{opn}:{view}:{}:{}:wrong", w.scheme, if s < 0 { "neg" } else { "pos" }, World::lvl(level)), format!("{}: {exp}", ctxs()), obs)
                    }
                }
                if e.msg.dense() {
                    let mut a = ct.clone();
                    let mut b = crate::he::dirty_like(ct, (level as u64) * 3 + 2);
                    if ckks {
                        try_op!(sec, w, "rotate_vector_inplace", level, ctxs(), ev.rotate_vector_inplace(&mut a, s, gk));
                        try_op!(sec, w, "rotate_vector(dest)", level, ctxs(), ev.rotate_vector(ct, s, gk, &mut b));
                    } else {
                        try_op!(sec, w, "rotate_rows_inplace", level, ctxs(), ev.rotate_rows_inplace(&mut a, s, gk));
                        try_op!(sec, w, "rotate_rows(dest)", level, ctxs(), ev.rotate_rows(ct, s, gk, &mut b));
                    }
                    if let Some(f) = forms_agree(sec, &w, rot_name, level, &r, &a, &b) {
                        return f;
                    }
                    t.steps += 2;
                }
            }
            // column swap / conjugation
            let Some(tol) = w.room(level, 1) else {
                t.skipped += 1;
                continue;
            };
            let gk = keys_for(0);
            let ctxs = || format!("{} level {level} {conj_name} keys={mode} msg={:?}", c.spec.label(), e.msg);
            let r = if ckks {
                try_op!(sec, w, conj_name, level, ctxs(), ev.complex_conjugate_new(ct, gk))
            } else {
                try_op!(sec, w, conj_name, level, ctxs(), ev.rotate_columns_new(ct, gk))
            };
            t.ops += 1;
            let d = try_op!(sec, w, "decrypt-after-conjugation", level, ctxs(), w.kit.dec.decrypt_new(&r));
            let res = judge(&w, &e, 2 * n - 1, &d, tol).and_then(|a| judge_rotation(&w, &e, None, &d, tol).map(|b| a + b));
            match res {
                Ok(k) => t.steps += k,
                Err((view, exp, obs)) => return CaseOut::fail(format!("{sec}:{:?}:{conj_name}:{mode}:{view}:{}:wrong", w.scheme, World::lvl(level)), format!("{}: {exp}", ctxs()), obs),
            }
            if e.msg.dense() {
                let mut a = ct.clone();
                let mut b = crate::he::dirty_like(ct, (level as u64) * 3 + 3);
                if ckks {
                    try_op!(sec, w, "complex_conjugate_inplace", level, ctxs(), ev.complex_conjugate_inplace(&mut a, gk));
                    try_op!(sec, w, "complex_conjugate(dest)", level, ctxs(), ev.complex_conjugate(ct, gk, &mut b));
                } else {
                    try_op!(sec, w, "rotate_columns_inplace", level, ctxs(), ev.rotate_columns_inplace(&mut a, gk));
                    try_op!(sec, w, "rotate_columns(dest)", level, ctxs(), ev.rotate_columns(ct, gk, &mut b));
                }
                if let Some(f) = forms_agree(sec, &w, conj_name, level, &r, &a, &b) {
                    return f;
                }
                t.steps += 2;
            }
        }
    }
    // steps of magnitude >= N/2 are refused
    let e = encode(&w, &Msg::DenseSlot).unwrap();
    if let Ok(cts) = ladder(&w, &w.kit.enc, &e.pt, false) {
        let gk = keys_for(0);
        for s in [half, -half, half + 1] {
            let r = if ckks { guard(|| ev.rotate_vector_new(&cts[0], s, gk)) } else { guard(|| ev.rotate_rows_new(&cts[0], s, gk)) };
            if let Ok(r) = r {
                return CaseOut::fail(format!("{sec}:{:?}:{rot_name}:step-range:accepted", w.scheme), format!("step {s} (|s| >= N/2 = {half}) refused"), ct_meta(&r));
            }
            t.steps += 1;
        }
    }
    finish(sec, c, &t)
}

// ------------------------------------------------------------------------------------------------
// keyswitch
// ------------------------------------------------------------------------------------------------

fn check_keyswitch(c: &SCase, seed: u64) -> CaseOut {
    keyswitch_impl("keyswitch", c, seed, None)
}

fn keyswitch_impl(sec: &str, c: &SCase, seed: u64, big: Option<bool>) -> CaseOut {
    let w = match world(c, seed, sec) {
        Ok(w) => w,
        Err(e) => return CaseOut::skip(&e),
    };
    let ctx = w.kit.ctx.clone();
    let ev = &w.kit.eval;
    // second, independent key owner on the same context
    let other = try_op!(sec, w, "KeyGenerator::new", 0, "second key".to_string(), KeyGenerator::new(ctx.clone()));
    if other.secret_key().data() == w.kit.sk.data() {
        return CaseOut::skip("the two sampled secret keys coincide");
    }
    let pk_b = other.create_public_key(false);
    let enc_b = Encryptor::new(ctx.clone()).set_public_key(pk_b).set_secret_key(other.secret_key().clone());
    let dec_b = Decryptor::new(ctx.clone(), other.secret_key().clone());
    // B -> A : key generated by A's generator for B's secret; A -> B : the converse
    let ksk_b2a = try_op!(sec, w, "create_keyswitching_key", 0, c.spec.label(), w.kit.keygen.create_keyswitching_key(other.secret_key(), false));
    let ksk_a2b = try_op!(sec, w, "create_keyswitching_key", 0, c.spec.label(), other.create_keyswitching_key(&w.kit.sk, false));
    let mut t = Tally { steps: 0, skipped: 0, ops: 0 };
    for msg in if let Some(full) = big { big_alphabet(&w, full) } else { alphabet(&w, true, true) } {
        let e = match encode(&w, &msg) {
            Ok(e) => e,
            Err(p) => return CaseOut::fail(format!("{sec}:{:?}:encode:panic", w.scheme), "message encodable", p),
        };
        for (dir, src_enc, ksk, dst_dec, symmetric) in [("B->A", &enc_b, &ksk_b2a, &w.kit.dec, false), ("A->B", &w.kit.enc, &ksk_a2b, &dec_b, true)] {
            let cts = match ladder(&w, src_enc, &e.pt, symmetric) {
                Ok(v) => v,
                Err(p) => return CaseOut::fail(format!("{sec}:{:?}:encrypt-or-modswitch:panic:{}", w.scheme, panic_class(&p)), "encrypt + mod_switch_to_next succeed", p),
            };
            for (level, ct) in cts.iter().enumerate() {
                let Some(tol) = w.room(level, 1) else {
                    t.skipped += 1;
                    continue;
                };
                let ctxs = || format!("{} level {level} {dir} msg={:?}", c.spec.label(), e.msg);
                let r = try_op!(sec, w, "apply_keyswitching", level, ctxs(), ev.apply_keyswitching_new(ct, ksk));
                t.ops += 1;
                if r.parms_id() != ct.parms_id() || r.size() != 2 || r.is_ntt_form() != ct.is_ntt_form() || r.scale() != ct.scale() || r.correction_factor() != ct.correction_factor() {
                    return CaseOut::fail(format!("{sec}:{:?}:apply_keyswitching:{}:metadata", w.scheme, World::lvl(level)), format!("metadata preserved ({})", ct_meta(ct)), ct_meta(&r));
                }
                let d = try_op!(sec, w, "decrypt-after-keyswitch", level, ctxs(), dst_dec.decrypt_new(&r));
                match judge(&w, &e, 1, &d, tol) {
                    Ok(k) => t.steps += k,
                    Err((view, exp, obs)) => return CaseOut::fail(format!("{sec}:{:?}:apply_keyswitching:{view}:{}:wrong", w.scheme, World::lvl(level)), format!("{}: {exp}", ctxs()), obs),
                }
                if e.msg.dense() {
                    let mut a = ct.clone();
                    try_op!(sec, w, "apply_keyswitching_inplace", level, ctxs(), ev.apply_keyswitching_inplace(&mut a, ksk));
                    let mut b = crate::he::dirty_like(ct, (level as u64) * 3 + 4);
                    try_op!(sec, w, "apply_keyswitching(dest)", level, ctxs(), ev.apply_keyswitching(ct, ksk, &mut b));
                    if let Some(f) = forms_agree(sec, &w, "apply_keyswitching", level, &r, &a, &b) {
                        return f;
                    }
                    t.steps += 2;
                }
            }
        }
        // a seeded (unexpanded) symmetric ciphertext is not a two-component ciphertext yet: it must be
        // refused, or — if accepted — still switch to the right plaintext
        if e.msg.dense() && w.room(0, 1).is_some() {
            let tol = w.room(0, 1).unwrap();
            if let Ok(seeded) = guard(|| w.kit.enc.encrypt_symmetric_new(&e.pt)) {
                if seeded.contains_seed() {
                    if let Ok(r) = guard(|| ev.apply_keyswitching_new(&seeded, &ksk_a2b)) {
                        let ok = guard(|| dec_b.decrypt_new(&r)).ok().map(|d| judge(&w, &e, 1, &d, tol).is_ok()).unwrap_or(false);
                        if !ok {
                            return CaseOut::fail(
                                format!("{sec}:{:?}:apply_keyswitching:seeded:computed-on-seed", w.scheme),
                                "an unexpanded seeded ciphertext is refused (or switched correctly)",
                                format!("accepted; result {} does not decrypt to the plaintext", ct_meta(&r)),
                            );
                        }
                    }
                    t.steps += 1;
                }
            }
        }
    }
    finish(sec, c, &t)
}

// ------------------------------------------------------------------------------------------------
// galois_plain
// ------------------------------------------------------------------------------------------------

fn plain_forms_agree(w: &World, form: &str, a: &Plaintext, b: &Plaintext, c: &Plaintext) -> Option<CaseOut> {
    let (fa, fb, fc) = (pt_fingerprint(a), pt_fingerprint(b), pt_fingerprint(c));
    if fa != fb || fa != fc {
        return Some(CaseOut::fail(format!("plain:{:?}:{form}:forms-differ", w.scheme), "in-place, destination and value-returning forms give identical plaintexts", "they differ"));
    }
    None
}

#[derive(Serialize, Deserialize, Clone, Debug, Hash)]
pub struct PCase {
    pub base: SCase,
    /// true: only coefficient-form plaintexts SHORTER than N (as produced by encode_polynomial / resize) and the empty one;
    /// false: N-coefficient and NTT-form plaintexts
    pub short: bool,
}

fn check_plain(pc: &PCase, seed: u64) -> CaseOut {
    let sec = "plain";
    let c = &pc.base;
    if pc.short && c.spec.scheme == Scheme::CKKS {
        return CaseOut::skip("CKKS has no coefficient-form plaintexts");
    }
    let w = match world(c, seed, sec) {
        Ok(w) => w,
        Err(e) => return CaseOut::skip(&e),
    };
    let n = w.n;
    let ev = &w.kit.eval;
    let elts: Vec<usize> = (0..n).map(|i| 2 * i + 1).collect();
    let mut t = Tally { steps: 0, skipped: 0, ops: 0 };
    let perms: Vec<Vec<usize>> = elts.iter().map(|&g| rg::ntt_perm(n, g)).collect();
    for msg in alphabet(&w, true, true) {
        let e = match encode(&w, &msg) {
            Ok(e) => e,
            Err(p) => return CaseOut::fail(format!("{sec}:{:?}:encode:panic", w.scheme), "message encodable", p),
        };
        if w.scheme != Scheme::CKKS {
            // coefficient form: as encoded (short for low-degree monomials) and padded to N
            let mut full = e.pt.clone();
            full.resize(n);
            let variants: Vec<(&str, &Plaintext)> = if pc.short {
                if e.pt.coeff_count() < n {
                    vec![("short", &e.pt)]
                } else {
                    vec![]
                }
            } else {
                vec![("full", &full)]
            };
            for (shape, p) in variants {
                for &g in &elts {
                    let ctxs = || format!("{} coefficient form ({shape}, {} coefficients) g={g} msg={:?}", c.spec.label(), p.coeff_count(), e.msg);
                    let r = match guard(|| ev.apply_galois_plain_new(p, g)) {
                        Ok(r) => r,
                        Err(pn) => {
                            return CaseOut::fail(format!("{sec}:apply_galois_plain:coef:{shape}:panic:{}", panic_class(&pn)), format!("{}: a valid plaintext is accepted", ctxs()), pn)
                        }
                    };
                    t.ops += 1;
                    if r.is_ntt_form() {
                        return CaseOut::fail(format!("{sec}:apply_galois_plain:coef:{shape}:form-changed"), "result stays in coefficient form", "NTT form");
                    }
                    match judge(&w, &e, g, &r, (0.0, 0.0)) {
                        Ok(k) => t.steps += k,
                        Err((view, exp, obs)) => return CaseOut::fail(format!("{sec}:apply_galois_plain:coef:{shape}:{view}:wrong"), format!("{}: {exp}", ctxs()), obs),
                    }
                    if e.msg.dense() || shape == "short" && g == 3 {
                        let mut a = p.clone();
                        let mut b = Plaintext::new();
                        if guard(|| ev.apply_galois_plain_inplace(&mut a, g)).is_err() || guard(|| ev.apply_galois_plain(p, g, &mut b)).is_err() {
                            return CaseOut::fail(format!("{sec}:apply_galois_plain:coef:{shape}:forms-panic"), "all three forms accept the operand", "in-place or destination form panicked");
                        }
                        if let Some(f) = plain_forms_agree(&w, "coef", &r, &a, &b) {
                            return f;
                        }
                        t.steps += 2;
                    }
                }
            }
            // NTT form at every level
            for (level, id) in w.ids.iter().enumerate() {
                if pc.short {
                    break;
                }
                let pn = try_op!(sec, w, "transform_plain_to_ntt", level, format!("{:?}", e.msg), ev.transform_plain_to_ntt_new(&e.pt, id));
                let k = w.kit.moduli_at(id).len();
                for (gi, &g) in elts.iter().enumerate() {
                    let ctxs = || format!("{} NTT form level {level} g={g} msg={:?}", c.spec.label(), e.msg);
                    let r = try_op!(sec, w, "apply_galois_plain:ntt", level, ctxs(), ev.apply_galois_plain_new(&pn, g));
                    t.ops += 1;
                    // (1) permutation of every residue polynomial by the evaluation-order model
                    let mut exp = vec![0u64; k * n];
                    for j in 0..k {
                        for i in 0..n {
                            exp[j * n + i] = pn.data()[j * n + perms[gi][i]];
                        }
                    }
                    if r.data() != &exp || r.parms_id() != pn.parms_id() || r.coeff_count() != pn.coeff_count() {
                        return CaseOut::fail(format!("{sec}:{:?}:apply_galois_plain:ntt:{}:wrong", w.scheme, World::lvl(level)), format!("{}: {:?}", ctxs(), &exp[..n]), format!("{:?}", &r.data()[..n.min(r.data().len())]));
                    }
                    // (2) equals the transform of the substituted polynomial
                    let sub = w.kit.plain(&pgalois(&e.coeffs, g, w.t));
                    let exp2 = try_op!(sec, w, "transform_plain_to_ntt", level, ctxs(), ev.transform_plain_to_ntt_new(&sub, id));
                    if r.data() != exp2.data() {
                        return CaseOut::fail(format!("{sec}:{:?}:apply_galois_plain:ntt-vs-transform:{}:wrong", w.scheme, World::lvl(level)), format!("{}: NTT(m(X^g)) = {:?}", ctxs(), &exp2.data()[..n]), format!("{:?}", &r.data()[..n]));
                    }
                    t.steps += 2;
                    if e.msg.dense() {
                        let mut a = pn.clone();
                        let mut b = Plaintext::new();
                        try_op!(sec, w, "apply_galois_plain_inplace:ntt", level, ctxs(), ev.apply_galois_plain_inplace(&mut a, g));
                        try_op!(sec, w, "apply_galois_plain(dest):ntt", level, ctxs(), ev.apply_galois_plain(&pn, g, &mut b));
                        if let Some(f) = plain_forms_agree(&w, "ntt", &r, &a, &b) {
                            return f;
                        }
                        t.steps += 2;
                    }
                }
            }
        } else {
            let ce = w.cenc.as_ref().unwrap();
            for (level, id) in w.ids.iter().enumerate() {
                if (w.scale_bits as f64) + 4.0 > w.logq[level] {
                    t.skipped += 1;
                    continue;
                }
                let pn = match (&e.rcoeffs, &e.cslots) {
                    (Some(v), _) => try_op!(sec, w, "encode_f64_polynomial", level, format!("{:?}", e.msg), ce.encode_f64_polynomial_new(v, Some(*id), w.scale)),
                    (_, Some(v)) => try_op!(sec, w, "encode_c64_array", level, format!("{:?}", e.msg), ce.encode_c64_array_new(v, Some(*id), w.scale)),
                    _ => unreachable!(),
                };
                let k = w.kit.moduli_at(id).len();
                // encoding error only: N/2 per coefficient at most
                let tc = 4.0 / w.scale;
                let tol = (tc, tc * n as f64);
                for (gi, &g) in elts.iter().enumerate() {
                    let ctxs = || format!("{} CKKS plaintext level {level} g={g} msg={:?}", c.spec.label(), e.msg);
                    let r = try_op!(sec, w, "apply_galois_plain:ntt", level, ctxs(), ev.apply_galois_plain_new(&pn, g));
                    t.ops += 1;
                    let mut exp = vec![0u64; k * n];
                    for j in 0..k {
                        for i in 0..n {
                            exp[j * n + i] = pn.data()[j * n + perms[gi][i]];
                        }
                    }
                    if r.data() != &exp || r.parms_id() != pn.parms_id() || r.scale() != pn.scale() {
                        return CaseOut::fail(format!("{sec}:{:?}:apply_galois_plain:ntt:{}:wrong", w.scheme, World::lvl(level)), format!("{}: {:?}", ctxs(), &exp[..n]), format!("{:?}", &r.data()[..n.min(r.data().len())]));
                    }
                    match judge(&w, &e, g, &r, tol) {
                        Ok(k) => t.steps += 1 + k,
                        Err((view, exp, obs)) => return CaseOut::fail(format!("{sec}:{:?}:apply_galois_plain:{view}:{}:wrong", w.scheme, World::lvl(level)), format!("{}: {exp}", ctxs()), obs),
                    }
                    if e.msg.dense() {
                        let mut a = pn.clone();
                        let mut b = Plaintext::new();
                        try_op!(sec, w, "apply_galois_plain_inplace:ntt", level, ctxs(), ev.apply_galois_plain_inplace(&mut a, g));
                        try_op!(sec, w, "apply_galois_plain(dest):ntt", level, ctxs(), ev.apply_galois_plain(&pn, g, &mut b));
                        if let Some(f) = plain_forms_agree(&w, "ntt", &r, &a, &b) {
                            return f;
                        }
                        t.steps += 2;
                    }
                }
            }
        }
    }
    if w.scheme != Scheme::CKKS && pc.short {
        // the empty plaintext is the zero polynomial
        let p = Plaintext::new();
        match guard(|| ev.apply_galois_plain_new(&p, 3)) {
            Ok(r) => {
                if r.data().iter().any(|&x| x != 0) {
                    return CaseOut::fail(format!("{sec}:apply_galois_plain:coef:empty:wrong"), "zero polynomial", format!("{:?}", r.data()));
                }
                t.steps += 1;
            }
            Err(pn) => return CaseOut::fail(format!("{sec}:apply_galois_plain:coef:empty:panic:{}", panic_class(&pn)), "the empty (zero) plaintext is accepted", pn),
        }
    }
    if w.scheme != Scheme::CKKS && !pc.short {
        // invalid elements refused
        let e = encode(&w, &Msg::DensePoly).unwrap();
        for g in [2usize, 2 * n + 1] {
            if guard(|| ev.apply_galois_plain_new(&e.pt, g)).is_ok() {
                return CaseOut::fail(format!("{sec}:{:?}:apply_galois_plain:bad-element:accepted", w.scheme), format!("element {g} refused"), "accepted");
            }
            t.steps += 1;
        }
    }
    finish(sec, c, &t)
}

// ------------------------------------------------------------------------------------------------
// size sections: many primes at tiny N, GaloisTool at large N, ciphertext operations at large N
// ------------------------------------------------------------------------------------------------

/// which key-switching consumer a many-prime case drives
#[derive(Serialize, Deserialize, Clone, Copy, Debug, PartialEq, Eq, Hash)]
pub enum Consumer {
    /// apply_galois for every odd g (keys for all elements)
    Galois,
    /// rotate_rows / rotate_vector for every step, column swap / conjugation (key mode of the base case)
    Rotate,
    /// apply_keyswitching between two secret keys, both directions
    KeySwitch,
}

#[derive(Serialize, Deserialize, Clone, Debug, Hash)]
pub struct MCase {
    pub op: Consumer,
    pub base: SCase,
}

fn check_primes(c: &MCase, seed: u64) -> CaseOut {
    match c.op {
        Consumer::Galois => galois_impl("primes:galois", &c.base, seed),
        Consumer::Rotate => rotate_impl("primes:rotate", &c.base, seed),
        Consumer::KeySwitch => keyswitch_impl("primes:keyswitch", &c.base, seed, None),
    }
}

/// bit sizes of a chain with `k` primes in total (k-1 data primes + the special prime, last)
fn long_chain_bits(k: usize, flavour: usize) -> Vec<usize> {
    match flavour {
        // mixed sizes (both branches of the q_j <= q_i comparison inside the key-switching loop), special prime largest
        0 => {
            let pat = [45usize, 38, 52, 41, 59, 36, 49, 57];
            let mut v: Vec<usize> = (0..k - 1).map(|i| pat[i % pat.len()]).collect();
            v.push(60);
            v
        }
        // all primes of one size: the special prime is the SMALLEST of them (`chain` hands out the largest first)
        _ => vec![50; k],
    }
}

/// the alphabet of the large-N sections: one slot vector with pairwise distinct entries, one dense polynomial,
/// unit slots at the ends of the rows and the top monomial with a negative coefficient
fn big_alphabet(w: &World, full: bool) -> Vec<Msg> {
    let n = w.n;
    let slots = w.scheme == Scheme::CKKS || w.batching;
    let mut v = vec![Msg::DensePoly];
    if slots {
        v.push(Msg::Ramp);
    }
    if full {
        v.push(Msg::Mono(n - 1, true));
        if w.scheme == Scheme::CKKS {
            v.extend([Msg::Slot(0, 0), Msg::Slot(n / 2 - 1, 1)]);
        } else if w.batching {
            v.extend([Msg::Slot(0, 0), Msg::Slot(n / 2 - 1, 0), Msg::Slot(n / 2, 1), Msg::Slot(n - 1, 0)]);
        }
    }
    v
}

/// structured step family: 0, +-2^k, +-(2^k - 1), +-(2^k + 1), +-3*2^k for every k, +-(N/2 - 1) — O(log N) steps
/// containing every 1-, 2- and some 3-term NAF shapes and all the boundaries 8 … 4096 (+-1)
fn structured_steps(n: usize) -> Vec<isize> {
    let half = (n / 2) as isize;
    let mut v: Vec<isize> = vec![0];
    let mut p = 1isize;
    while p < half {
        for d in [p - 1, p, p + 1, 3 * p] {
            if d > 0 && d < half {
                v.push(d);
                v.push(-d);
            }
        }
        p *= 2;
    }
    if half > 1 {
        v.push(half - 1);
        v.push(-(half - 1));
    }
    v.sort();
    v.dedup();
    v
}

/// short step family: every step of the default key set (direct), and one 2-term NAF shape of each kind (sum, difference,
/// with the skipped N/2 term)
fn few_steps(n: usize) -> Vec<isize> {
    let half = (n / 2) as isize;
    let mut v: Vec<isize> = vec![0];
    let mut p = 1isize;
    while p < half {
        v.push(p);
        v.push(-p);
        p *= 2;
    }
    for d in [3, half / 2 + 1, half - 1] {
        if d > 0 && d < half {
            v.push(d);
            v.push(-d);
        }
    }
    v.sort();
    v.dedup();
    v
}

/// structured element family for the table cache: the default key set in the library's own order, then for each of
/// its indices i the indices i +- 2^k (every k) — the classes that share a slot in any power-of-two direct-mapped
/// cache —, then 1, 3, N-1, N+1, 2N-3, 2N-1
fn cache_family(n: usize, default_in_order: &[usize]) -> Vec<usize> {
    let m = 2 * n;
    let mut v: Vec<usize> = default_in_order.to_vec();
    for &g in default_in_order {
        let i = (g - 1) / 2;
        let mut p = 1usize;
        while p < n {
            v.push(2 * ((i + p) % n) + 1);
            v.push(2 * ((i + n - p) % n) + 1);
            p *= 2;
        }
    }
    v.extend([1, 3 % m, n - 1, n + 1, m - 3, m - 1]);
    let mut seen = std::collections::BTreeSet::new();
    v.retain(|&g| g % 2 == 1 && g < m && seen.insert(g));
    v
}

/// smaller family for the cache-less entry points: default set, 2^k +- 1 for every k, a few small and top elements
fn elt_family(n: usize) -> Vec<usize> {
    let m = 2 * n;
    let mut v = rg::default_elts(n);
    let mut p = 2usize;
    while p <= m {
        v.push((p + 1) % m);
        v.push(p - 1);
        p *= 2;
    }
    v.extend([1, 3 % m, 5 % m, 7 % m, m - 3, m - 1]);
    v.retain(|&g| g % 2 == 1 && g < m);
    v.sort();
    v.dedup();
    v
}

#[derive(Serialize, Deserialize, Clone, Copy, Debug, PartialEq, Eq, Hash)]
pub enum GMode {
    /// apply_ntt on one tool over the cache family in the given order, then the same order again (cached)
    CacheFamily { reversed: bool },
    /// apply_ntt on one tool for EVERY odd g ascending (filling), then every g descending (cached)
    CacheAll,
    /// apply (coefficient form) over the element family x structured polynomials x 3 moduli against the naive substitution
    Coef,
    /// apply_ntt(NTT(a), g) against the reference transform of a(X^g), element family x structured polynomials
    Eval,
}

#[derive(Serialize, Deserialize, Clone, Debug, Hash)]
pub struct GCase {
    pub logn: usize,
    pub mode: GMode,
}

fn check_bigtab(c: &GCase) -> CaseOut {
    let n = 1usize << c.logn;
    let m = 2 * n;
    macro_rules! bad {
        ($key:expr, $exp:expr, $obs:expr) => {
            return CaseOut::fail(format!("bigtab:{}", $key), $exp, $obs)
        };
    }
    let tool = match guard(|| GaloisTool::new(c.logn)) {
        Ok(t) => t,
        Err(p) => bad!(format!("new:panic:{}", panic_class(&p)), format!("GaloisTool::new({}) succeeds", c.logn), p),
    };
    let mut steps = 0u64;
    let ident: Vec<u64> = (0..n as u64).collect();
    let cached_pass = |order: &[usize], round: &str, steps: &mut u64| -> Option<CaseOut> {
        for &g in order {
            let exp = rg::ntt_perm(n, g);
            let mut out = vec![u64::MAX; n];
            match guard(|| tool.apply_ntt(&ident, g, &mut out)) {
                Ok(()) => {
                    if let Some(at) = out.iter().zip(&exp).position(|(&o, &e)| o != e as u64) {
                        return Some(CaseOut::fail(
                            format!("bigtab:apply_ntt:{round}:wrong"),
                            format!("N={n} g={g} (index {}): result[{at}] = operand[{}]", (g - 1) / 2, exp[at]),
                            format!("operand[{}]", out[at]),
                        ));
                    }
                    *steps += 1;
                }
                Err(p) => return Some(CaseOut::fail(format!("bigtab:apply_ntt:{round}:panic:{}", panic_class(&p)), format!("N={n} g={g}: no panic"), p)),
            }
        }
        None
    };
    match c.mode {
        GMode::CacheFamily { reversed } => {
            let dflt = match guard(|| tool.get_elts_all()) {
                Ok(v) => v,
                Err(p) => bad!(format!("get_elts_all:panic:{}", panic_class(&p)), format!("N={n}: no panic"), p),
            };
            let mut sorted = dflt.clone();
            sorted.sort();
            sorted.dedup();
            if sorted != rg::default_elts(n) {
                bad!("get_elts_all:wrong", format!("N={n} set {:?}", rg::default_elts(n)), format!("{dflt:?}"));
            }
            let mut fam = cache_family(n, &dflt);
            if reversed {
                fam.reverse();
            }
            for round in ["fill", "reuse"] {
                if let Some(f) = cached_pass(&fam, round, &mut steps) {
                    return f;
                }
            }
        }
        GMode::CacheAll => {
            let mut all: Vec<usize> = (0..n).map(|i| 2 * i + 1).collect();
            if let Some(f) = cached_pass(&all, "fill", &mut steps) {
                return f;
            }
            all.reverse();
            if let Some(f) = cached_pass(&all, "reuse", &mut steps) {
                return f;
            }
        }
        GMode::Coef => {
            let q60 = *primes_1_mod(2 * n as u64, 60, 1).first().unwrap_or(&1152921504606846883);
            for q in [2u64, 65537, q60] {
                let md = Modulus::new(q);
                let mut polys: Vec<Vec<u64>> = vec![(0..n as u64).map(|j| mul_mod(j + 1, 0x9E37_79B9, q)).collect()];
                for k in [0, 1, n / 2 - 1, n / 2, n - 1] {
                    for v in [1u64, q - 1] {
                        let mut a = vec![0u64; n];
                        a[k] = v;
                        polys.push(a);
                    }
                }
                for &g in &elt_family(n) {
                    for a in &polys {
                        let mut out = vec![0xDEADu64; n];
                        match guard(|| tool.apply(a, g, &md, &mut out)) {
                            Ok(()) => {
                                let e = pgalois(a, g, q);
                                if let Some(at) = out.iter().zip(&e).position(|(o, x)| o != x) {
                                    bad!("apply:coef:wrong", format!("N={n} g={g} q={q}: coefficient {at} = {}", e[at]), format!("{}", out[at]));
                                }
                                steps += 1;
                            }
                            Err(p) => bad!(format!("apply:coef:panic:{}", panic_class(&p)), format!("N={n} g={g} q={q}: no panic"), p),
                        }
                    }
                }
            }
        }
        GMode::Eval => {
            let Some(&q) = primes_1_mod(m as u64, 50, 1).first() else { return CaseOut::skip("no 50-bit NTT prime") };
            let Some(psi) = crate::refmodel::ntt::min_primitive_root_2n_cyclic(n, q) else { return CaseOut::skip("no primitive root") };
            let mut polys: Vec<Vec<u64>> = vec![(0..n as u64).map(|j| mul_mod(j + 1, 0x9E37_79B9_7F4A_7C15 % q, q)).collect()];
            for k in [1, n - 1] {
                let mut a = vec![0u64; n];
                a[k] = q - 1;
                polys.push(a);
            }
            for a in &polys {
                let fa = crate::refmodel::ntt::fast_ntt(a, psi, q);
                for &g in &elt_family(n) {
                    let fb = crate::refmodel::ntt::fast_ntt(&pgalois(a, g, q), psi, q);
                    let mut out = vec![u64::MAX; n];
                    match guard(|| tool.apply_ntt(&fa, g, &mut out)) {
                        Ok(()) => {
                            if let Some(at) = out.iter().zip(&fb).position(|(o, x)| o != x) {
                                bad!("apply_ntt:eval:wrong", format!("N={n} g={g} q={q} psi={psi}: NTT(a(X^g))[{at}] = {}", fb[at]), format!("{}", out[at]));
                            }
                            steps += 1;
                        }
                        Err(p) => bad!(format!("apply_ntt:eval:panic:{}", panic_class(&p)), format!("N={n} g={g}: no panic"), p),
                    }
                }
            }
        }
    }
    CaseOut::pass(true, h64(&(c.logn, c.mode)), steps)
}

#[derive(Serialize, Deserialize, Clone, Copy, Debug, PartialEq, Eq, Hash)]
pub enum BigOp {
    /// every step -(N/2-1)..N/2-1 (slice part/parts of that list)
    RotateAll,
    /// the structured step family (slice part/parts of it) + column swap / conjugation + refusals
    RotateStruct,
    /// the short step family (0, +-2^k for every k, +-3, +-(N/4+1), +-(N/2-1)) + column swap / conjugation + refusals
    RotateFew,
    /// apply_galois (key generated per element) + apply_galois_plain for every odd g (slice part/parts of 1, 3, …, 2N-1)
    Galois,
    /// apply_keyswitching between two secret keys
    KeySwitch,
}

#[derive(Serialize, Deserialize, Clone, Debug, Hash)]
pub struct BCase {
    pub base: SCase,
    pub op: BigOp,
    pub part: usize,
    pub parts: usize,
    /// false: only the two dense messages (distinct-entry slot vector, dense polynomial); true: also the unit messages
    /// (RotateAll / Galois: at the structured steps / elements only)
    pub full: bool,
}

fn check_big(bc: &BCase, seed: u64) -> CaseOut {
    let sec = "big";
    let c = &bc.base;
    if bc.op == BigOp::KeySwitch {
        return keyswitch_impl("big:keyswitch", c, seed, Some(bc.full));
    }
    let w = match world(c, seed, sec) {
        Ok(w) => w,
        Err(e) => return CaseOut::skip(&e),
    };
    if w.scheme != Scheme::CKKS && !w.batching {
        return CaseOut::skip("plain modulus does not support batching: rotations undefined");
    }
    let n = w.n;
    let half = (n / 2) as isize;
    let ckks = w.scheme == Scheme::CKKS;
    let ev = &w.kit.eval;
    let kg = &w.kit.keygen;
    let mut t = Tally { steps: 0, skipped: 0, ops: 0 };

    // messages and their ciphertexts at every level, once
    let mut encs: Vec<(Enc, Vec<Ciphertext>)> = vec![];
    for msg in big_alphabet(&w, bc.full) {
        let e = match encode(&w, &msg) {
            Ok(e) => e,
            Err(p) => return CaseOut::fail(format!("{sec}:{:?}:encode:panic", w.scheme), "message encodable", p),
        };
        let cts = match ladder(&w, &w.kit.enc, &e.pt, false) {
            Ok(v) => v,
            Err(p) => return CaseOut::fail(format!("{sec}:{:?}:encrypt-or-modswitch:panic:{}", w.scheme, panic_class(&p)), "encrypt + mod_switch_to_next succeed", p),
        };
        t.skipped += (w.ids.len() - cts.len()) as u64;
        encs.push((e, cts));
    }
    let slice = |len: usize| -> (usize, usize) { (bc.part * len / bc.parts.max(1), (bc.part + 1) * len / bc.parts.max(1)) };

    if bc.op == BigOp::Galois {
        let dflt = rg::default_elts(n);
        let fam = elt_family(n);
        let (lo, hi) = slice(n);
        // one key set per chunk of elements: the whole slice (up to 256 keys in one object) for N <= 1024, 65 keys beyond
        let chunk = if n <= 1024 { (hi - lo).max(1) } else { 65 };
        let mut gk = GaloisKeys::default();
        for i in lo..hi {
            let g = 2 * i + 1;
            if (i - lo) % chunk == 0 {
                let elts: Vec<usize> = (i..hi.min(i + chunk)).map(|j| 2 * j + 1).collect();
                gk = try_op!(sec, w, "create_galois_keys_from_elts", 0, format!("{} {} elements from g={g}", c.spec.label(), elts.len()), kg.create_galois_keys_from_elts(&elts, false));
                for &h in &elts {
                    if !gk.has_key(h) {
                        return CaseOut::fail(format!("{sec}:{:?}:keygen:missing-key", w.scheme), format!("key for element {h} present in a set of {} keys", elts.len()), "has_key = false");
                    }
                }
            }
            let perm = rg::ntt_perm(n, g);
            for (e, cts) in &encs {
                if !e.msg.dense() && !fam.contains(&g) {
                    continue;
                }
                for (level, ct) in cts.iter().enumerate() {
                    let Some(tol) = w.room(level, 1) else {
                        t.skipped += 1;
                        continue;
                    };
                    let ctxs = || format!("{} level {level} g={g} msg={:?}", c.spec.label(), e.msg);
                    let r = try_op!(sec, w, "apply_galois", level, ctxs(), ev.apply_galois_new(ct, g, &gk));
                    t.ops += 1;
                    if r.parms_id() != ct.parms_id() || r.size() != 2 || r.is_ntt_form() != ct.is_ntt_form() || r.scale() != ct.scale() {
                        return CaseOut::fail(format!("{sec}:{:?}:apply_galois:{}:metadata", w.scheme, World::lvl(level)), format!("metadata preserved ({})", ct_meta(ct)), ct_meta(&r));
                    }
                    let d = try_op!(sec, w, "decrypt-after-apply_galois", level, ctxs(), w.kit.dec.decrypt_new(&r));
                    match judge(&w, e, g, &d, tol) {
                        Ok(k) => t.steps += k,
                        Err((view, exp, obs)) => return CaseOut::fail(format!("{sec}:{:?}:apply_galois:{view}:{}:wrong", w.scheme, World::lvl(level)), format!("{}: {exp}", ctxs()), obs),
                    }
                    if e.msg.dense() && dflt.contains(&g) {
                        let mut a = ct.clone();
                        try_op!(sec, w, "apply_galois_inplace", level, ctxs(), ev.apply_galois_inplace(&mut a, g, &gk));
                        let mut b = crate::he::dirty_like(ct, (level as u64) * 3 + 5);
                        try_op!(sec, w, "apply_galois(dest)", level, ctxs(), ev.apply_galois(ct, g, &gk, &mut b));
                        if let Some(f) = forms_agree(sec, &w, "apply_galois", level, &r, &a, &b) {
                            return f;
                        }
                        t.steps += 2;
                    }
                }
                // plaintext level: coefficient form (BFV/BGV) and NTT form at the first level
                if !ckks {
                    let ctxs = || format!("{} plaintext g={g} msg={:?}", c.spec.label(), e.msg);
                    let r = try_op!(sec, w, "apply_galois_plain:coef", 0, ctxs(), ev.apply_galois_plain_new(&e.pt, g));
                    t.ops += 1;
                    match judge(&w, e, g, &r, (0.0, 0.0)) {
                        Ok(k) => t.steps += k,
                        Err((view, exp, obs)) => return CaseOut::fail(format!("{sec}:{:?}:apply_galois_plain:coef:{view}:wrong", w.scheme), format!("{}: {exp}", ctxs()), obs),
                    }
                    if e.msg.dense() {
                        let id = &w.ids[0];
                        let k = w.kit.moduli_at(id).len();
                        let pn = try_op!(sec, w, "transform_plain_to_ntt", 0, ctxs(), ev.transform_plain_to_ntt_new(&e.pt, id));
                        let r = try_op!(sec, w, "apply_galois_plain:ntt", 0, ctxs(), ev.apply_galois_plain_new(&pn, g));
                        t.ops += 1;
                        let bad = r.data().len() != k * n || (0..k).any(|j| (0..n).any(|i| r.data()[j * n + i] != pn.data()[j * n + perm[i]]));
                        if bad || r.parms_id() != pn.parms_id() {
                            return CaseOut::fail(format!("{sec}:{:?}:apply_galois_plain:ntt:wrong", w.scheme), format!("{}: every residue polynomial permuted by the evaluation-order model", ctxs()), format!("{} words, first {:?}", r.data().len(), &r.data()[..8.min(r.data().len())]));
                        }
                        t.steps += 1;
                    }
                } else if e.msg.dense() {
                    // CKKS plaintexts are in NTT form at the first level; encoding error only
                    let ctxs = || format!("{} CKKS plaintext g={g} msg={:?}", c.spec.label(), e.msg);
                    let r = try_op!(sec, w, "apply_galois_plain:ntt", 0, ctxs(), ev.apply_galois_plain_new(&e.pt, g));
                    t.ops += 1;
                    let k = w.kit.moduli_at(&w.ids[0]).len();
                    let bad = r.data().len() != k * n || (0..k).any(|j| (0..n).any(|i| r.data()[j * n + i] != e.pt.data()[j * n + perm[i]]));
                    if bad || r.parms_id() != e.pt.parms_id() || r.scale() != e.pt.scale() {
                        return CaseOut::fail(format!("{sec}:{:?}:apply_galois_plain:ntt:wrong", w.scheme), format!("{}: every residue polynomial permuted by the evaluation-order model", ctxs()), format!("{} words, first {:?}", r.data().len(), &r.data()[..8.min(r.data().len())]));
                    }
                    let tc = 4.0 / w.scale;
                    match judge(&w, e, g, &r, (tc, tc * n as f64)) {
                        Ok(k) => t.steps += 1 + k,
                        Err((view, exp, obs)) => return CaseOut::fail(format!("{sec}:{:?}:apply_galois_plain:{view}:wrong", w.scheme), format!("{}: {exp}", ctxs()), obs),
                    }
                }
            }
        }
        return finish(sec, c, &t);
    }

    // rotations
    let (rot_name, conj_name) = if ckks { ("rotate_vector", "complex_conjugate") } else { ("rotate_rows", "rotate_columns") };
    let mode = format!("{:?}", c.keys).to_lowercase();
    let structured = structured_steps(n);
    let all_steps: Vec<isize> = match bc.op {
        BigOp::RotateAll => (-(half - 1)..=(half - 1)).collect(),
        BigOp::RotateFew => few_steps(n),
        _ => structured.clone(),
    };
    let (lo, hi) = slice(all_steps.len());
    let dflt = rg::default_elts(n);
    let default_keys = if c.keys == KeyMode::Default { Some(try_op!(sec, w, "create_galois_keys", 0, c.spec.label(), kg.create_galois_keys(false))) } else { None };
    if let Some(dk) = &default_keys {
        for &g in &dflt {
            if !dk.has_key(g) {
                return CaseOut::fail(format!("{sec}:{:?}:create_galois_keys:missing-key", w.scheme), format!("default key set contains element {g}"), "has_key = false");
            }
        }
    }
    let exact_for = |s: isize| -> Result<GaloisKeys, CaseOut> {
        let k = guard(|| kg.create_galois_keys_from_steps(&[s], false)).map_err(|p| {
            CaseOut::fail(format!("{sec}:{:?}:create_galois_keys_from_steps:L0:panic:{}", w.scheme, panic_class(&p)), format!("create_galois_keys_from_steps succeeds ({} step {s})", c.spec.label()), p)
        })?;
        if !k.has_key(rg::elt_from_step(n, s)) {
            return Err(CaseOut::fail(format!("{sec}:{:?}:create_galois_keys_from_steps:missing-key", w.scheme), format!("key for step {s} = element {} present", rg::elt_from_step(n, s)), "has_key = false"));
        }
        Ok(k)
    };
    for &s in &all_steps[lo..hi] {
        // the level tools agree with the model on this step
        for id in &w.ids {
            let cd = w.kit.ctx.get_context_data(id).unwrap();
            let o = try_op!(sec, w, "get_elt_from_step", 0, format!("step {s}"), cd.verif_galois_tool().get_elt_from_step(s));
            if o != rg::elt_from_step(n, s) {
                return CaseOut::fail(format!("{sec}:level-tool:get_elt_from_step:wrong"), format!("N={n} step={s} -> {}", rg::elt_from_step(n, s)), format!("{o}"));
            }
        }
        let g = rg::elt_from_step(n, s);
        let k = if c.keys == KeyMode::Exact || dflt.contains(&g) { 1 } else { rg::naf_ref(s as i64).len() };
        let own;
        let gk: &GaloisKeys = match &default_keys {
            Some(dk) => dk,
            None => {
                own = match exact_for(s) {
                    Ok(k) => k,
                    Err(f) => return f,
                };
                &own
            }
        };
        let opn = format!("{rot_name}:{mode}:{}", if k > 1 { "naf" } else { "direct" });
        let is_structured = bc.op != BigOp::RotateAll || structured.contains(&s);
        for (e, cts) in &encs {
            if !e.msg.dense() && !is_structured {
                continue;
            }
            for (level, ct) in cts.iter().enumerate() {
                let Some(tol) = w.room(level, k) else {
                    t.skipped += 1;
                    continue;
                };
                let ctxs = || format!("{} level {level} step {s} keys={mode} msg={:?}", c.spec.label(), e.msg);
                let r = if ckks { try_op!(sec, w, &opn, level, ctxs(), ev.rotate_vector_new(ct, s, gk)) } else { try_op!(sec, w, &opn, level, ctxs(), ev.rotate_rows_new(ct, s, gk)) };
                t.ops += 1;
                if s == 0 {
                    if ct_fingerprint(&r) != ct_fingerprint(ct) {
                        return CaseOut::fail(format!("{sec}:{:?}:{rot_name}:zero-step:changed", w.scheme), "step 0 returns the operand unchanged", ct_meta(&r));
                    }
                    t.steps += 1;
                    continue;
                }
                let d = try_op!(sec, w, "decrypt-after-rotation", level, ctxs(), w.kit.dec.decrypt_new(&r));
                let res = judge(&w, e, g, &d, tol).and_then(|a| judge_rotation(&w, e, Some(s), &d, tol).map(|b| a + b));
                match res {
                    Ok(k) => t.steps += k,
                    Err((view, exp, obs)) => {
                        return CaseOut::fail(format!("{sec}:{:?}:{opn}:{view}:{}:{}:wrong", w.scheme, if s < 0 { "neg" } else { "pos" }, World::lvl(level)), format!("{}: {exp}", ctxs()), obs)
                    }
                }
                if e.msg == Msg::Ramp && is_structured && bc.op != BigOp::RotateFew {
                    let mut a = ct.clone();
                    let mut b = crate::he::dirty_like(ct, (level as u64) * 3 + 6);
                    if ckks {
                        try_op!(sec, w, "rotate_vector_inplace", level, ctxs(), ev.rotate_vector_inplace(&mut a, s, gk));
                        try_op!(sec, w, "rotate_vector(dest)", level, ctxs(), ev.rotate_vector(ct, s, gk, &mut b));
                    } else {
                        try_op!(sec, w, "rotate_rows_inplace", level, ctxs(), ev.rotate_rows_inplace(&mut a, s, gk));
                        try_op!(sec, w, "rotate_rows(dest)", level, ctxs(), ev.rotate_rows(ct, s, gk, &mut b));
                    }
                    if let Some(f) = forms_agree(sec, &w, rot_name, level, &r, &a, &b) {
                        return f;
                    }
                    t.steps += 2;
                }
            }
        }
    }
    if bc.part == 0 {
        // column swap / conjugation
        let own;
        let gk: &GaloisKeys = match &default_keys {
            Some(dk) => dk,
            None => {
                own = match exact_for(0) {
                    Ok(k) => k,
                    Err(f) => return f,
                };
                &own
            }
        };
        for (e, cts) in &encs {
            for (level, ct) in cts.iter().enumerate() {
                let Some(tol) = w.room(level, 1) else {
                    t.skipped += 1;
                    continue;
                };
                let ctxs = || format!("{} level {level} {conj_name} keys={mode} msg={:?}", c.spec.label(), e.msg);
                let r = if ckks { try_op!(sec, w, conj_name, level, ctxs(), ev.complex_conjugate_new(ct, gk)) } else { try_op!(sec, w, conj_name, level, ctxs(), ev.rotate_columns_new(ct, gk)) };
                t.ops += 1;
                let d = try_op!(sec, w, "decrypt-after-conjugation", level, ctxs(), w.kit.dec.decrypt_new(&r));
                let res = judge(&w, e, 2 * n - 1, &d, tol).and_then(|a| judge_rotation(&w, e, None, &d, tol).map(|b| a + b));
                match res {
                    Ok(k) => t.steps += k,
                    Err((view, exp, obs)) => return CaseOut::fail(format!("{sec}:{:?}:{conj_name}:{mode}:{view}:{}:wrong", w.scheme, World::lvl(level)), format!("{}: {exp}", ctxs()), obs),
                }
            }
        }
        // steps of magnitude >= N/2 are refused
        if let Some((_, cts)) = encs.first() {
            for s in [half, -half, half + 1] {
                let r = if ckks { guard(|| ev.rotate_vector_new(&cts[0], s, gk)) } else { guard(|| ev.rotate_rows_new(&cts[0], s, gk)) };
                if let Ok(r) = r {
                    return CaseOut::fail(format!("{sec}:{:?}:{rot_name}:step-range:accepted", w.scheme), format!("step {s} (|s| >= N/2 = {half}) refused"), ct_meta(&r));
                }
                t.steps += 1;
            }
        }
    }
    finish(sec, c, &t)
}

/// parameter sets of the large-N section: (N, chain bit sizes); t = 65537 (= 1 mod 2N for every N <= 32768), CKKS scale 2^40
fn big_specs(n: usize, bits: &[usize], keys: KeyMode) -> Vec<SCase> {
    let q = chain(n, bits);
    vec![
        SCase { spec: ParamSpec::new(Scheme::BFV, n, q.clone(), 65537), err: Noise::Real, scale_bits: 0, keys },
        SCase { spec: ParamSpec::new(Scheme::BGV, n, q.clone(), 65537), err: Noise::Real, scale_bits: 0, keys },
        SCase { spec: ParamSpec::new(Scheme::CKKS, n, q, 0), err: Noise::Real, scale_bits: 40, keys },
    ]
}

// ------------------------------------------------------------------------------------------------
// enumeration
// ------------------------------------------------------------------------------------------------

fn chains(thorough: bool) -> Vec<Vec<usize>> {
    let mut v = vec![
        vec![40, 40, 50],     // special prime largest
        vec![30, 40, 50, 60], // ascending
        vec![60, 50, 40, 45], // descending data primes, special in the middle
        vec![50, 50, 30],     // special prime SMALLEST: key-switching noise large
        vec![45, 46],         // single data level
    ];
    if thorough {
        v.push(vec![60, 60, 60, 60]);
        v.push(vec![35, 36, 37, 38, 39]);
    }
    v
}

fn specs(ns: &[usize], thorough: bool, with_nonbatching: bool) -> Vec<SCase> {
    let mut out = vec![];
    for &n in ns {
        for bits in chains(thorough) {
            let q = chain(n, &bits);
            for scheme in Scheme::all() {
                if scheme == Scheme::CKKS {
                    for sb in [30u32, 40] {
                        out.push(SCase { spec: ParamSpec::new(scheme, n, q.clone(), 0), err: Noise::Real, scale_bits: sb, keys: KeyMode::Exact });
                    }
                } else {
                    let mut ts = vec![257u64, 65537];
                    if with_nonbatching {
                        ts.push(1024);
                    }
                    for t in ts {
                        out.push(SCase { spec: ParamSpec::new(scheme, n, q.clone(), t), err: Noise::Real, scale_bits: 0, keys: KeyMode::Exact });
                    }
                }
            }
        }
    }
    // simplest first
    out.sort_by_key(|c| (c.spec.n, c.spec.q.len()));
    out
}

fn with_err(mut v: Vec<SCase>, thorough: bool) -> Vec<SCase> {
    // worst-case error script on the first chain of every (N, scheme) (thorough: everywhere)
    let extra: Vec<SCase> = v
        .iter()
        .filter(|c| thorough || (c.spec.q.len() == 3 && (c.spec.t == 257 || c.scale_bits == 40)))
        .map(|c| SCase { err: Noise::AllMax, ..c.clone() })
        .collect();
    v.extend(extra);
    v
}

pub fn sections(cfg: &RunCfg) -> Vec<Box<dyn AnySection>> {
    let seed = cfg.seed;
    let thorough = cfg.thorough();
    let mut v: Vec<Box<dyn AnySection>> = vec![];

    // tables
    let mut tc = vec![];
    let (coef_max, eval_max, cache_max) = if thorough { (9, 7, 11) } else { (7, 6, 10) };
    for logn in 1..=13usize {
        let n = 1usize << logn;
        let parts = ((n * n) >> 21).max(1).min(n);
        for part in 0..parts {
            tc.push(TCase { logn, part, parts, coef: logn <= coef_max, eval: logn <= eval_max, cache: logn <= cache_max });
        }
    }
    v.push(
        E1::new(
            "tables",
            &format!(
                "N = 2..8192: every step |s| < N/2 (+ refusals), default element set, index map, generate_table_ntt for EVERY odd g < 2N; \
                 apply (coefficient form, 4 moduli, 2N unit monomials + dense) for N <= {}; apply_ntt vs naive NTT of m(X^g) for N <= {}; apply_ntt cache for N <= {}",
                1 << coef_max,
                1 << eval_max,
                1 << cache_max
            ),
            tc.into_iter(),
            check_tables,
        )
        .deadline(Duration::from_secs(120)),
    );

    let ns: Vec<usize> = if thorough { vec![4, 8, 16, 32, 64] } else { vec![4, 8, 16, 32] };

    let cases = with_err(specs(&ns, thorough, true), thorough);
    v.push(
        E1::new(
            "galois_elt",
            &format!("N in {ns:?} x 5 chains with special prime (thorough 7) x BFV/BGV (t = 257, 65537, 1024) / CKKS (scale 2^30, 2^40) x every level x EVERY odd g < 2N x alphabet (2N monomials, dense, unit slot vectors, dense slots)"),
            cases.into_iter(),
            move |c: &SCase| check_galois(c, seed),
        )
        .deadline(Duration::from_secs(300)),
    );

    // rotations (3-term NAF and the skipped N/2 term first occur at N = 32 with the default key set)
    let mut cases = vec![];
    for base in with_err(specs(&ns, thorough, false), thorough) {
        for keys in [KeyMode::Exact, KeyMode::Default] {
            cases.push(SCase { keys, ..base.clone() });
        }
    }
    if thorough {
        // 4-term NAF decompositions first occur at N = 128
        for base in specs(&[128], false, false) {
            if base.spec.q.len() == 3 && base.spec.q[0] < (1 << 41) && (base.spec.t == 257 || base.scale_bits == 40) {
                cases.push(SCase { keys: KeyMode::Default, ..base });
            }
        }
    }
    v.push(
        E1::new(
            "rotate",
            &format!("N in {ns:?} (thorough: + N=128, default keys, one chain) x chains x schemes (batching t) x every level x EVERY step -(N/2-1)..N/2-1 x {{keys for exactly that step, default key set}} + column swap / conjugation x alphabet"),
            cases.into_iter(),
            move |c: &SCase| check_rotate(c, seed),
        )
        .deadline(Duration::from_secs(300)),
    );

    let cases = with_err(specs(&ns, thorough, true), thorough);
    v.push(
        E1::new(
            "keyswitch",
            "same parameter sets x every level x both directions between two independent secret keys (public-key and symmetric sources) x alphabet; seeded source refused",
            cases.into_iter(),
            move |c: &SCase| check_keyswitch(c, seed),
        )
        .deadline(Duration::from_secs(300)),
    );

    let cases: Vec<PCase> = specs(&ns, thorough, true)
        .into_iter()
        .filter(|c| c.scale_bits != 30)
        .flat_map(|c| [false, true].into_iter().map(move |short| PCase { base: c.clone(), short }))
        .filter(|p| !(p.short && p.base.spec.scheme == Scheme::CKKS))
        .collect();
    v.push(
        E1::new(
            "galois_plain",
            "same parameter sets x EVERY odd g x {coefficient form with N coefficients + NTT form at every level, coefficient form of every shorter length 0..N-1} x alphabet",
            cases.into_iter(),
            move |c: &PCase| check_plain(c, seed),
        )
        .deadline(Duration::from_secs(300)),
    );

    // ---- size sections -------------------------------------------------------------------------

    // primes: every key-switching consumer on chains of 2..18 primes (1..17 data primes + special prime) at N = 4 / 8
    let mut cases: Vec<MCase> = vec![];
    for n in [4usize, 8] {
        for k in 2..=18usize {
            if n == 8 && !thorough && ![9, 17].contains(&k) {
                continue;
            }
            for flavour in 0..2 {
                if flavour == 1 && !thorough && ![9, 17].contains(&k) {
                    continue;
                }
                let q = chain(n, &long_chain_bits(k, flavour));
                let mut bases = vec![
                    SCase { spec: ParamSpec::new(Scheme::BFV, n, q.clone(), 257), err: Noise::Real, scale_bits: 0, keys: KeyMode::Exact },
                    SCase { spec: ParamSpec::new(Scheme::BGV, n, q.clone(), 65537), err: Noise::Real, scale_bits: 0, keys: KeyMode::Exact },
                    SCase { spec: ParamSpec::new(Scheme::CKKS, n, q.clone(), 0), err: Noise::Real, scale_bits: if flavour == 0 { 40 } else { 30 }, keys: KeyMode::Exact },
                ];
                if thorough {
                    let worst: Vec<SCase> = bases.iter().map(|b| SCase { err: Noise::AllMax, ..b.clone() }).collect();
                    bases.extend(worst);
                }
                for base in bases {
                    cases.push(MCase { op: Consumer::Galois, base: base.clone() });
                    cases.push(MCase { op: Consumer::KeySwitch, base: base.clone() });
                    cases.push(MCase { op: Consumer::Rotate, base: SCase { keys: KeyMode::Default, ..base.clone() } });
                    if n == 8 {
                        // at N = 4 the only steps are -1, 0, 1: exact and default key sets coincide
                        cases.push(MCase { op: Consumer::Rotate, base });
                    }
                }
            }
        }
    }
    cases.sort_by_key(|c| (c.base.spec.q.len(), c.base.spec.n));
    v.push(
        E1::new(
            "primes",
            &format!(
                "chains of k = 2..18 coefficient primes (k-1 = 1..17 data primes + special prime; mixed 36..59-bit sizes with a 60-bit special prime{}) at N = 4 (every k) and N = 8 ({}) x BFV t=257 / BGV t=65537 / CKKS x EVERY level of the chain (1..k-1 primes) x {{apply_galois for EVERY odd g, every rotation step with exact-step and default keys + column swap / conjugation, apply_keyswitching in both directions}} x full alphabet{}",
                if thorough { "; all primes 50-bit with the special prime smallest" } else { "; all primes 50-bit for k = 9, 17" },
                if thorough { "every k" } else { "k = 9, 17" },
                if thorough { " x error script Real / AllMax" } else { "" }
            ),
            cases.into_iter(),
            move |c: &MCase| check_primes(c, seed),
        )
        .deadline(Duration::from_secs(300)),
    );

    // bigtab: GaloisTool alone at large N
    let mut cases: Vec<GCase> = vec![];
    for logn in 7..=13usize {
        cases.push(GCase { logn, mode: GMode::Coef });
        cases.push(GCase { logn, mode: GMode::Eval });
        if logn >= 10 {
            cases.push(GCase { logn, mode: GMode::CacheFamily { reversed: false } });
            cases.push(GCase { logn, mode: GMode::CacheFamily { reversed: true } });
        }
        if thorough && logn >= 12 {
            cases.push(GCase { logn, mode: GMode::CacheAll });
        }
    }
    v.push(
        E1::new(
            "bigtab",
            &format!(
                "GaloisTool alone, N = 128..8192: apply (coefficient form; default elements, 2^k+-1, small and top elements x dense + 10 unit monomials x moduli 2, 65537, 60-bit) and apply_ntt of the reference transform of the same polynomials against the substitution X -> X^g; N = 1024..8192: apply_ntt table cache on ONE tool over the default key set in library order + all index classes i +- 2^k of its members, forward and reversed order, each order twice (fill, reuse){}",
                if thorough { "; N = 4096, 8192: EVERY odd g ascending (fill) then descending (reuse) on one tool" } else { "" }
            ),
            cases.into_iter(),
            check_bigtab,
        )
        .batch(1)
        .deadline(Duration::from_secs(300)),
    );

    // big: ciphertext operations at large N
    let mut cases: Vec<BCase> = vec![];
    let push = |cases: &mut Vec<BCase>, n: usize, bits: &[usize], keys: KeyMode, op: BigOp, parts: usize, full: bool| {
        for base in big_specs(n, bits, keys) {
            for part in 0..parts {
                cases.push(BCase { base: base.clone(), op, part, parts, full });
            }
        }
    };
    // (a) few primes, every step / every element
    let all_ns: Vec<usize> = if thorough { vec![256, 512, 1024, 2048, 4096, 8192] } else { vec![256, 1024] };
    for &n in &all_ns {
        let parts = (n / 256).max(1);
        for keys in [KeyMode::Default, KeyMode::Exact] {
            if thorough || n <= 256 || keys == KeyMode::Default {
                push(&mut cases, n, &[60, 60], keys, BigOp::RotateAll, parts, true);
            }
        }
        push(&mut cases, n, &[60, 60], KeyMode::Exact, BigOp::Galois, parts, true);
    }
    // (b) structured steps on two data levels
    let struct_ns: Vec<usize> = if thorough { vec![128, 512, 2048, 4096, 8192] } else { vec![8192] };
    for &n in &struct_ns {
        let parts = if n >= 4096 { 4 } else { 1 };
        if thorough {
            push(&mut cases, n, &[50, 55, 60], KeyMode::Default, BigOp::RotateStruct, parts, true);
            push(&mut cases, n, &[50, 55, 60], KeyMode::Exact, BigOp::RotateStruct, parts, true);
        } else {
            push(&mut cases, n, &[50, 55, 60], KeyMode::Default, BigOp::RotateFew, 1, false);
        }
        push(&mut cases, n, &[50, 55, 60], KeyMode::Exact, BigOp::KeySwitch, 1, thorough);
    }
    // (c) many primes at large N (every level): 10 primes at N = 1024; thorough 9 / 17 / 18 primes at N = 1024, 9 / 10 primes at N = 4096
    let mut many: Vec<(usize, usize)> = vec![(1024, 10)];
    if thorough {
        many.extend([(1024, 9), (1024, 17), (1024, 18), (4096, 9), (4096, 10)]);
    }
    for &(n, k) in &many {
        let bits = long_chain_bits(k, 0);
        if thorough {
            push(&mut cases, n, &bits, KeyMode::Default, BigOp::RotateStruct, 8, n * k <= 10240);
        } else {
            push(&mut cases, n, &bits, KeyMode::Default, BigOp::RotateFew, 3, false);
        }
        push(&mut cases, n, &bits, KeyMode::Exact, BigOp::KeySwitch, 1, thorough);
    }
    cases.sort_by_key(|c| (c.base.spec.n * c.base.spec.q.len(), c.part));
    v.push(
        E1::new(
            "big",
            &format!(
                "BFV / BGV (t = 65537) / CKKS (scale 2^40); alphabet D = {{slot vector with pairwise distinct entries, dense polynomial}}, U = {{top monomial with coefficient -1, unit slots at the row ends}}. \
                 (a) N in {all_ns:?}, one 60-bit data prime + special prime: EVERY step -(N/2-1)..N/2-1 with the default key set (NAF composition) and with a key generated for exactly that step{}; \
                 apply_galois (key sets of 65 .. 256 elements) and apply_galois_plain (coefficient + NTT form) for EVERY odd g < 2N; D everywhere, U at the structured steps / elements. \
                 (b) N in {struct_ns:?}, two data levels: {} keys, column swap / conjugation, refusals, apply_keyswitching both directions; D{}. \
                 (c) (N, primes) in {many:?} at EVERY level: the same step family with default keys; D{}; apply_keyswitching",
                if thorough { "" } else { " (N = 256 only)" },
                if thorough { "structured steps (0, +-2^k, +-(2^k+-1), +-3*2^k, +-(N/2-1)) with default and exact-step" } else { "steps 0, +-2^k (every k), +-3, +-(N/4+1), +-(N/2-1) with default" },
                if thorough { " + U" } else { "" },
                if thorough { " (+ U for N = 1024 with 9, 10 primes)" } else { "" }
            ),
            cases.into_iter(),
            move |c: &BCase| check_big(c, seed),
        )
        .batch(1)
        .deadline(Duration::from_secs(600)),
    );
    v
}
