//! C12 — CKKS encoding is the rounded scaled canonical embedding on every path.
//!
//! E1 sections:
//!  * `embedding`  the reference itself: slot order (generator 3, conjugate slots) of the naive O(N^2)
//!                 embedding against encode/decode of every unit slot vector (1 and i), N = 2..16 (64 thorough)
//!  * `vector`     `encode_c64_array`: complex alphabet^slots (N <= 4), unit / constant / prefix / mixed vectors beyond
//!  * `single`     `encode_f64_single`, `encode_c64_single`, `encode_i64_single`
//!  * `coefflist`  `encode_f64_polynomial`: lists of every length 1..N
//!  * `decode_borrow` decoding of negative coefficients when a word of the total modulus is smaller than the
//!                 corresponding word of the magnitude (word-wise subtraction in doubles cancels)
//!  * `big_vector`, `big_coefflist`, `big_primes`  production sizes: N = 32..1024 (8192 thorough) with EVERY input
//!                 length on structured families (unit / constant / alternating / ramp), 1..20 primes at the level
//!                 for all five entry points on the 64-bit, 128-bit and multi-word paths at N = 8 and N = 1024
//!                 (4096 thorough) — see the block comment above `Fam`
//! each of `single`, `coefflist`, `vector` over: prime chains x every level (key level included) x scale grid crossing the
//! 64- and 128-bit paths from both sides (plus non-positive / NaN / oversized scales) x value groups
//! (plain alphabet, 2^64 / 2^128 edge values, values placed around 2^(B-3), q/2, 2^(B-1), q).
//!
//! Oracle: the plaintext is taken back to coefficients (library inverse NTT, confirmed by the naive forward
//! NTT of `refmodel::poly` with the table's root), CRT-composed and centred with `BigU`/`BigI` into ONE integer
//! vector c, which is compared with round(scale * naive inverse embedding of the input) (`refmodel::embed`).

use crate::engine::*;
use crate::he::*;
use crate::refmodel::bigu::*;
use crate::refmodel::embed::*;
use crate::refmodel::poly::naive_ntt;
use heathcliff::{CKKSEncoder, ContextData, HeContext, Plaintext, ValCheck};
type ContextDataPointer = Arc<ContextData>;
use num_complex::Complex;
use serde::{Deserialize, Serialize};
use std::collections::BTreeSet;
use std::sync::Arc;
use std::time::Duration;

pub fn describe(rep: &Report) {
    rep.set_rule(
        "case = (explicit prime chain, level given as number of primes, entry point, scale, value group); the check loops over \
         ALL values of the group (traces_validated_against_impl counts the individual encode calls judged: accepted ones compared \
         coefficient-wise with the big-integer reference and decoded again, refused ones compared with the admissibility model). \
         non-trivial = at least one accepted encoding with a non-zero coefficient vector was compared.",
    );
    rep.assume("reference: naive O(N^2) embedding with libm sin/cos in the slot order zeta^(3^j), self-tested (round trip, slot exponents) and validated against the library on every unit vector in section `embedding`");
    rep.assume("double-precision allowance per coefficient: 1/2 + N*max(1,log2 N)*2^-52*scale*|v|_inf for the vector/complex entry points; exact equality with round(v*scale) for the real, integer and coefficient-list entry points whenever v*scale is a double (always for power-of-two scales), else 1 + 2^-52*|v*scale|");
    rep.assume("admissibility model: scale must be > 0 (NaN is not) and < 2^(B-1), B = bit length of the level's modulus q; magnitudes below 2^(B-3) must be accepted, magnitudes >= q/2 (no centred representative) must be refused, in between either answer is accepted but an accepted encoding must be correct; a refusal must be an [Invalid argument] panic (an arithmetic-overflow panic is a refusal only in overflow-checked builds)");
    rep.assume("scales and scaled magnitudes are kept below 2^1000 (doubles end at 2^1024); NaN input values and the empty coefficient list are observed, not judged");
    rep.assume("production-size sections (big_*): case = (parameter set, level, entry point, scale 2^e, family, list of input lengths) resp. (parameter set, level, entry point); the check loops over the lengths resp. over the scales and inputs. Only inputs that must be accepted (scaled magnitude below 2^(B-3)) are enumerated there. Reference: the naive embedding sum of refmodel::embed accumulated slot by slot with tabulated sin/cos (same terms, same order; equality with inv_embed / fwd_embed for every family and every length is self-tested for N <= 64); plaintexts are compared through the reference NTT refmodel::ntt::fast_ntt / fast_intt (validated against the transform by definition) with the root of the library's table (checked to be a primitive 2N-th root); CRT composition in native 128-bit integers or precomputed BigU terms, re-composed with refmodel::bigu::crt on four coefficients of every plaintext");
    rep.assume("big_*: structured families instead of the full product: a defect that needs two unrelated non-zero slots at a particular pair of positions AND a particular length is only seen through the ramp (pairwise different values in every position of every length)");
    rep.assume("prime chains: the largest NTT primes of the stated bit sizes (he::chain) plus one searched chain whose modulus has a small low word; not every prime of 20..60 bits");
}

// ---------------------------------------------------------------------------------------------
// case description
// ---------------------------------------------------------------------------------------------

#[derive(Serialize, Deserialize, Clone, Copy, Debug, PartialEq, Eq, Hash)]
pub enum Entry {
    C64Array,
    F64Single,
    C64Single,
    I64Single,
    F64Poly,
}

impl Entry {
    fn name(self) -> &'static str {
        match self {
            Entry::C64Array => "c64_array",
            Entry::F64Single => "f64_single",
            Entry::C64Single => "c64_single",
            Entry::I64Single => "i64_single",
            Entry::F64Poly => "f64_polynomial",
        }
    }
    /// the vector / complex entry points go through the FFT (approximate), the others are exact
    fn approx(self) -> bool {
        matches!(self, Entry::C64Array | Entry::C64Single)
    }
}

#[derive(Serialize, Deserialize, Clone, Copy, Debug, PartialEq)]
pub enum Sc {
    /// 2^e
    Pow2(i32),
    /// m * 2^e with a short decimal m
    Mul { m: f64, e: i32 },
    Zero,
    NegZero,
    /// -(2^e)
    Neg(i32),
    Nan,
    Inf,
    NegInf,
}

impl Sc {
    pub fn value(self) -> f64 {
        match self {
            Sc::Pow2(e) => 2f64.powi(e),
            Sc::Mul { m, e } => m * 2f64.powi(e),
            Sc::Zero => 0.0,
            Sc::NegZero => -0.0,
            Sc::Neg(e) => -(2f64.powi(e)),
            Sc::Nan => f64::NAN,
            Sc::Inf => f64::INFINITY,
            Sc::NegInf => f64::NEG_INFINITY,
        }
    }
    fn class(self) -> &'static str {
        match self {
            Sc::Pow2(_) | Sc::Mul { .. } => "positive",
            Sc::Zero | Sc::NegZero => "zero",
            Sc::Neg(_) | Sc::NegInf => "negative",
            Sc::Nan => "nan",
            Sc::Inf => "inf",
        }
    }
}

#[derive(Serialize, Deserialize, Clone, Copy, Debug, PartialEq, Eq, Hash)]
pub enum Group {
    /// the property's value alphabet
    Plain,
    /// values whose scaled magnitude sits just below / exactly at / just above a power of two (2^63..2^65, 2^127..2^129 with the scale grid)
    Edge,
    /// values placed relative to the level's modulus: 2^(B-3), 2^(B-2), q/2, 2^(B-1), q, 2^B (both sides, both signs), infinities
    Fit,
}

#[derive(Serialize, Deserialize, Clone, Debug)]
pub struct Case {
    pub spec: ParamSpec,
    /// number of primes of the level encoded at (spec.q.len() = key level)
    pub level_primes: usize,
    pub entry: Entry,
    pub scale: Sc,
    pub group: Group,
}

#[derive(Serialize, Deserialize, Clone, Debug)]
pub struct EmbCase {
    pub spec: ParamSpec,
    pub slot: usize,
    /// false: value 1, true: value i
    pub imag: bool,
}

// ---------------------------------------------------------------------------------------------
// inputs
// ---------------------------------------------------------------------------------------------

type C = (f64, f64);

#[derive(Clone, Debug)]
enum Input {
    Arr(Vec<C>),
    F(f64),
    Cx(C),
    I(i64),
    Poly(Vec<f64>),
}

fn complex_alphabet() -> Vec<C> {
    let p30 = 2f64.powi(30);
    let p60 = 2f64.powi(60);
    vec![
        (0.0, 0.0),
        (1.0, 0.0),
        (-1.0, 0.0),
        (0.5, 0.0),
        (-0.5, 0.0),
        (0.0, 1.0),
        (0.0, -1.0),
        (1.0, 1.0),
        (-1.0, -1.0),
        (1024.0, 0.0),
        (-1024.0, 0.0),
        (p30, -p30),
        (-p30, p30),
        (p60, 0.0),
        (-p60, 0.0),
        (-0.75, 0.25),
        (5e6, -3.0),
        (0.0, -p60),
    ]
}

fn real_alphabet() -> Vec<f64> {
    let p30 = 2f64.powi(30);
    let p60 = 2f64.powi(60);
    let mut v = vec![0.0, -0.0];
    for x in [0.25, 0.5, 1.0, 1.5, 3.0, 1024.0, 5e6, p30, p30 + 1.0, 2f64.powi(53) - 1.0, p60, 0.3] {
        v.push(x);
        v.push(-x);
    }
    v
}

fn edge_reals() -> Vec<f64> {
    let below = 1.0 - 2f64.powi(-53);
    let above = 1.0 + 2f64.powi(-52);
    let mut v = vec![];
    for x in [below, 1.0, above, 0.5 * below, 0.5, 2.0 * above, 2.0] {
        v.push(x);
        v.push(-x);
    }
    v
}

/// next double above / below a positive finite double
fn next_up(x: f64) -> f64 {
    f64::from_bits(x.to_bits() + 1)
}
fn next_down(x: f64) -> f64 {
    f64::from_bits(x.to_bits() - 1)
}

/// positive magnitudes around the thresholds of a modulus q with B bits (doubles, each checked against BigU later)
fn fit_magnitudes(q: &BigU) -> Vec<f64> {
    let b = q.bits() as i32;
    let mut v = vec![];
    for e in [b - 4, b - 3, b - 2, b - 1, b] {
        if (1..1000).contains(&e) {
            let p = 2f64.powi(e);
            v.push(next_down(p));
            v.push(p);
            v.push(next_up(p));
        }
    }
    if b < 1000 {
        let h = q.shr(1).to_f64(); // ~ q/2
        v.push(next_down(next_down(h)));
        v.push(h);
        v.push(next_up(next_up(h)));
        let qf = q.to_f64();
        v.push(next_down(next_down(qf)));
        v.push(next_up(next_up(qf)));
        v.push(qf * 3.0);
    }
    v
}

fn int_alphabet(moduli: &[u64], q: &BigU) -> Vec<i64> {
    let qmin = *moduli.iter().min().unwrap() as i64;
    let qmax = *moduli.iter().max().unwrap() as i64;
    let mut v: Vec<i64> = vec![0, 1, -1, 2, -2];
    for x in [qmin - 1, qmin, qmin + 1, qmax - 1, qmax, qmax + 1, 2 * qmin + 3, 5_000_000, 1 << 40, (1 << 62) + 12345, i64::MAX] {
        v.push(x);
        v.push(-x);
    }
    v.push(i64::MIN);
    // modulus-relative values
    let b = q.bits();
    for e in [b as i64 - 4, b as i64 - 3, b as i64 - 2, b as i64 - 1] {
        if (1..63).contains(&e) {
            let p = 1i64 << e;
            for x in [p - 1, p, p + 1] {
                v.push(x);
                v.push(-x);
            }
        }
    }
    if let Some(qq) = q.to_u64() {
        if qq < (1u64 << 62) {
            let h = (qq / 2) as i64;
            for x in [h - 1, h, h + 1, h + 2, qq as i64 - 1, qq as i64, qq as i64 + 1] {
                v.push(x);
                v.push(-x);
            }
        }
    }
    v.sort();
    v.dedup();
    v
}

fn array_inputs(slots: usize, thorough: bool) -> Vec<Vec<C>> {
    let a = complex_alphabet();
    let mut out: Vec<Vec<C>> = vec![vec![]];
    if slots <= 2 {
        // every vector of every length over the alphabet
        let mut layer: Vec<Vec<C>> = vec![vec![]];
        for _ in 0..slots {
            let mut next = vec![];
            for v in &layer {
                for &x in &a {
                    let mut w = v.clone();
                    w.push(x);
                    next.push(w);
                }
            }
            out.extend(next.iter().cloned());
            layer = next;
        }
        return out;
    }
    // unit vectors
    for j in 0..slots {
        for &x in &a[1..] {
            let mut w = vec![(0.0, 0.0); slots];
            w[j] = x;
            out.push(w);
        }
    }
    // constant prefixes of every length
    for len in 1..=slots {
        for &x in &a {
            out.push(vec![x; len]);
        }
    }
    // mixed
    for t in 0..a.len() {
        out.push((0..slots).map(|j| a[(t + 5 * j) % a.len()]).collect());
        if thorough {
            out.push((0..slots).map(|j| a[(t + 7 * j + j * j) % a.len()]).collect());
        }
    }
    // all pairs in the first two slots, rest zero (dense interaction of two slots)
    if thorough {
        for &x in &a {
            for &y in &a {
                let mut w = vec![(0.0, 0.0); slots];
                w[0] = x;
                w[1] = y;
                out.push(w);
            }
        }
    }
    out
}

fn poly_inputs(n: usize, reals: &[f64]) -> Vec<Vec<f64>> {
    let mut out = vec![];
    for len in 1..=n {
        // constant lists
        for &x in reals {
            out.push(vec![x; len]);
        }
        // one non-zero coefficient in the last position
        for &x in reals {
            let mut w = vec![0.0; len];
            w[len - 1] = x;
            out.push(w);
        }
        // mixed
        for t in 0..3usize {
            out.push((0..len).map(|j| reals[(t * 7 + 3 * j) % reals.len()]).collect());
        }
    }
    out
}

fn inputs_for(c: &Case, n: usize, moduli: &[u64], q: &BigU, thorough: bool) -> Vec<Input> {
    let slots = n / 2;
    let sc = c.scale.value();
    let pow2 = matches!(c.scale, Sc::Pow2(_)) && sc.is_finite() && sc > 0.0;
    // reals of the group
    let reals: Vec<f64> = match c.group {
        Group::Plain => real_alphabet(),
        Group::Edge => edge_reals(),
        Group::Fit => {
            let mut v = vec![];
            if pow2 {
                for m in fit_magnitudes(q) {
                    let x = m / sc; // exact (power of two), may over/underflow for extreme scales
                    if x.is_finite() && x * sc == m {
                        v.push(x);
                        v.push(-x);
                    }
                }
            }
            v.push(f64::MAX);
            v.push(-f64::MAX);
            v.push(f64::INFINITY);
            v.push(f64::NEG_INFINITY);
            v
        }
    };
    match c.entry {
        Entry::F64Single => reals.into_iter().map(Input::F).collect(),
        Entry::I64Single => int_alphabet(moduli, q).into_iter().map(Input::I).collect(),
        Entry::C64Single => match c.group {
            Group::Plain => complex_alphabet().into_iter().map(Input::Cx).collect(),
            _ => {
                let mut v = vec![];
                for &x in &reals {
                    v.push(Input::Cx((x, 0.0)));
                    v.push(Input::Cx((0.0, x)));
                    v.push(Input::Cx((x, -x)));
                }
                v
            }
        },
        Entry::C64Array => match c.group {
            Group::Plain => array_inputs(slots, thorough && slots <= 8).into_iter().map(Input::Arr).collect(),
            _ => {
                let mut v = vec![];
                for &x in &reals {
                    v.push(Input::Arr(vec![(x, 0.0); slots])); // constant: coefficient 0 = x*scale
                    v.push(Input::Arr(vec![(x, 0.0)])); // one slot: coefficients x*scale*2/N*cos(..)
                    v.push(Input::Arr((0..slots).map(|j| if j % 2 == 0 { (0.0, x) } else { (0.0, -x) }).collect()));
                }
                v
            }
        },
        Entry::F64Poly => match c.group {
            Group::Plain => poly_inputs(n, &real_alphabet()).into_iter().map(Input::Poly).collect(),
            _ => {
                let mut v = vec![];
                for &x in &reals {
                    v.push(Input::Poly(vec![x]));
                    v.push(Input::Poly(vec![1.0, x]));
                    let mut w = vec![0.25; n];
                    w[n - 1] = x;
                    v.push(Input::Poly(w));
                }
                v
            }
        },
    }
}

// ---------------------------------------------------------------------------------------------
// reference
// ---------------------------------------------------------------------------------------------

struct Expect {
    /// expected integer coefficient per position (None: scaled value not finite)
    big: Option<Vec<BigI>>,
    /// the real number the coefficient approximates (approximate entries: scale * naive embedding)
    real: Vec<f64>,
    /// per-coefficient allowance (absolute)
    tol: Vec<f64>,
    /// |v|_inf of the input
    vmax: f64,
    /// the input slots (what decode has to give back), None for the coefficient list
    slots: Option<Vec<C>>,
}

fn expect(inp: &Input, n: usize, scale: f64) -> Expect {
    let slots = n / 2;
    let logn = (n.trailing_zeros() as f64).max(1.0);
    let zero = || BigI::new(false, BigU::zero());
    match inp {
        Input::Arr(_) | Input::Cx(_) => {
            let vals: Vec<C> = match inp {
                Input::Arr(v) => v.clone(),
                Input::Cx(z) => vec![*z; slots],
                _ => unreachable!(),
            };
            let vmax = vals.iter().map(|z| z.0.hypot(z.1)).fold(0.0, f64::max);
            let x = inv_embed(&vals, n);
            let real: Vec<f64> = x.iter().map(|&v| v * scale).collect();
            let finite = real.iter().all(|r| r.is_finite()) && vmax.is_finite() && (vmax * scale).is_finite();
            let bnd = 0.5 + (n as f64) * logn * 2f64.powi(-52) * scale * vmax;
            let mut full = vals.clone();
            full.resize(slots, (0.0, 0.0));
            Expect {
                big: if finite { Some(real.iter().map(|&r| big_round_f64(r)).collect()) } else { None },
                tol: vec![bnd; n],
                real,
                vmax,
                slots: Some(full),
            }
        }
        Input::F(v) => {
            let p = v * scale;
            let mut real = vec![0.0; n];
            real[0] = p;
            let mut tol = vec![0.0; n];
            let big = if v.is_finite() && p.is_finite() {
                let (b, exact) = big_round_product(*v, scale);
                if !exact {
                    tol[0] = 1.0 + p.abs() * 2f64.powi(-52);
                }
                let mut bv = vec![zero(); n];
                bv[0] = b;
                Some(bv)
            } else {
                None
            };
            Expect { big, real, tol, vmax: v.abs(), slots: Some(vec![(*v, 0.0); slots]) }
        }
        Input::I(v) => {
            let mut bv = vec![zero(); n];
            bv[0] = BigI::from_i128(*v as i128);
            let mut real = vec![0.0; n];
            real[0] = *v as f64;
            Expect { big: Some(bv), real, tol: vec![0.0; n], vmax: (*v as f64).abs(), slots: Some(vec![(*v as f64, 0.0); slots]) }
        }
        Input::Poly(vs) => {
            let mut real = vec![0.0; n];
            let mut tol = vec![0.0; n];
            let mut bv = vec![zero(); n];
            let mut finite = true;
            for (k, v) in vs.iter().enumerate() {
                let p = v * scale;
                real[k] = p;
                if v.is_finite() && p.is_finite() {
                    let (b, exact) = big_round_product(*v, scale);
                    if !exact {
                        tol[k] = 1.0 + p.abs() * 2f64.powi(-52);
                    }
                    bv[k] = b;
                } else {
                    finite = false;
                }
            }
            Expect { big: if finite { Some(bv) } else { None }, real, tol, vmax: vs.iter().fold(0.0, |a, v| a.max(v.abs())), slots: None }
        }
    }
}

/// the level with `primes` coefficient primes
fn level(ctx: &Arc<HeContext>, primes: usize) -> Option<ContextDataPointer> {
    let mut cd = ctx.key_context_data();
    while let Some(c) = cd {
        if c.parms().coeff_modulus().len() == primes {
            return Some(c);
        }
        cd = c.next_context_data();
    }
    None
}

/// Plaintext -> ONE centred integer coefficient vector (or a description of what is inconsistent)
fn coefficients(pt: &Plaintext, cd: &ContextDataPointer, n: usize, moduli: &[u64], q: &BigU) -> Result<Vec<BigI>, (String, String)> {
    let k = moduli.len();
    if pt.data().len() != n * k || pt.coeff_count() != n * k {
        return Err(("shape".into(), format!("data len {} coeff_count {} for N={n} k={k}", pt.data().len(), pt.coeff_count())));
    }
    for j in 0..k {
        if let Some(x) = pt.data()[j * n..(j + 1) * n].iter().find(|&&x| x >= moduli[j]) {
            return Err(("residue-range".into(), format!("component {j} holds {x} >= {}", moduli[j])));
        }
    }
    let mut data = pt.data().clone();
    let tables = cd.small_ntt_tables();
    for j in 0..k {
        tables[j].inverse_ntt_negacyclic_harvey(&mut data[j * n..(j + 1) * n]);
        // independent confirmation of the coefficient form: naive forward transform gives the plaintext back
        let fwd = naive_ntt(&data[j * n..(j + 1) * n], tables[j].root(), moduli[j]);
        if fwd[..] != pt.data()[j * n..(j + 1) * n] {
            return Err(("ntt-form".into(), format!("component {j}: naive NTT of the library's inverse NTT differs from the plaintext")));
        }
    }
    let mut out = Vec::with_capacity(n);
    for i in 0..n {
        let res: Vec<u64> = (0..k).map(|j| data[j * n + i]).collect();
        let x = crt(&res, moduli);
        out.push(centered(&x, q));
    }
    Ok(out)
}

fn fmt_input(i: &Input) -> String {
    match i {
        Input::Arr(v) => format!("values={:?}", v),
        Input::F(v) => format!("value={:e} (bits {:#018x})", v, v.to_bits()),
        Input::Cx(z) => format!("value=({:e},{:e})", z.0, z.1),
        Input::I(v) => format!("value={v}"),
        Input::Poly(v) => format!("coefficients={:?}", v),
    }
}

fn fmt_big(b: &BigI) -> String {
    format!("{}{}", if b.neg { "-" } else { "" }, b.mag.to_hex())
}

fn mag_class(m: &BigU) -> &'static str {
    let two64 = BigU::pow2(64);
    let two128 = BigU::pow2(128);
    let near = |p: &BigU| {
        let d = if m > p { m.sub(p) } else { p.sub(m) };
        d.shl(40) <= *p
    };
    if *m == two64 {
        "eq2^64"
    } else if *m == two128 {
        "eq2^128"
    } else if near(&two64) {
        "near2^64"
    } else if near(&two128) {
        "near2^128"
    } else if m.bits() <= 64 {
        "w1"
    } else if m.bits() <= 128 {
        "w2"
    } else {
        "w3+"
    }
}

fn is_invalid_argument(p: &str) -> bool {
    p.starts_with("[Invalid argument]")
}

struct Kit12 {
    ctx: Arc<HeContext>,
    enc: CKKSEncoder,
}

fn call_encode(k: &Kit12, inp: &Input, id: heathcliff::ParmsID, scale: f64, dirty: Option<&Plaintext>) -> Result<Plaintext, String> {
    let enc = &k.enc;
    match dirty {
        None => guard(|| match inp {
            Input::Arr(v) => enc.encode_c64_array_new(&v.iter().map(|z| Complex::new(z.0, z.1)).collect::<Vec<_>>(), Some(id), scale),
            Input::F(v) => enc.encode_f64_single_new(*v, Some(id), scale),
            Input::Cx(z) => enc.encode_c64_single_new(Complex::new(z.0, z.1), Some(id), scale),
            Input::I(v) => enc.encode_i64_single_new(*v, Some(id)),
            Input::Poly(v) => enc.encode_f64_polynomial_new(v, Some(id), scale),
        }),
        Some(d) => guard(|| {
            let mut dest = d.clone();
            match inp {
                Input::Arr(v) => enc.encode_c64_array(&v.iter().map(|z| Complex::new(z.0, z.1)).collect::<Vec<_>>(), Some(id), scale, &mut dest),
                Input::F(v) => enc.encode_f64_single(*v, Some(id), scale, &mut dest),
                Input::Cx(z) => enc.encode_c64_single(Complex::new(z.0, z.1), Some(id), scale, &mut dest),
                Input::I(v) => enc.encode_i64_single(*v, Some(id), &mut dest),
                Input::Poly(v) => enc.encode_f64_polynomial(v, Some(id), scale, &mut dest),
            }
            dest
        }),
    }
}

fn call_encode_default_level(k: &Kit12, inp: &Input, scale: f64) -> Result<Plaintext, String> {
    let enc = &k.enc;
    guard(|| match inp {
        Input::Arr(v) => enc.encode_c64_array_new(&v.iter().map(|z| Complex::new(z.0, z.1)).collect::<Vec<_>>(), None, scale),
        Input::F(v) => enc.encode_f64_single_new(*v, None, scale),
        Input::Cx(z) => enc.encode_c64_single_new(Complex::new(z.0, z.1), None, scale),
        Input::I(v) => enc.encode_i64_single_new(*v, None),
        Input::Poly(v) => enc.encode_f64_polynomial_new(v, None, scale),
    })
}

#[derive(PartialEq, Clone, Copy, Debug)]
enum Zone {
    MustAccept,
    May,
    MustRefuse,
}

fn check(section: &str, c: &Case, seed: u64, thorough: bool) -> CaseOut {
    let tag = h64(&serde_json::to_string(c).unwrap_or_default());
    env_real(seed, tag);
    let n = c.spec.n;
    let ctx = match guard(|| c.spec.context()) {
        Ok(x) => x,
        Err(p) => return CaseOut::skip(&format!("context construction panicked: {}", panic_class(&p))),
    };
    if !ctx.parameters_set() {
        return CaseOut::skip("parameter set rejected by the library");
    }
    let Some(cd) = level(&ctx, c.level_primes) else { return CaseOut::skip("no such level") };
    let kit = Kit12 { enc: CKKSEncoder::new(ctx.clone()), ctx: ctx.clone() };
    let id = *cd.parms_id();
    let moduli: Vec<u64> = cd.parms().coeff_modulus().iter().map(|m| m.value()).collect();
    if moduli[..] != c.spec.q[..c.level_primes] {
        return CaseOut::fail(format!("{section}:chain:level-moduli"), format!("{:?}", &c.spec.q[..c.level_primes]), format!("{:?}", moduli));
    }
    let q = BigU::product(&moduli);
    let b = q.bits();
    if cd.total_coeff_modulus_bit_count() != b {
        return CaseOut::fail(format!("{section}:chain:bit-count"), format!("{b}"), format!("{}", cd.total_coeff_modulus_bit_count()));
    }
    let words = (b + 63) / 64;
    let is_first = id == *ctx.first_parms_id();
    let data_level = cd.chain_index() <= ctx.first_context_data().unwrap().chain_index();
    let scale = if c.entry == Entry::I64Single { 1.0 } else { c.scale.value() };
    let scale_ok = scale > 0.0 && scale.is_finite() && BigI::cmp(&big_round_f64(scale.max(1.0)), &BigI::from_u(BigU::pow2(b - 1))) == std::cmp::Ordering::Less;
    let entry = c.entry.name();
    let approx = c.entry.approx();
    let lo = BigU::pow2(b.saturating_sub(3));

    // a destination with foreign content for the in-place form
    let dirty = {
        let mut p = Plaintext::new();
        p.resize(n * moduli.len() + 3);
        for (i, x) in p.data_mut().iter_mut().enumerate() {
            *x = 0x9E37_79B9_7F4A_7C15u64.wrapping_mul(i as u64 + seed) | 1;
        }
        p.set_scale(12345.0);
        p
    };

    let inputs = inputs_for(c, n, &moduli, &q, thorough);
    let mut steps = 0u64;
    let mut nontrivial = false;
    let mut classes: BTreeSet<String> = BTreeSet::new();
    let mut worst_ratio = 0.0f64;

    // more values than slots / coefficients are refused
    if c.group == Group::Plain && scale_ok {
        let too_long = match c.entry {
            Entry::C64Array => Some(Input::Arr(vec![(1.0, 0.0); n / 2 + 1])),
            Entry::F64Poly => Some(Input::Poly(vec![1.0; n + 1])),
            _ => None,
        };
        if let Some(inp) = too_long {
            steps += 1;
            match call_encode(&kit, &inp, id, scale, None) {
                Ok(_) => return CaseOut::fail(format!("{section}:{entry}:too-long-accepted"), format!("refused: {} values for N={n}", n / 2 + 1), "accepted"),
                Err(p) => {
                    classes.insert(format!("too-long:{}", panic_class(&p)));
                }
            }
        }
    }

    for (idx, inp) in inputs.iter().enumerate() {
        let ex = expect(inp, n, scale);
        let ctxt = || format!("{} level_primes={} moduli={:?} scale={:e} {}", c.spec.label(), c.level_primes, moduli, scale, fmt_input(inp));
        // ---- admissibility
        let maxmag: Option<BigU> = ex.big.as_ref().map(|v| v.iter().map(|x| x.mag.clone()).max().unwrap());
        let zone = if !scale_ok {
            Zone::MustRefuse
        } else {
            match &maxmag {
                None => Zone::MustRefuse, // infinite scaled magnitude
                Some(m) => {
                    let fuzz = if approx { m.shr(40).add(&BigU::from_u64(2)) } else { BigU::zero() };
                    let hi = m.add(&fuzz);
                    let low = if *m > fuzz { m.sub(&fuzz) } else { BigU::zero() };
                    if hi < lo {
                        Zone::MustAccept
                    } else if low.shl(1) > q {
                        Zone::MustRefuse
                    } else {
                        Zone::May
                    }
                }
            }
        };
        let res = call_encode(&kit, inp, id, scale, None);
        steps += 1;
        let pt = match (res, zone) {
            (Err(p), Zone::MustAccept) => {
                return CaseOut::fail(
                    format!("{section}:{entry}:valid-input-refused:{}", panic_class(&p)),
                    format!("accepted: scaled magnitude {} is below 2^{} ({})", maxmag.as_ref().map(|m| m.to_hex()).unwrap_or_default(), b - 3, ctxt()),
                    p,
                )
            }
            (Err(p), _) => {
                if !is_invalid_argument(&p) {
                    if p.contains("overflow") && zone == Zone::MustRefuse {
                        return CaseOut::fail(
                            format!("{section}:{entry}:refusal-only-by-overflow-check:{}", panic_class(&p)),
                            format!("an [Invalid argument] refusal ({})", ctxt()),
                            format!("{p} — an arithmetic-overflow panic exists only in overflow-checked builds; a default release build wraps and accepts"),
                        );
                    }
                    if zone != Zone::MustRefuse {
                        return CaseOut::fail(format!("{section}:{entry}:crash:{}", panic_class(&p)), format!("accepted or [Invalid argument] ({})", ctxt()), p);
                    }
                }
                classes.insert(format!("refused:{:?}:{}", zone, panic_class(&p)));
                // the in-place form must refuse as well
                if idx % 4 == 0 {
                    if let Ok(_p2) = call_encode(&kit, inp, id, scale, Some(&dirty)) {
                        return CaseOut::fail(format!("{section}:{entry}:forms-disagree-on-refusal"), format!("in-place form refuses like the _new form ({})", ctxt()), "in-place form accepted");
                    }
                    steps += 1;
                }
                continue;
            }
            (Ok(pt), Zone::MustRefuse) => {
                let why = if !scale_ok {
                    format!("scale-accepted:{}", if scale.is_nan() { "nan" } else if scale > 0.0 { "oversized" } else { c.scale.class() })
                } else if maxmag.is_none() {
                    "accepted-infinite".to_string()
                } else {
                    "accepted-not-fitting".to_string()
                };
                return CaseOut::fail(
                    format!("{section}:{entry}:{why}"),
                    format!("refused: {} ({})", if !scale_ok { format!("scale must be > 0 and < 2^{}", b - 1) } else { format!("scaled magnitude {} >= q/2, q={}", maxmag.as_ref().map(|m| m.to_hex()).unwrap_or("inf".into()), q.to_hex()) }, ctxt()),
                    format!("accepted; plaintext scale={:e} data[..{}]={:?}", pt.scale(), n.min(8), &pt.data()[..n.min(8).min(pt.data().len())]),
                );
            }
            (Ok(pt), _) => pt,
        };
        let big = ex.big.as_ref().unwrap();
        let maxmag = maxmag.unwrap();
        // for the approximate entry points the library's own magnitude may differ from the reference's by the
        // transform error: within that fuzz of q/2 nothing can be compared
        let fits = if approx { maxmag.add(&maxmag.shr(40)).add(&BigU::from_u64(2)).shl(1) < q } else { maxmag.shl(1) < q };
        classes.insert(format!("accepted:{:?}:{}:fits={}", zone, mag_class(&maxmag), fits));
        // ---- metadata
        let meta_ok = pt.parms_id() == &id && pt.is_ntt_form() && pt.scale().to_bits() == scale.to_bits() && pt.coeff_count() == n * moduli.len();
        if !meta_ok {
            return CaseOut::fail(
                format!("{section}:{entry}:metadata"),
                format!("parms_id of the level, NTT form, scale {:e}, coeff_count {} ({})", scale, n * moduli.len(), ctxt()),
                format!("parms_id ok={} ntt={} scale={:e} coeff_count={}", pt.parms_id() == &id, pt.is_ntt_form(), pt.scale(), pt.coeff_count()),
            );
        }
        // ---- one integer vector
        let coeffs = match coefficients(&pt, &cd, n, &moduli, &q) {
            Ok(v) => v,
            Err((what, d)) => return CaseOut::fail(format!("{section}:{entry}:{what}"), format!("well-formed NTT-form plaintext ({})", ctxt()), d),
        };
        if fits {
            for k in 0..n {
                let d = coeffs[k].sub(&big[k]);
                let mut err = d.to_f64();
                let mut tol = ex.tol[k];
                if approx {
                    // big[k] = round(real[k]); add the rounding residual back to compare with the real number
                    let r = ex.real[k];
                    if r.abs() < 4.5e15 {
                        err += r.round() - r;
                    }
                } else {
                    // exact entry points: at an exact tie (scaled value = k + 1/2) both neighbours are the rounded preimage
                    let r = ex.real[k];
                    if r.is_finite() && r.abs() < 4.5e15 && (r - r.trunc()).abs() == 0.5 && tol < 0.5 {
                        err += r.round() - r;
                        tol = 0.5;
                    }
                }
                if !(err.abs() <= tol) {
                    return CaseOut::fail(
                        format!("{section}:{entry}:wrong-coefficient:{}", mag_class(&maxmag)),
                        format!("coefficient {k} = {} (= round(scale*preimage) = round({:e})) within {:e} ({})", fmt_big(&big[k]), ex.real[k], tol, ctxt()),
                        format!("coefficient {k} = {} (difference {:e}); all: {:?}", fmt_big(&coeffs[k]), err, coeffs.iter().map(fmt_big).collect::<Vec<_>>()),
                    );
                }
                if tol > 0.0 && approx {
                    worst_ratio = worst_ratio.max((err.abs() - 0.5).max(0.0) / (tol - 0.5).max(1e-300));
                }
            }
            if coeffs.iter().any(|x| !x.mag.is_zero()) {
                nontrivial = true;
            }
        } else {
            // may zone on the far side of q/2 (only within the fuzz of the approximate entries): nothing to compare
            continue;
        }
        // ---- the in-place form on a dirty destination and the default level give the same plaintext
        match call_encode(&kit, inp, id, scale, Some(&dirty)) {
            Ok(p2) => {
                steps += 1;
                if p2.data() != pt.data() || p2.parms_id() != pt.parms_id() || p2.scale().to_bits() != pt.scale().to_bits() || p2.coeff_count() != pt.coeff_count() {
                    return CaseOut::fail(
                        format!("{section}:{entry}:forms-differ"),
                        format!("in-place form on a used destination = _new form ({})", ctxt()),
                        format!("_new: {:?} in-place: {:?} coeff_count {} vs {}", &pt.data()[..n.min(8)], &p2.data()[..n.min(8).min(p2.data().len())], pt.coeff_count(), p2.coeff_count()),
                    );
                }
            }
            Err(p) => return CaseOut::fail(format!("{section}:{entry}:forms-differ:{}", panic_class(&p)), format!("in-place form accepts like _new ({})", ctxt()), p),
        }
        if is_first && idx % 8 == 0 {
            match call_encode_default_level(&kit, inp, scale) {
                Ok(p3) if p3.data() == pt.data() && p3.parms_id() == pt.parms_id() => steps += 1,
                Ok(_) => return CaseOut::fail(format!("{section}:{entry}:default-level"), format!("parms_id None = first level ({})", ctxt()), "different plaintext"),
                Err(p) => return CaseOut::fail(format!("{section}:{entry}:default-level:{}", panic_class(&p)), format!("parms_id None = first level ({})", ctxt()), p),
            }
        }
        // ---- decoding
        // decoding is judged on data levels and for magnitudes below 2^1000 (doubles end at 2^1024)
        if !data_level || maxmag.bits() > 1000 {
            continue;
        }
        if !pt.is_valid_for(&kit.ctx) {
            return CaseOut::fail(format!("{section}:{entry}:not-valid-for-context"), format!("is_valid_for ({})", ctxt()), "false");
        }
        let cf: Vec<f64> = coeffs.iter().map(|x| x.to_f64() / scale).collect();
        let mx = cf.iter().fold(0.0f64, |a, x| a.max(x.abs()));
        let nn = n as f64;
        let logn = (n.trailing_zeros() as f64).max(1.0);
        let u = 2f64.powi(-52);
        // coefficient view
        match guard(|| kit.enc.decode_polynomial_new(&pt)) {
            Err(p) => return CaseOut::fail(format!("{section}:{entry}:decode-polynomial:{}", panic_class(&p)), format!("decodes ({})", ctxt()), p),
            Ok(dp) => {
                steps += 1;
                for k in 0..n {
                    let tol = (words as f64 + 4.0) * u * cf[k].abs();
                    if dp.len() != n || !((dp[k] - cf[k]).abs() <= tol) {
                        // a few units in the last places on a NEGATIVE coefficient: the word-wise q - c in doubles (see section decode_borrow)
                        let small = dp.len() == n && coeffs[k].neg && (dp[k] - cf[k]).abs() <= cf[k].abs() * 2f64.powi(-40);
                        return CaseOut::fail(
                            format!("{section}:{entry}:decode-polynomial-wrong{}", if small { ":negative-cancellation" } else { "" }),
                            format!("coefficient {k} / scale = {:e} within {:e} (integer coefficient {}) ({})", cf[k], tol, fmt_big(&coeffs[k]), ctxt()),
                            format!("{:e} (len {})", dp.get(k).copied().unwrap_or(f64::NAN), dp.len()),
                        );
                    }
                    if let Input::Poly(vs) = inp {
                        let v = vs.get(k).copied().unwrap_or(0.0);
                        let tolv = (0.5 + ex.tol[k]) / scale + (words as f64 + 4.0) * u * v.abs();
                        if !((dp[k] - v).abs() <= tolv) {
                            return CaseOut::fail(format!("{section}:{entry}:decode-polynomial-input"), format!("coefficient {k} = {:e} within {:e} ({})", v, tolv, ctxt()), format!("{:e}", dp[k]));
                        }
                    }
                }
            }
        }
        // slot view
        match guard(|| kit.enc.decode_new(&pt)) {
            Err(p) => return CaseOut::fail(format!("{section}:{entry}:decode:{}", panic_class(&p)), format!("decodes ({})", ctxt()), p),
            Ok(dec) => {
                steps += 1;
                let refs = fwd_embed(&cf, n);
                let tol_a = (nn * logn + words as f64 + 4.0) * u * nn * mx;
                if dec.len() != n / 2 {
                    return CaseOut::fail(format!("{section}:{entry}:decode-wrong"), format!("{} slots ({})", n / 2, ctxt()), format!("{}", dec.len()));
                }
                for j in 0..n / 2 {
                    let e = (dec[j].re - refs[j].0).abs().max((dec[j].im - refs[j].1).abs());
                    if !(e <= tol_a) {
                        return CaseOut::fail(
                            format!("{section}:{entry}:decode-wrong"),
                            format!("slot {j} = embedding of the plaintext's integer vector = ({:e},{:e}) within {:e} ({})", refs[j].0, refs[j].1, tol_a, ctxt()),
                            format!("({:e},{:e})", dec[j].re, dec[j].im),
                        );
                    }
                    if let Some(sl) = &ex.slots {
                        let tolc = ex.tol.iter().fold(0.0f64, |a, &t| a.max(t)) + if approx { 0.0 } else { 0.5 };
                        let tol_b = nn * tolc / scale + tol_a + (nn * logn + 4.0) * u * nn * ex.vmax;
                        let e = (dec[j].re - sl[j].0).abs().max((dec[j].im - sl[j].1).abs());
                        if !(e <= tol_b) {
                            return CaseOut::fail(
                                format!("{section}:{entry}:decode-input"),
                                format!("slot {j} = input ({:e},{:e}) within {:e} ({})", sl[j].0, sl[j].1, tol_b, ctxt()),
                                format!("({:e},{:e})", dec[j].re, dec[j].im),
                            );
                        }
                    }
                }
            }
        }
    }
    let _ = worst_ratio;
    if inputs.is_empty() {
        return CaseOut::skip("value group empty for this scale (modulus-relative values need a power-of-two scale)");
    }
    CaseOut::pass(nontrivial, h64(&(entry, classes.iter().cloned().collect::<Vec<_>>())), steps)
}

// ---------------------------------------------------------------------------------------------
// section `embedding`
// ---------------------------------------------------------------------------------------------

fn check_embedding(c: &EmbCase, seed: u64) -> CaseOut {
    env_real(seed, h64(&serde_json::to_string(c).unwrap_or_default()));
    if let Err(e) = crate::refmodel::embed::selftest() {
        return CaseOut::fail("embedding:reference-selftest", "reference self-test passes", e);
    }
    let n = c.spec.n;
    let ctx = c.spec.context();
    if !ctx.parameters_set() {
        return CaseOut::skip("parameter set rejected by the library");
    }
    let enc = CKKSEncoder::new(ctx.clone());
    let cd = ctx.first_context_data().unwrap();
    let moduli: Vec<u64> = cd.parms().coeff_modulus().iter().map(|m| m.value()).collect();
    let q = BigU::product(&moduli);
    let scale = 2f64.powi(40);
    let mut vals = vec![(0.0, 0.0); n / 2];
    vals[c.slot] = if c.imag { (0.0, 1.0) } else { (1.0, 0.0) };
    let pt = match guard(|| enc.encode_c64_array_new(&vals.iter().map(|z| Complex::new(z.0, z.1)).collect::<Vec<_>>(), None, scale)) {
        Ok(p) => p,
        Err(p) => return CaseOut::fail(format!("embedding:encode:{}", panic_class(&p)), "unit vector encodes", p),
    };
    let coeffs = match coefficients(&pt, &cd, n, &moduli, &q) {
        Ok(v) => v,
        Err((w, d)) => return CaseOut::fail(format!("embedding:{w}"), "well-formed plaintext", d),
    };
    let x = inv_embed(&vals, n);
    let mut steps = 1;
    for k in 0..n {
        let want = x[k] * scale;
        let got = coeffs[k].to_f64();
        if !((got - want).abs() <= 0.5 + 1e-3) {
            return CaseOut::fail(
                "embedding:slot-order",
                format!("N={n} slot {} value {}: coefficient {k} = 2^40 * (2/N) Re(z * zeta^(-3^slot * k)) = {want:e}", c.slot, if c.imag { "i" } else { "1" }),
                format!("{got:e}; all {:?}", coeffs.iter().map(|c| c.to_f64()).collect::<Vec<_>>()),
            );
        }
    }
    // decoding puts it back into the same slot
    match guard(|| enc.decode_new(&pt)) {
        Err(p) => return CaseOut::fail(format!("embedding:decode:{}", panic_class(&p)), "decodes", p),
        Ok(d) => {
            steps += 1;
            for j in 0..n / 2 {
                if !((d[j].re - vals[j].0).abs() <= 1e-9 && (d[j].im - vals[j].1).abs() <= 1e-9) {
                    return CaseOut::fail("embedding:decode-slot-order", format!("N={n} slot {j} = {:?}", vals[j]), format!("({:e},{:e})", d[j].re, d[j].im));
                }
            }
        }
    }
    CaseOut::pass(true, h64(&(n, c.imag)), steps)
}

// ---------------------------------------------------------------------------------------------
// section `decode_borrow`
// ---------------------------------------------------------------------------------------------

#[derive(Serialize, Deserialize, Clone, Debug)]
pub struct BorrowCase {
    pub spec: ParamSpec,
    pub value: i64,
}

/// two NTT primes p1 (bits1) and p2 (<= 60 bits) whose product has a low 64-bit word smaller than p1
pub fn small_low_word_chain(n: usize, bits1: usize) -> Option<Vec<u64>> {
    let p1 = ntt_primes(n, bits1, 1)[0];
    let two64 = 1u128 << 64;
    // p2 = ceil(k*2^64 / p1)  =>  p1*p2 - k*2^64 in [0, p1)
    let kmax = (p1 as u128 * (1u128 << 60)) >> 64;
    let mut k = kmax;
    while k > (kmax >> 4) {
        let p2 = ((k * two64 + p1 as u128 - 1) / p1 as u128) as u64;
        if p2 < (1u64 << 60) && p2 % (2 * n as u64) == 1 && p2 != p1 && is_prime_u64(p2) {
            return Some(vec![p1, p2]);
        }
        k -= 1;
    }
    None
}

fn check_borrow(c: &BorrowCase, seed: u64) -> CaseOut {
    env_real(seed, h64(&serde_json::to_string(c).unwrap_or_default()));
    let n = c.spec.n;
    let ctx = c.spec.context();
    if !ctx.parameters_set() {
        return CaseOut::skip("parameter set rejected by the library");
    }
    let enc = CKKSEncoder::new(ctx.clone());
    let cd = ctx.first_context_data().unwrap();
    let moduli: Vec<u64> = cd.parms().coeff_modulus().iter().map(|m| m.value()).collect();
    let q = BigU::product(&moduli);
    let low_word = q.low_limbs(1)[0];
    let pt = match guard(|| enc.encode_i64_single_new(c.value, None)) {
        Ok(p) => p,
        Err(p) => return CaseOut::skip(&format!("refused: {}", panic_class(&p))),
    };
    let coeffs = match coefficients(&pt, &cd, n, &moduli, &q) {
        Ok(v) => v,
        Err((w, d)) => return CaseOut::fail(format!("decode_borrow:{w}"), "well-formed plaintext", d),
    };
    if coeffs[0] != BigI::from_i128(c.value as i128) || coeffs[1..].iter().any(|x| !x.mag.is_zero()) {
        return CaseOut::fail("decode_borrow:encode", format!("constant polynomial {}", c.value), format!("{:?}", coeffs.iter().map(fmt_big).collect::<Vec<_>>()));
    }
    let words = (q.bits() + 63) / 64;
    let tol = (words as f64 + 4.0) * 2f64.powi(-52) * (c.value as f64).abs();
    let borrow = c.value < 0 && (c.value.unsigned_abs() > low_word);
    let dp = match guard(|| enc.decode_polynomial_new(&pt)) {
        Ok(d) => d,
        Err(p) => return CaseOut::fail(format!("decode_borrow:decode-polynomial:{}", panic_class(&p)), "decodes", p),
    };
    if !((dp[0] - c.value as f64).abs() <= tol) {
        return CaseOut::fail(
            "decode_borrow:decode-polynomial-wrong",
            format!("coefficient 0 = {} within {:e} (q = {}, low word {} {} |value|)", c.value, tol, q.to_hex(), low_word, if borrow { "<" } else { ">=" }),
            format!("{:.1} (error {:e})", dp[0], dp[0] - c.value as f64),
        );
    }
    let d = match guard(|| enc.decode_new(&pt)) {
        Ok(d) => d,
        Err(p) => return CaseOut::fail(format!("decode_borrow:decode:{}", panic_class(&p)), "decodes", p),
    };
    for j in 0..n / 2 {
        if !((d[j].re - c.value as f64).abs() <= tol * 4.0 && d[j].im.abs() <= tol * 4.0) {
            return CaseOut::fail(
                "decode_borrow:decode-wrong",
                format!("slot {j} = {} within {:e} (q = {}, low word {})", c.value, tol * 4.0, q.to_hex(), low_word),
                format!("({:.1},{:e})", d[j].re, d[j].im),
            );
        }
    }
    CaseOut::pass(borrow, h64(&(borrow, c.value < 0)), 3)
}


// =============================================================================================
// production-size sections: `big_vector`, `big_coefflist`, `big_primes`
//
// Everything the encoder loops over, blocks or indexes is driven across the boundaries 8 .. 4096 (8192): the
// degree N, the number of values handed in (every length), the number of primes at the level (1..20) and the
// number of 64-bit words of a scaled coefficient. Large N stays affordable through STRUCTURED families whose
// reference costs O(N) per input:
//   * unit slot vectors (closed form: x_k = (2/N) Re(z * zeta^(-g_j k))) with the value in the last / first /
//     middle slot of an input of every length;
//   * prefixes of a fixed sequence (constant, alternating, ramp of pairwise different values, a 7-cycle of small
//     values): the naive sum of `refmodel::embed::inv_embed` is accumulated term by term while the length grows
//     (same terms, same order, same sin/cos — bit-identical to the naive reference, which the self-test confirms
//     for N <= 64);
//   * coefficient lists and the single-value entry points are exact: the expected integer vector is reduced
//     modulo every prime, transformed with the reference NTT (`refmodel::ntt::fast_ntt`, itself validated against
//     the transform by definition) and compared with the plaintext word for word — no library transform involved.
// For the approximate entry points the plaintext is taken back with the reference inverse NTT and composed into one
// centred integer vector (native 128-bit Garner when the modulus has at most 120 bits, otherwise sum_j
// [r_j (q/q_j)^-1]_(q_j) * (q/q_j) mod q in BigU; a few coefficients of every plaintext are re-composed with
// `refmodel::bigu::crt`).
// Only inputs that MUST be accepted (scaled magnitude below 2^(B-3)) are enumerated here; the admissibility
// boundary does not depend on the sizes and stays with the sections above.
// =============================================================================================

use crate::refmodel::ntt::{fast_intt, fast_ntt};
use std::sync::OnceLock;

#[derive(Serialize, Deserialize, Clone, Copy, Debug, PartialEq, Eq, Hash)]
pub enum Fam {
    /// the value in the last position of the input, zeros before it
    UnitLast,
    /// the value in position 0, explicit zeros up to the length
    UnitFirst,
    /// the value in position len/2
    UnitMid,
    /// the same value everywhere
    Const,
    /// +value, -value, +value, ...
    Alt,
    /// pairwise different values growing with the position
    Ramp,
    /// a cycle of 7 small values (|v| < 2), so that the input fits next to any scale up to 2^(B-6)
    Cycle,
}

impl Fam {
    fn name(self) -> &'static str {
        match self {
            Fam::UnitLast => "unit-last",
            Fam::UnitFirst => "unit-first",
            Fam::UnitMid => "unit-mid",
            Fam::Const => "const",
            Fam::Alt => "alt",
            Fam::Ramp => "ramp",
            Fam::Cycle => "cycle",
        }
    }
    fn unit_pos(self, len: usize) -> Option<usize> {
        match self {
            Fam::UnitLast => Some(len.saturating_sub(1)),
            Fam::UnitFirst => Some(0),
            Fam::UnitMid => Some(len / 2),
            _ => None,
        }
    }
    fn all() -> [Fam; 7] {
        [Fam::UnitLast, Fam::UnitFirst, Fam::UnitMid, Fam::Const, Fam::Alt, Fam::Ramp, Fam::Cycle]
    }
}

/// slot value of the unit / constant / alternating families
const Z0: C = (-0.75, 0.25);
/// coefficient value of the unit / constant / alternating lists: rounds AWAY from zero at scale 1 (-3; truncation and
/// round-half-even give -2)
const W0: f64 = -2.5;

/// slot j of the prefix families
fn fam_slot(f: Fam, j: usize) -> C {
    match f {
        Fam::Const | Fam::UnitLast | Fam::UnitFirst | Fam::UnitMid => Z0,
        Fam::Alt => {
            if j % 2 == 0 {
                Z0
            } else {
                (-Z0.0, -Z0.1)
            }
        }
        Fam::Ramp => (1.0 + 0.5 * j as f64, -0.25 * (j as f64 + 1.0)),
        Fam::Cycle => [(1.0, 0.0), (0.0, -1.0), (-0.75, 0.25), (0.5, 0.5), (-1.0, -1.0), (0.0, 0.0), (0.3, -0.7)][j % 7],
    }
}

/// coefficient k of the prefix lists; the ramp exceeds 2^32 from k = 4096 on and carries the fractions .5 .25 .75 .0
fn fam_coeff(f: Fam, k: usize) -> f64 {
    match f {
        Fam::Const | Fam::UnitLast | Fam::UnitFirst | Fam::UnitMid => W0,
        Fam::Alt => {
            if k % 2 == 0 {
                W0
            } else {
                -W0
            }
        }
        Fam::Ramp => {
            let m = (k as f64 + 1.0) * 1048577.0 + [0.5, 0.25, 0.75, 0.0][k % 4];
            if k % 3 == 1 {
                -m
            } else {
                m
            }
        }
        Fam::Cycle => [1.5, -0.3, 0.75, -1.0, 0.0, 1.9999999999999998, -0.5][k % 7],
    }
}

fn fam_vector(f: Fam, len: usize) -> Vec<C> {
    match f.unit_pos(len) {
        Some(pos) => {
            let mut v = vec![(0.0, 0.0); len];
            if len > 0 {
                v[pos] = Z0;
            }
            v
        }
        None => (0..len).map(|j| fam_slot(f, j)).collect(),
    }
}

fn fam_list(f: Fam, len: usize) -> Vec<f64> {
    match f.unit_pos(len) {
        Some(pos) => {
            let mut v = vec![0.0; len];
            if len > 0 {
                v[pos] = W0;
            }
            v
        }
        None => (0..len).map(|k| fam_coeff(f, k)).collect(),
    }
}

/// the naive inverse embedding of `refmodel::embed`, one slot at a time, with the 2N values of `unit` tabulated
struct EmbRef {
    n: usize,
    g: Vec<usize>,
    tab: Vec<(f64, f64)>,
}

impl EmbRef {
    fn new(n: usize) -> EmbRef {
        EmbRef { n, g: slot_exponents(n), tab: (0..2 * n).map(|t| unit(n, t)).collect() }
    }
    /// acc[k] += Re(z * zeta^(-g_j k))
    fn add_slot(&self, acc: &mut [f64], j: usize, z: C) {
        let m = 2 * self.n;
        let gj = self.g[j];
        let mut t = 0usize; // (g_j * k) mod 2N
        for a in acc.iter_mut() {
            let (c, s) = self.tab[t];
            *a += z.0 * c + z.1 * s;
            t += gj;
            if t >= m {
                t -= m;
            }
        }
    }
    /// scale * (2/N) * acc, in the operation order of `inv_embed` followed by the scaling
    fn finish(&self, acc: &[f64], scale: f64) -> Vec<f64> {
        acc.iter().map(|&s| (s * 2.0 / (self.n as f64)) * scale).collect()
    }
    /// slot j of the polynomial c * X^pos
    fn monomial_slot(&self, j: usize, pos: usize, c: f64) -> C {
        let (co, si) = self.tab[(self.g[j] * pos) % (2 * self.n)];
        (c * co, c * si)
    }
}

/// one centred integer vector, in native integers when everything fits
#[derive(Clone)]
enum Ints {
    Small(Vec<i128>),
    Big(Vec<BigI>),
}

impl Ints {
    fn len(&self) -> usize {
        match self {
            Ints::Small(v) => v.len(),
            Ints::Big(v) => v.len(),
        }
    }
    fn max_mag(&self) -> BigU {
        match self {
            Ints::Small(v) => BigU::from_u128(v.iter().map(|x| x.unsigned_abs()).max().unwrap_or(0)),
            Ints::Big(v) => v.iter().map(|x| x.mag.clone()).max().unwrap_or_else(BigU::zero),
        }
    }
    fn to_f64(&self, k: usize) -> f64 {
        match self {
            Ints::Small(v) => v[k] as f64,
            Ints::Big(v) => v[k].to_f64(),
        }
    }
    fn is_neg(&self, k: usize) -> bool {
        match self {
            Ints::Small(v) => v[k] < 0,
            Ints::Big(v) => v[k].neg,
        }
    }
    fn any_nonzero(&self) -> bool {
        match self {
            Ints::Small(v) => v.iter().any(|&x| x != 0),
            Ints::Big(v) => v.iter().any(|x| !x.mag.is_zero()),
        }
    }
    fn fmt(&self, k: usize) -> String {
        match self {
            Ints::Small(v) => fmt_big(&BigI::from_i128(v[k])),
            Ints::Big(v) => fmt_big(&v[k]),
        }
    }
    /// residue of entry k in [0, m)
    fn residue(&self, k: usize, m: u64) -> u64 {
        match self {
            Ints::Small(v) => {
                let x = v[k];
                if x == 0 {
                    0
                } else if x.unsigned_abs() < (1u128 << 63) && m < (1u64 << 63) {
                    (x as i64).rem_euclid(m as i64) as u64
                } else {
                    x.rem_euclid(m as i128) as u64
                }
            }
            Ints::Big(v) => v[k].rem_u64(m),
        }
    }
    /// entry k minus the real number r, as a double (the integer part of the difference is formed exactly)
    fn diff(&self, k: usize, r: f64) -> f64 {
        let frac = if r.abs() < 4.5e15 { r.round() - r } else { 0.0 };
        match self {
            Ints::Small(v) if r.abs() < 2f64.powi(120) => (v[k] - r.round() as i128) as f64 + frac,
            Ints::Small(v) => BigI::from_i128(v[k]).sub(&big_round_f64(r)).to_f64() + frac,
            Ints::Big(v) => v[k].sub(&big_round_f64(r)).to_f64() + frac,
        }
    }
    /// exact integer vector from (value, scale) products; None when a product is not finite / not exactly representable
    fn from_products(vals: &[f64], scale: f64) -> Option<Ints> {
        let mut big = Vec::with_capacity(vals.len());
        let mut small = true;
        for &v in vals {
            if v == 0.0 {
                big.push(BigI::new(false, BigU::zero()));
                continue;
            }
            let p = v * scale;
            if !v.is_finite() || !p.is_finite() {
                return None;
            }
            let (b, exact) = big_round_product(v, scale);
            if !exact {
                return None;
            }
            if b.mag.bits() > 120 {
                small = false;
            }
            big.push(b);
        }
        Some(if small {
            Ints::Small(big.iter().map(|b| if b.neg { -(b.mag.to_u128().unwrap() as i128) } else { b.mag.to_u128().unwrap() as i128 }).collect())
        } else {
            Ints::Big(big)
        })
    }
}

/// CRT composition + centring for one level, precomputed
struct Composer {
    moduli: Vec<u64>,
    q: BigU,
    /// the modulus when it has at most 120 bits
    small_q: Option<u128>,
    /// Garner: (q_0 ... q_(j-1))^-1 mod q_j
    garner_inv: Vec<u64>,
    /// (q/q_j, (q/q_j)^-1 mod q_j)
    terms: Vec<(BigU, u64)>,
}

impl Composer {
    fn new(moduli: &[u64]) -> Result<Composer, String> {
        let q = BigU::product(moduli);
        let small_q = if q.bits() <= 120 { q.to_u128() } else { None };
        let mut garner_inv = vec![0u64; moduli.len()];
        let mut terms = vec![];
        if small_q.is_some() {
            let mut p: u128 = 1;
            for (j, &m) in moduli.iter().enumerate() {
                if j > 0 {
                    garner_inv[j] = inv_mod_u64((p % m as u128) as u64, m).ok_or("moduli not coprime")?;
                }
                p *= m as u128;
            }
        } else {
            for (j, &m) in moduli.iter().enumerate() {
                let others: Vec<u64> = moduli.iter().enumerate().filter(|(i, _)| *i != j).map(|(_, &x)| x).collect();
                let mj = BigU::product(&others);
                let inv = inv_mod_u64(mj.rem_u64(m), m).ok_or("moduli not coprime")?;
                terms.push((mj, inv));
            }
        }
        Ok(Composer { moduli: moduli.to_vec(), q, small_q, garner_inv, terms })
    }

    /// res[j][i] = residue of coefficient i modulo prime j
    fn compose(&self, res: &[Vec<u64>], n: usize) -> Result<Ints, String> {
        let k = self.moduli.len();
        let out = match self.small_q {
            Some(q) => {
                let mut v = Vec::with_capacity(n);
                for i in 0..n {
                    let mut x: u128 = res[0][i] as u128;
                    let mut p: u128 = self.moduli[0] as u128;
                    for j in 1..k {
                        let m = self.moduli[j];
                        let xm = (x % m as u128) as u64;
                        let diff = sub_mod(res[j][i] % m, xm, m);
                        let t = mul_mod(diff, self.garner_inv[j], m);
                        x += p * t as u128;
                        p *= m as u128;
                    }
                    v.push(if 2 * x >= q { -((q - x) as i128) } else { x as i128 });
                }
                Ints::Small(v)
            }
            None => {
                let mut v = Vec::with_capacity(n);
                for i in 0..n {
                    let mut x = BigU::zero();
                    for j in 0..k {
                        let (mj, inv) = &self.terms[j];
                        let c = mul_mod(res[j][i] % self.moduli[j], *inv, self.moduli[j]);
                        if c != 0 {
                            x = x.add(&mj.mul_u64(c));
                        }
                    }
                    while x >= self.q {
                        x = x.sub(&self.q);
                    }
                    v.push(if x.shl(1) >= self.q { BigI::new(true, self.q.sub(&x)) } else { BigI::new(false, x) });
                }
                Ints::Big(v)
            }
        };
        // a few coefficients again with the boring composition
        let mut probe = vec![0usize, 1 % n, n / 2, n - 1];
        probe.dedup();
        for i in probe {
            let r: Vec<u64> = (0..k).map(|j| res[j][i]).collect();
            let want = centered(&crt(&r, &self.moduli), &self.q);
            let got = match &out {
                Ints::Small(v) => BigI::from_i128(v[i]),
                Ints::Big(v) => v[i].clone(),
            };
            if got != want {
                return Err(format!("coefficient {i}: fast composition {} vs refmodel crt {}", fmt_big(&got), fmt_big(&want)));
            }
        }
        Ok(out)
    }
}

/// the helpers of these sections against the boring reference (once per process)
fn big_selftest() -> Result<(), String> {
    static ONCE: OnceLock<Result<(), String>> = OnceLock::new();
    ONCE.get_or_init(|| {
        crate::refmodel::embed::selftest()?;
        crate::refmodel::ntt::selftest_fast()?;
        // incremental / closed-form embedding == naive embedding, bit for bit, N <= 64, every length, every family
        for logn in 1..=6 {
            let n = 1usize << logn;
            let er = EmbRef::new(n);
            for f in Fam::all() {
                let mut acc = vec![0.0; n];
                let mut have = 0;
                for len in 0..=n / 2 {
                    let vals = fam_vector(f, len);
                    let got = match f.unit_pos(len) {
                        Some(pos) if len > 0 => {
                            let mut a = vec![0.0; n];
                            er.add_slot(&mut a, pos, Z0);
                            er.finish(&a, 8.0)
                        }
                        Some(_) => vec![0.0; n],
                        None => {
                            while have < len {
                                er.add_slot(&mut acc, have, fam_slot(f, have));
                                have += 1;
                            }
                            er.finish(&acc, 8.0)
                        }
                    };
                    let want: Vec<f64> = inv_embed(&vals, n).iter().map(|&x| x * 8.0).collect();
                    for k in 0..n {
                        // same terms in the same order: equal (a unit vector handed to inv_embed adds explicit zero terms, which
                        // can only change the sign of a zero)
                        if got[k] != want[k] {
                            return Err(format!("EmbRef N={n} family {} length {len} coefficient {k}: {:e} vs inv_embed {:e}", f.name(), got[k], want[k]));
                        }
                    }
                    // monomial slots against the naive forward embedding
                    if len > 0 && f == Fam::UnitLast {
                        let mut co = vec![0.0; n];
                        co[len - 1] = W0;
                        let fw = fwd_embed(&co, n);
                        for j in 0..n / 2 {
                            let s = er.monomial_slot(j, len - 1, W0);
                            if (s.0 - fw[j].0).abs() > 1e-13 || (s.1 - fw[j].1).abs() > 1e-13 {
                                return Err(format!("monomial slot N={n} X^{} slot {j}", len - 1));
                            }
                        }
                    }
                }
            }
        }
        // composition: small and big path against crt/centered on every residue pair of tiny moduli and on wide ones
        for moduli in [vec![5u64, 7], vec![3, 5, 7], vec![1073479681, 1073184769, 1072496641], vec![1152921504606830593, 1152921504606748673, 1152921504606683137]] {
            let c = Composer::new(&moduli)?;
            let cnt = if moduli[0] < 100 { moduli.iter().product::<u64>() as usize } else { 64 };
            let res: Vec<Vec<u64>> = moduli.iter().enumerate().map(|(j, &m)| (0..cnt as u64).map(|i| if m < 100 { i % m } else { ((i + 1).wrapping_mul(i + 3).wrapping_mul(0x9E37_79B9_7F4A_7C15u64.wrapping_add(j as u64)) ^ (i << 7)).wrapping_mul(0xD129_0F3A_5B1C_2E47) % m }).collect()).collect();
            let got = c.compose(&res, cnt)?;
            for i in 0..cnt {
                let r: Vec<u64> = (0..moduli.len()).map(|j| res[j][i]).collect();
                let want = centered(&crt(&r, &moduli), &c.q);
                let g = match &got {
                    Ints::Small(v) => BigI::from_i128(v[i]),
                    Ints::Big(v) => v[i].clone(),
                };
                if g != want {
                    return Err(format!("Composer {:?} entry {i}", moduli));
                }
                for (j, &m) in moduli.iter().enumerate() {
                    if got.residue(i, m) != r[j] {
                        return Err(format!("Ints::residue {:?} entry {i} prime {j}", moduli));
                    }
                }
            }
        }
        Ok(())
    })
    .clone()
}

/// one opened level of a parameter set
struct Lvl {
    id: heathcliff::ParmsID,
    n: usize,
    moduli: Vec<u64>,
    roots: Vec<u64>,
    b: usize,
    words: usize,
    is_first: bool,
    data_level: bool,
    comp: Composer,
}

fn open_level(section: &str, spec: &ParamSpec, level_primes: usize) -> Result<(Kit12, Lvl), CaseOut> {
    let ctx = match guard(|| spec.context()) {
        Ok(x) => x,
        Err(p) => return Err(CaseOut::skip(&format!("context construction panicked: {}", panic_class(&p)))),
    };
    if !ctx.parameters_set() {
        return Err(CaseOut::skip("parameter set rejected by the library"));
    }
    let Some(cd) = level(&ctx, level_primes) else { return Err(CaseOut::skip("no such level")) };
    let kit = Kit12 { enc: CKKSEncoder::new(ctx.clone()), ctx: ctx.clone() };
    let id = *cd.parms_id();
    let moduli: Vec<u64> = cd.parms().coeff_modulus().iter().map(|m| m.value()).collect();
    if moduli[..] != spec.q[..level_primes] {
        return Err(CaseOut::fail(format!("{section}:chain:level-moduli"), format!("{:?}", &spec.q[..level_primes]), format!("{:?}", moduli)));
    }
    let q = BigU::product(&moduli);
    let b = q.bits();
    if cd.total_coeff_modulus_bit_count() != b {
        return Err(CaseOut::fail(format!("{section}:chain:bit-count"), format!("{b}"), format!("{}", cd.total_coeff_modulus_bit_count())));
    }
    let roots: Vec<u64> = cd.small_ntt_tables().iter().map(|t| t.root()).collect();
    let n = spec.n;
    for (j, (&r, &m)) in roots.iter().zip(&moduli).enumerate() {
        if !(pow_mod(r, n as u64, m) == m - 1) {
            return Err(CaseOut::fail(format!("{section}:chain:ntt-root"), format!("a primitive 2N-th root of unity modulo prime {j} = {m}"), format!("{r}")));
        }
    }
    let comp = match Composer::new(&moduli) {
        Ok(c) => c,
        Err(e) => return Err(CaseOut::skip(&format!("composition not possible: {e}"))),
    };
    let is_first = id == *ctx.first_parms_id();
    let data_level = cd.chain_index() <= ctx.first_context_data().unwrap().chain_index();
    Ok((kit, Lvl { id, n, moduli, roots, words: (b + 63) / 64, b, is_first, data_level, comp }))
}

/// what one accepted encoding has to be
/// +1 / -1 where v*scale is exactly a half-integer (sign of the product), 0 elsewhere
fn tie_signs(vals: &[f64], scale: f64) -> Vec<i8> {
    vals.iter()
        .map(|&v| {
            let p = v * scale;
            if p.is_finite() && p.abs() < 4.5e15 && (p - p.trunc()).abs() == 0.5 {
                if p > 0.0 { 1 } else { -1 }
            } else {
                0
            }
        })
        .collect()
}

struct Want<'a> {
    /// approximate entry points: scale * preimage, per coefficient, and the allowance; exact ones: the integer vector
    real: Option<(&'a [f64], f64)>,
    ints: Option<&'a Ints>,
    /// exact entry points: +1 / -1 where value*scale is exactly k+1/2 (sign of the value), 0 elsewhere. At such a coefficient
    /// BOTH neighbours are "the rounded preimage" (|error| = 1/2 either way): f64::round takes the one away from zero, a
    /// ties-to-even rounding the other one half of the time; the property does not choose (false alarm on benign change C12-P, §10).
    ties: Vec<i8>,
    /// |v|_inf of the input
    vmax: f64,
    /// the input as slot values (what `decode` has to give back); None for coefficient lists
    slots_in: Option<&'a dyn Fn(usize) -> C>,
    /// coefficient list: a monomial (position) whose slot values have a closed form
    monomial: Option<usize>,
}

struct Judged {
    steps: u64,
    nonzero: bool,
    class: String,
}

/// true when max|r| is (with the transform fuzz) below 2^(B-3): the input must be accepted
fn must_accept_real(maxr: f64, b: usize) -> bool {
    if !maxr.is_finite() {
        return false;
    }
    let m = big_round_f64(maxr * (1.0 + 2f64.powi(-30)) + 4.0);
    m.mag.bits() + 3 <= b
}

#[allow(clippy::too_many_arguments)]
fn judge(section: &str, kit: &Kit12, lv: &Lvl, entry: Entry, inp: &Input, scale: f64, want: &Want, er: &EmbRef, dirty: &Plaintext, check_default: bool, ctxt: &dyn Fn() -> String) -> Result<Judged, CaseOut> {
    let n = lv.n;
    let k = lv.moduli.len();
    let ename = entry.name();
    let mut steps = 1u64;
    let pt = match call_encode(kit, inp, lv.id, scale, None) {
        Ok(p) => p,
        Err(p) => {
            let key = if is_invalid_argument(&p) { format!("{section}:{ename}:valid-input-refused:{}", panic_class(&p)) } else { format!("{section}:{ename}:crash:{}", panic_class(&p)) };
            return Err(CaseOut::fail(key, format!("accepted: the scaled magnitude is below 2^{} ({})", lv.b - 3, ctxt()), p));
        }
    };
    // ---- metadata, shape
    let meta_ok = pt.parms_id() == &lv.id && pt.is_ntt_form() && pt.scale().to_bits() == scale.to_bits() && pt.coeff_count() == n * k;
    if !meta_ok {
        return Err(CaseOut::fail(
            format!("{section}:{ename}:metadata"),
            format!("parms_id of the level, NTT form, scale {:e}, coeff_count {} ({})", scale, n * k, ctxt()),
            format!("parms_id ok={} ntt={} scale={:e} coeff_count={}", pt.parms_id() == &lv.id, pt.is_ntt_form(), pt.scale(), pt.coeff_count()),
        ));
    }
    if pt.data().len() != n * k {
        return Err(CaseOut::fail(format!("{section}:{ename}:shape"), format!("{} words ({})", n * k, ctxt()), format!("{}", pt.data().len())));
    }
    for j in 0..k {
        if let Some(x) = pt.data()[j * n..(j + 1) * n].iter().find(|&&x| x >= lv.moduli[j]) {
            return Err(CaseOut::fail(format!("{section}:{ename}:residue-range"), format!("component {j} below {} ({})", lv.moduli[j], ctxt()), format!("{x}")));
        }
    }
    // ---- the integer vector
    let got: Ints = if let Some(ints) = want.ints {
        let mm = ints.max_mag();
        // at an exact tie the neighbour towards zero is admitted too: which one the library took is read off component 0 and
        // must then be the same in every component ("one integer coefficient vector")
        let mut towards_zero = vec![false; n];
        if want.ties.iter().any(|&t| t != 0) {
            let m = lv.moduli[0];
            let d0 = fast_intt(&pt.data()[..n], lv.roots[0], m);
            for i in 0..want.ties.len().min(n).min(ints.len()) {
                let t = want.ties[i];
                if t != 0 {
                    let e = ints.residue(i, m);
                    let alt = if t > 0 { (e + m - 1) % m } else { (e + 1) % m };
                    if d0[i] != e && d0[i] == alt {
                        towards_zero[i] = true;
                    }
                }
            }
        }
        for j in 0..k {
            let m = lv.moduli[j];
            let e: Vec<u64> = (0..n)
                .map(|i| {
                    if i >= ints.len() {
                        return 0;
                    }
                    let e = ints.residue(i, m);
                    if towards_zero[i] {
                        if want.ties[i] > 0 { (e + m - 1) % m } else { (e + 1) % m }
                    } else {
                        e
                    }
                })
                .collect();
            let f = fast_ntt(&e, lv.roots[j], m);
            if f[..] != pt.data()[j * n..(j + 1) * n] {
                let d = fast_intt(&pt.data()[j * n..(j + 1) * n], lv.roots[j], m);
                let i = (0..n).find(|&i| d[i] != e[i]).unwrap_or(0);
                let cen = |x: u64| if x > m / 2 { format!("-{}", m - x) } else { format!("{x}") };
                return Err(CaseOut::fail(
                    format!("{section}:{ename}:wrong-coefficient:{}", mag_class(&mm)),
                    format!("coefficient {i} = {} = round(value*scale) exactly, i.e. {} ({}) modulo prime {j} = {m} ({})", if i < ints.len() { ints.fmt(i) } else { "0".into() }, e[i], cen(e[i]), ctxt()),
                    format!("component {j} holds {} ({}) at coefficient {i}; {} of {n} coefficients of this component differ", d[i], cen(d[i]), (0..n).filter(|&i| d[i] != e[i]).count()),
                ));
            }
        }
        let mut v = ints.clone();
        match &mut v {
            Ints::Small(x) => {
                x.resize(n, 0);
                for i in 0..n {
                    if towards_zero[i] {
                        x[i] -= want.ties[i] as i128;
                    }
                }
            }
            Ints::Big(x) => {
                x.resize(n, BigI::new(false, BigU::zero()));
                for i in 0..n {
                    if towards_zero[i] {
                        x[i] = x[i].sub(&BigI::from_i128(want.ties[i] as i128));
                    }
                }
            }
        }
        v
    } else {
        let res: Vec<Vec<u64>> = (0..k).map(|j| fast_intt(&pt.data()[j * n..(j + 1) * n], lv.roots[j], lv.moduli[j])).collect();
        let got = match lv.comp.compose(&res, n) {
            Ok(g) => g,
            Err(e) => return Err(CaseOut::fail(format!("{section}:reference-composition"), "fast composition = refmodel crt", e)),
        };
        let (real, tol) = want.real.unwrap();
        let maxr = real.iter().fold(0.0f64, |a, r| a.max(r.abs()));
        for i in 0..n {
            let err = got.diff(i, real[i]);
            if !(err.abs() <= tol) {
                let bad = (0..n).filter(|&i| !(got.diff(i, real[i]).abs() <= tol)).count();
                return Err(CaseOut::fail(
                    format!("{section}:{ename}:wrong-coefficient:{}", mag_class(&big_round_f64(maxr).mag)),
                    format!("coefficient {i} = round(scale*preimage) = round({:e}) within {:e} ({})", real[i], tol, ctxt()),
                    format!("coefficient {i} = {} (difference {:e}); {bad} of {n} coefficients are off", got.fmt(i), err),
                ));
            }
        }
        got
    };
    let maxmag = got.max_mag();
    let nonzero = got.any_nonzero();
    // ---- the in-place form on a used destination, the default level
    match call_encode(kit, inp, lv.id, scale, Some(dirty)) {
        Ok(p2) => {
            steps += 1;
            if p2.data() != pt.data() || p2.parms_id() != pt.parms_id() || p2.scale().to_bits() != pt.scale().to_bits() || p2.coeff_count() != pt.coeff_count() {
                let at = (0..pt.data().len().min(p2.data().len())).find(|&i| pt.data()[i] != p2.data()[i]);
                return Err(CaseOut::fail(
                    format!("{section}:{ename}:forms-differ"),
                    format!("in-place form on a used destination = _new form ({})", ctxt()),
                    format!("first differing word {:?}; coeff_count {} vs {}; len {} vs {}", at, pt.coeff_count(), p2.coeff_count(), pt.data().len(), p2.data().len()),
                ));
            }
        }
        Err(p) => return Err(CaseOut::fail(format!("{section}:{ename}:forms-differ:{}", panic_class(&p)), format!("in-place form accepts like _new ({})", ctxt()), p)),
    }
    if lv.is_first && check_default {
        match call_encode_default_level(kit, inp, scale) {
            Ok(p3) if p3.data() == pt.data() && p3.parms_id() == pt.parms_id() => steps += 1,
            Ok(_) => return Err(CaseOut::fail(format!("{section}:{ename}:default-level"), format!("parms_id None = first level ({})", ctxt()), "different plaintext")),
            Err(p) => return Err(CaseOut::fail(format!("{section}:{ename}:default-level:{}", panic_class(&p)), format!("parms_id None = first level ({})", ctxt()), p)),
        }
    }
    let class = format!("accepted:{}:k={}", mag_class(&maxmag), k.min(3));
    // ---- decoding (data levels, magnitudes below 2^1000)
    if !lv.data_level || maxmag.bits() > 1000 {
        return Ok(Judged { steps, nonzero, class });
    }
    if !pt.is_valid_for(&kit.ctx) {
        return Err(CaseOut::fail(format!("{section}:{ename}:not-valid-for-context"), format!("is_valid_for ({})", ctxt()), "false"));
    }
    let cf: Vec<f64> = (0..n).map(|i| got.to_f64(i) / scale).collect();
    let mx = cf.iter().fold(0.0f64, |a, x| a.max(x.abs()));
    let nn = n as f64;
    let logn = (n.trailing_zeros() as f64).max(1.0);
    let u = 2f64.powi(-52);
    let wtol = lv.words as f64 + 4.0;
    match guard(|| kit.enc.decode_polynomial_new(&pt)) {
        Err(p) => return Err(CaseOut::fail(format!("{section}:{ename}:decode-polynomial:{}", panic_class(&p)), format!("decodes ({})", ctxt()), p)),
        Ok(dp) => {
            steps += 1;
            if dp.len() != n {
                return Err(CaseOut::fail(format!("{section}:{ename}:decode-polynomial-wrong"), format!("{n} coefficients ({})", ctxt()), format!("{}", dp.len())));
            }
            for i in 0..n {
                let tol = wtol * u * cf[i].abs();
                if !((dp[i] - cf[i]).abs() <= tol) {
                    let small = got.is_neg(i) && (dp[i] - cf[i]).abs() <= cf[i].abs() * 2f64.powi(-40);
                    return Err(CaseOut::fail(
                        format!("{section}:{ename}:decode-polynomial-wrong{}", if small { ":negative-cancellation" } else { "" }),
                        format!("coefficient {i} / scale = {:e} within {:e} (integer coefficient {}) ({})", cf[i], tol, got.fmt(i), ctxt()),
                        format!("{:e}", dp[i]),
                    ));
                }
            }
        }
    }
    if want.slots_in.is_none() && want.monomial.is_none() {
        return Ok(Judged { steps, nonzero, class });
    }
    match guard(|| kit.enc.decode_new(&pt)) {
        Err(p) => return Err(CaseOut::fail(format!("{section}:{ename}:decode:{}", panic_class(&p)), format!("decodes ({})", ctxt()), p)),
        Ok(dec) => {
            steps += 1;
            if dec.len() != n / 2 {
                return Err(CaseOut::fail(format!("{section}:{ename}:decode-wrong"), format!("{} slots ({})", n / 2, ctxt()), format!("{}", dec.len())));
            }
            let tol_a = (nn * logn + wtol) * u * nn * mx;
            if let Some(pos) = want.monomial {
                for j in 0..n / 2 {
                    let s = er.monomial_slot(j, pos, cf[pos]);
                    let e = (dec[j].re - s.0).abs().max((dec[j].im - s.1).abs());
                    if !(e <= tol_a) {
                        return Err(CaseOut::fail(
                            format!("{section}:{ename}:decode-wrong"),
                            format!("slot {j} = embedding of the plaintext's integer vector ({} * X^{pos} / scale) = ({:e},{:e}) within {:e} ({})", got.fmt(pos), s.0, s.1, tol_a, ctxt()),
                            format!("({:e},{:e})", dec[j].re, dec[j].im),
                        ));
                    }
                }
            }
            if let Some(sl) = want.slots_in {
                let tolc = match want.real {
                    Some((_, t)) => t,
                    None => 0.5,
                };
                let tol_b = nn * tolc / scale + tol_a + (nn * logn + 4.0) * u * nn * want.vmax;
                for j in 0..n / 2 {
                    let s = sl(j);
                    let e = (dec[j].re - s.0).abs().max((dec[j].im - s.1).abs());
                    if !(e <= tol_b) {
                        let bad = (0..n / 2).filter(|&j| !((dec[j].re - sl(j).0).abs().max((dec[j].im - sl(j).1).abs()) <= tol_b)).count();
                        return Err(CaseOut::fail(
                            format!("{section}:{ename}:decode-input"),
                            format!("slot {j} = input ({:e},{:e}) within {:e} ({})", s.0, s.1, tol_b, ctxt()),
                            format!("({:e},{:e}); {bad} of {} slots are off", dec[j].re, dec[j].im, n / 2),
                        ));
                    }
                }
            }
        }
    }
    Ok(Judged { steps, nonzero, class })
}

fn dirty_plain(words: usize, seed: u64) -> Plaintext {
    let mut p = Plaintext::new();
    p.resize(words + 3);
    for (i, x) in p.data_mut().iter_mut().enumerate() {
        *x = 0x9E37_79B9_7F4A_7C15u64.wrapping_mul(i as u64 + seed) | 1;
    }
    p.set_scale(12345.0);
    p
}

// ---------------------------------------------------------------------------------------------
// sections `big_vector`, `big_coefflist`: every input length, structured families
// ---------------------------------------------------------------------------------------------

#[derive(Serialize, Deserialize, Clone, Debug)]
pub struct BigCase {
    pub spec: ParamSpec,
    /// number of primes of the level encoded at
    pub level_primes: usize,
    /// C64Array or F64Poly
    pub entry: Entry,
    /// scale = 2^scale_exp
    pub scale_exp: i32,
    pub fam: Fam,
    /// the input lengths of this case, ascending (a length above the capacity has to be refused)
    pub lens: Vec<usize>,
}

fn check_big(section: &str, c: &BigCase, seed: u64) -> CaseOut {
    let tag = h64(&serde_json::to_string(c).unwrap_or_default());
    env_real(seed, tag);
    if let Err(e) = big_selftest() {
        return CaseOut::fail(format!("{section}:reference-selftest"), "reference self-test passes", e);
    }
    let (kit, lv) = match open_level(section, &c.spec, c.level_primes) {
        Ok(x) => x,
        Err(o) => return o,
    };
    let n = lv.n;
    let scale = 2f64.powi(c.scale_exp);
    let ename = c.entry.name();
    let er = EmbRef::new(n);
    let dirty = dirty_plain(n * lv.moduli.len(), seed);
    let capacity = match c.entry {
        Entry::C64Array => n / 2,
        Entry::F64Poly => n,
        _ => return CaseOut::skip("entry point without an input length"),
    };
    let logn = (n.trailing_zeros() as f64).max(1.0);
    let mut steps = 0u64;
    let mut nontrivial = false;
    let mut classes: BTreeSet<String> = BTreeSet::new();
    let mut judged = 0usize;
    // prefix families: the terms accumulated so far
    let mut acc = vec![0.0f64; n];
    let mut have = 0usize;
    let mut vmax_prefix = 0.0f64;
    for (idx, &len) in c.lens.iter().enumerate() {
        let inp = match c.entry {
            Entry::C64Array => Input::Arr(fam_vector(c.fam, len)),
            _ => Input::Poly(fam_list(c.fam, len)),
        };
        let ctxt = || format!("{} level_primes={} scale=2^{} family {} length {len}", c.spec.label(), c.level_primes, c.scale_exp, c.fam.name());
        if len > capacity {
            steps += 1;
            match call_encode(&kit, &inp, lv.id, scale, None) {
                Ok(_) => return CaseOut::fail(format!("{section}:{ename}:too-long-accepted"), format!("refused: {len} values for N={n}"), "accepted"),
                Err(p) => {
                    classes.insert(format!("too-long:{}", panic_class(&p)));
                }
            }
            continue;
        }
        if len == 0 && c.entry == Entry::F64Poly {
            continue; // the empty list is observed by the sections above, not judged
        }
        let r = match (&inp, c.fam.unit_pos(len)) {
            (Input::Arr(vals), pos) => {
                let (real, vmax) = match pos {
                    Some(p) if len > 0 => {
                        let mut a = vec![0.0; n];
                        er.add_slot(&mut a, p, Z0);
                        (er.finish(&a, scale), Z0.0.hypot(Z0.1))
                    }
                    Some(_) => (vec![0.0; n], 0.0),
                    None => {
                        while have < len {
                            let z = fam_slot(c.fam, have);
                            er.add_slot(&mut acc, have, z);
                            vmax_prefix = vmax_prefix.max(z.0.hypot(z.1));
                            have += 1;
                        }
                        (er.finish(&acc, scale), if len == 0 { 0.0 } else { vmax_prefix })
                    }
                };
                let maxr = real.iter().fold(0.0f64, |a, r| a.max(r.abs()));
                if !must_accept_real(maxr.max(vmax * scale), lv.b) {
                    classes.insert("not-enumerated:does-not-fit".into());
                    continue;
                }
                let tol = 0.5 + (n as f64) * logn * 2f64.powi(-52) * scale * vmax;
                let sl = |j: usize| if j < vals.len() { vals[j] } else { (0.0, 0.0) };
                let want = Want { real: Some((&real, tol)), ints: None, ties: vec![], vmax, slots_in: Some(&sl), monomial: None };
                judge(section, &kit, &lv, c.entry, &inp, scale, &want, &er, &dirty, idx == 0, &ctxt)
            }
            (Input::Poly(vals), pos) => {
                let Some(ints) = Ints::from_products(vals, scale) else {
                    classes.insert("not-enumerated:inexact-product".into());
                    continue;
                };
                if ints.max_mag().bits() + 3 > lv.b {
                    classes.insert("not-enumerated:does-not-fit".into());
                    continue;
                }
                let vmax = vals.iter().fold(0.0f64, |a, v| a.max(v.abs()));
                let want = Want { real: None, ints: Some(&ints), ties: tie_signs(vals, scale), vmax, slots_in: None, monomial: pos };
                judge(section, &kit, &lv, c.entry, &inp, scale, &want, &er, &dirty, idx == 0, &ctxt)
            }
            _ => unreachable!(),
        };
        match r {
            Ok(j) => {
                steps += j.steps;
                nontrivial |= j.nonzero;
                classes.insert(j.class);
                judged += 1;
            }
            Err(o) => return o,
        }
    }
    if judged == 0 && classes.iter().all(|c| c.starts_with("not-enumerated")) {
        return CaseOut::skip("no input of this case fits the level at this scale");
    }
    CaseOut::pass(nontrivial, h64(&(ename, c.fam.name(), classes.iter().cloned().collect::<Vec<_>>())), steps)
}

// ---------------------------------------------------------------------------------------------
// section `big_primes`: 1..20 primes at the level x five entry points x width paths
// ---------------------------------------------------------------------------------------------

#[derive(Serialize, Deserialize, Clone, Debug)]
pub struct PrimesCase {
    pub spec: ParamSpec,
    pub level_primes: usize,
    pub entry: Entry,
}

/// scale exponents for a level of B bits: the 64-bit path, the 128-bit path, the multi-word path with 3 words and with
/// every word the level has (capped at 2^990)
fn path_exps(b: usize) -> Vec<i32> {
    let top = (b as i32 - 6).min(990);
    let mut v: Vec<i32> = [20, 100, 150, top].into_iter().filter(|&e| e <= top && e >= 0).collect();
    if v.is_empty() {
        v.push(top.max(0));
    }
    v.sort();
    v.dedup();
    v
}

fn check_primes(section: &str, c: &PrimesCase, seed: u64) -> CaseOut {
    let tag = h64(&serde_json::to_string(c).unwrap_or_default());
    env_real(seed, tag);
    if let Err(e) = big_selftest() {
        return CaseOut::fail(format!("{section}:reference-selftest"), "reference self-test passes", e);
    }
    let (kit, lv) = match open_level(section, &c.spec, c.level_primes) {
        Ok(x) => x,
        Err(o) => return o,
    };
    let n = lv.n;
    let slots = n / 2;
    let er = EmbRef::new(n);
    let dirty = dirty_plain(n * lv.moduli.len(), seed);
    let logn = (n.trailing_zeros() as f64).max(1.0);
    let mut steps = 0u64;
    let mut nontrivial = false;
    let mut classes: BTreeSet<String> = BTreeSet::new();
    let mut judged = 0usize;
    let exps: Vec<i32> = if c.entry == Entry::I64Single { vec![0] } else { path_exps(lv.b) };
    // the inputs of the entry point
    let mut inputs: Vec<(String, Input)> = vec![];
    match c.entry {
        Entry::C64Array => {
            let mut shapes: Vec<(Fam, usize)> = vec![(Fam::UnitFirst, 1), (Fam::UnitLast, slots), (Fam::Const, slots), (Fam::Alt, slots.saturating_sub(1).max(1)), (Fam::Cycle, slots), (Fam::Ramp, slots.min(65))];
            if slots > 65 {
                shapes.push((Fam::Cycle, 65));
            }
            for (f, len) in shapes {
                inputs.push((format!("family {} length {len}", f.name()), Input::Arr(fam_vector(f, len))));
            }
        }
        Entry::F64Poly => {
            let mut shapes: Vec<(Fam, usize)> = vec![(Fam::UnitFirst, 1), (Fam::UnitLast, n), (Fam::Const, n), (Fam::Alt, n - 1), (Fam::Cycle, n), (Fam::Ramp, n.min(65))];
            if n > 65 {
                shapes.push((Fam::Cycle, 65));
            }
            for (f, len) in shapes {
                inputs.push((format!("family {} length {len}", f.name()), Input::Poly(fam_list(f, len))));
            }
        }
        Entry::F64Single => {
            for v in [1.0, -1.5, 0.3, -1.9999999999999998, 2.5, -0.5] {
                inputs.push((format!("value {v:e}"), Input::F(v)));
            }
        }
        Entry::C64Single => {
            for z in [Z0, (0.0, -1.0), (1.0, 0.0), (0.3, -0.7)] {
                inputs.push((format!("value ({:e},{:e})", z.0, z.1), Input::Cx(z)));
            }
        }
        Entry::I64Single => {
            for v in [1i64, -1, 3, 5_000_000, -5_000_000, -((1i64 << 40) + 1), (1i64 << 62) + 12345, -((1i64 << 62) + 12345), i64::MAX, i64::MIN] {
                inputs.push((format!("value {v}"), Input::I(v)));
            }
        }
    }
    for &e in &exps {
        let scale = 2f64.powi(e);
        for (ii, (what, inp)) in inputs.iter().enumerate() {
            let ctxt = || format!("{} level_primes={} scale=2^{e} {what}", c.spec.label(), c.level_primes);
            let first = ii == 0;
            let r = match inp {
                Input::Arr(_) | Input::Cx(_) => {
                    let vals: Vec<C> = match inp {
                        Input::Arr(v) => v.clone(),
                        Input::Cx(z) => vec![*z; slots],
                        _ => unreachable!(),
                    };
                    let mut acc = vec![0.0; n];
                    let mut vmax = 0.0f64;
                    for (j, &z) in vals.iter().enumerate() {
                        if z != (0.0, 0.0) {
                            er.add_slot(&mut acc, j, z);
                            vmax = vmax.max(z.0.hypot(z.1));
                        }
                    }
                    let real = er.finish(&acc, scale);
                    let maxr = real.iter().fold(0.0f64, |a, r| a.max(r.abs()));
                    if !must_accept_real(maxr.max(vmax * scale), lv.b) {
                        classes.insert("not-enumerated:does-not-fit".into());
                        continue;
                    }
                    let tol = 0.5 + (n as f64) * logn * 2f64.powi(-52) * scale * vmax;
                    let sl = |j: usize| if j < vals.len() { vals[j] } else { (0.0, 0.0) };
                    let want = Want { real: Some((&real, tol)), ints: None, ties: vec![], vmax, slots_in: Some(&sl), monomial: None };
                    judge(section, &kit, &lv, c.entry, inp, scale, &want, &er, &dirty, first, &ctxt)
                }
                Input::F(_) | Input::I(_) | Input::Poly(_) => {
                    let (ints, vmax, constant): (Option<Ints>, f64, Option<f64>) = match inp {
                        Input::F(v) => (Ints::from_products(&[*v], scale), v.abs(), Some(*v)),
                        Input::I(v) => (Some(Ints::Small(vec![*v as i128])), (*v as f64).abs(), Some(*v as f64)),
                        Input::Poly(vs) => (Ints::from_products(vs, scale), vs.iter().fold(0.0f64, |a, v| a.max(v.abs())), None),
                        _ => unreachable!(),
                    };
                    let Some(ints) = ints else {
                        classes.insert("not-enumerated:inexact-product".into());
                        continue;
                    };
                    if ints.max_mag().bits() + 3 > lv.b {
                        classes.insert("not-enumerated:does-not-fit".into());
                        continue;
                    }
                    let sl = move |_j: usize| (constant.unwrap_or(0.0), 0.0);
                    // a single value is the constant polynomial: the monomial X^0
                    let monomial = match inp {
                        Input::Poly(vs) if vs.iter().filter(|v| **v != 0.0).count() == 1 => vs.iter().position(|v| *v != 0.0),
                        Input::Poly(_) => None,
                        _ => Some(0),
                    };
                    let ties = match inp {
                        Input::F(v) => tie_signs(&[*v], scale),
                        Input::Poly(vs) => tie_signs(vs, scale),
                        _ => vec![],
                    };
                    let want = Want { real: None, ints: Some(&ints), ties, vmax, slots_in: if constant.is_some() { Some(&sl) } else { None }, monomial };
                    judge(section, &kit, &lv, c.entry, inp, if c.entry == Entry::I64Single { 1.0 } else { scale }, &want, &er, &dirty, first, &ctxt)
                }
            };
            match r {
                Ok(j) => {
                    steps += j.steps;
                    nontrivial |= j.nonzero;
                    classes.insert(j.class);
                    judged += 1;
                }
                Err(o) => return o,
            }
        }
    }
    if judged == 0 {
        return CaseOut::skip("no input of this case fits the level");
    }
    CaseOut::pass(nontrivial, h64(&(c.entry.name(), classes.iter().cloned().collect::<Vec<_>>())), steps)
}

// ---------------------------------------------------------------------------------------------
// enumeration
// ---------------------------------------------------------------------------------------------

fn chains(n: usize, _thorough: bool) -> Vec<Vec<usize>> {
    // bit sizes of the key-level chain (the last prime is the special prime when there are >= 2)
    let mut v: Vec<Vec<usize>> = vec![
        vec![20],
        vec![30],
        vec![60],
        vec![20, 20],
        vec![40, 30],
        vec![20, 20, 20],
        vec![60, 60, 60],
        vec![50, 30, 60, 40],
        vec![20; 6],
        vec![60; 6],
    ];
    if n >= 8 {
        v.push(vec![40]);
        v.push(vec![50]);
        v.push(vec![60, 20]);
        v.push(vec![25, 45, 35, 55, 21, 59]);
    }
    v
}

fn scales(b: usize, thorough: bool) -> Vec<Sc> {
    let b = b as i32;
    let mut exps: Vec<i32> = vec![0, 10, 30, 50, 62, 63, 64, 66, 100, 126, 127, 128, 130, b - 4, b - 3, b - 2];
    if thorough {
        exps.extend([1, 20, 40, 61, 65, 96, 125, 129, 192, 256, 500, b - 5, b - 10, b - 64, b - 128]);
    }
    exps.retain(|&e| e >= 0 && e <= b - 2 && e <= 990);
    exps.sort();
    exps.dedup();
    let mut v: Vec<Sc> = exps.into_iter().map(Sc::Pow2).collect();
    v.push(Sc::Pow2(-3));
    for (m, e) in [(3.0, 20), (1e6, 0), (1.5, 64), (0.75, 0), (1.1, 100)] {
        let s: f64 = m * 2f64.powi(e);
        if s.log2() + 2.0 < b as f64 {
            v.push(Sc::Mul { m, e });
        }
    }
    // inadmissible
    v.extend([Sc::Zero, Sc::NegZero, Sc::Neg(0), Sc::Neg(30), Sc::Nan, Sc::Inf, Sc::NegInf]);
    for e in [b - 1, b, b + 10] {
        if e < 1020 {
            v.push(Sc::Pow2(e));
        }
    }
    v
}

/// (degree, key-chain bit sizes, levels given as number of primes, use the thorough scale grid)
fn universe(thorough: bool) -> Vec<(usize, Vec<usize>, Vec<usize>, bool)> {
    let mut out = vec![];
    let all_levels = |k: usize| (1..=k).rev().collect::<Vec<usize>>();
    if !thorough {
        for n in [2usize, 4, 8, 16] {
            for bits in chains(n, false) {
                let k = bits.len();
                out.push((n, bits, all_levels(k), false));
            }
        }
        // one long chain in the quick tier too (19 data primes + special prime, the four top levels): composed
        // coefficients of 17+ words are where a multi-word decode can overflow a double (seeded change C12-B)
        out.push((4, vec![30; 20], vec![20, 19, 18, 17], false));
        return out;
    }
    for n in [2usize, 4, 8, 16, 32] {
        for bits in chains(8, false) {
            let k = bits.len();
            out.push((n, bits, all_levels(k), n <= 8));
        }
    }
    // long chains: 19 data primes + special prime, every level
    for bits in [vec![30; 20], vec![50; 20], vec![60; 20], (0..20).map(|i| 20 + 2 * i + (i % 3)).collect::<Vec<usize>>()] {
        out.push((8, bits, all_levels(20), false));
    }
    // large degree
    for bits in [vec![60], vec![20, 20, 20], vec![60, 60, 60], vec![20; 6], vec![60; 6]] {
        let k = bits.len();
        out.push((64, bits, all_levels(k), false));
    }
    out.push((64, vec![50; 20], vec![20, 19, 12, 5, 2, 1], false));
    out
}

fn cases_for(entries: &[Entry], cfg: &RunCfg) -> Vec<Case> {
    let mut out = vec![];
    for (n, bits, levels, fine) in universe(cfg.thorough()) {
        let q = chain(n, &bits);
        let spec = ParamSpec::new(Scheme::CKKS, n, q.clone(), 0);
        for lp in levels {
            let b = BigU::product(&q[..lp]).bits();
            for &entry in entries {
                if entry == Entry::I64Single {
                    out.push(Case { spec: spec.clone(), level_primes: lp, entry, scale: Sc::Pow2(0), group: Group::Plain });
                    continue;
                }
                for sc in scales(b, fine) {
                    let groups: &[Group] = if matches!(sc, Sc::Pow2(e) if e >= 0) { &[Group::Plain, Group::Edge, Group::Fit] } else { &[Group::Plain] };
                    for &group in groups {
                        out.push(Case { spec: spec.clone(), level_primes: lp, entry, scale: sc, group });
                    }
                }
            }
        }
    }
    // simplest first: small degree, few primes, plain group
    out.sort_by_key(|c| (c.spec.n, c.spec.q.len(), c.level_primes, c.group as u8 as usize));
    out
}

pub fn sections(cfg: &RunCfg) -> Vec<Box<dyn AnySection>> {
    let seed = cfg.seed;
    let thorough = cfg.thorough();
    let mut v: Vec<Box<dyn AnySection>> = vec![];

    // embedding
    let mut emb = vec![];
    let degrees: Vec<usize> = if thorough { vec![2, 4, 8, 16, 32, 64] } else { vec![2, 4, 8, 16] };
    for &n in &degrees {
        let spec = ParamSpec::new(Scheme::CKKS, n, chain(n, &[60, 60]), 0);
        for slot in 0..n / 2 {
            for imag in [false, true] {
                emb.push(EmbCase { spec: spec.clone(), slot, imag });
            }
        }
    }
    v.push(
        E1::new(
            "embedding",
            "N = 2..16 (64 thorough), every slot, values 1 and i, scale 2^40: coefficients of the unit vectors and decoding back into the same slot",
            emb.into_iter(),
            move |c: &EmbCase| check_embedding(c, seed),
        )
        .deadline(Duration::from_secs(30)),
    );

    let uni: Vec<String> = universe(thorough)
        .iter()
        .map(|(n, bits, levels, fine)| {
            let b: String = if bits.len() > 6 && bits.iter().all(|x| *x == bits[0]) { format!("{}x{}", bits[0], bits.len()) } else { format!("{:?}", bits) };
            format!("N{n}:{b}{}{}", if levels.len() == bits.len() { String::new() } else { format!("@levels{:?}", levels) }, if *fine { "+" } else { "" })
        })
        .collect();
    let bound = |what: &str| {
        format!(
            "{what}; (degree:key-chain bit sizes, '+' = fine scale grid) {}; every level incl. key level unless listed; scales 2^e, e in {{0,10,30,50,62,63,64,66,100,126,127,128,130,B-4,B-3,B-2}} (fine grid adds {{1,20,40,61,65,96,125,129,192,256,500,B-5,B-10,B-64,B-128}}) capped at 2^990, + 2^-3, 3*2^20, 1e6, 1.5*2^64, 0.75, 1.1*2^100 + inadmissible {{0,-0,-1,-2^30,NaN,+-inf,2^(B-1),2^B,2^(B+10)}}; groups plain/edge/fit (edge, fit only for 2^e scales)",
            uni.join(" ")
        )
    };
    let mut main_sections = vec![];
    for (name, entries, what, share) in [
        ("single", vec![Entry::F64Single, Entry::C64Single, Entry::I64Single], "encode_f64_single (26 reals), encode_c64_single (18 complex), encode_i64_single (boundary integers incl. +-(q_i-1..q_i+1), i64::MIN/MAX, modulus-relative)", 0.3),
        ("coefflist", vec![Entry::F64Poly], "encode_f64_polynomial: every length 1..N, constant / last-coefficient / mixed lists over 26 reals", 0.5),
        ("vector", vec![Entry::C64Array], "encode_c64_array: alphabet of 18 complex values; all vectors of all lengths for N<=4, unit/constant-prefix/mixed vectors beyond", 1.0),
    ] {
        let cases = cases_for(&entries, cfg);
        let sec = name.to_string();
        main_sections.push(E1::new(name, &bound(what), cases.into_iter(), move |c: &Case| check(&sec, c, seed, thorough)).deadline(Duration::from_secs(120)).share(if thorough { share } else { 1.0 }));
    }

    // decode_borrow
    let mut bc = vec![];
    let bdeg: &[usize] = if thorough { &[2, 4, 8, 16] } else { &[4, 8] };
    for &n in bdeg {
        for bits1 in [20usize, 30] {
            if let Some(q) = small_low_word_chain(n, bits1) {
                // single data level: use the pair as the data level by adding a special prime
                let mut qq = q.clone();
                let sp = ntt_primes(n, 59, 3).into_iter().find(|p| !q.contains(p)).unwrap();
                qq.push(sp);
                let spec = ParamSpec::new(Scheme::CKKS, n, qq, 0);
                let low = BigU::product(&q).low_limbs(1)[0] as i64;
                for mag in [low + 1, 1, low - 1, low, low + 1023, 2 * low + 7, (1i64 << 30) + 1023, (1i64 << 40) + 1, (1i64 << 52) + 1] {
                    bc.push(BorrowCase { spec: spec.clone(), value: -mag });
                    bc.push(BorrowCase { spec: spec.clone(), value: mag });
                }
            }
        }
    }
    v.push(
        E1::new(
            "decode_borrow",
            "two-prime data levels whose modulus has a low 64-bit word below 2^20 / 2^30 (searched: p2 = ceil(k*2^64/p1)); integers +-{1, w-1, w, w+1, w+1023, 2w+7, 2^30+1023, 2^40+1, 2^52+1} (w = low word) through encode_i64_single, decode and decode_polynomial",
            bc.into_iter(),
            move |c: &BorrowCase| check_borrow(c, seed),
        )
        .deadline(Duration::from_secs(30)),
    );
    for b in big_sections(cfg) {
        v.push(b);
    }
    for m in main_sections {
        v.push(m);
    }
    v
}

/// the lengths around the block / table sizes 8 .. 4096 up to `cap`, plus 0 (if wanted), cap - 1, cap and cap + 1 (refused)
fn boundary_lengths(cap: usize, with_zero: bool) -> Vec<usize> {
    let mut v: Vec<usize> = vec![1, 2, 3, 5];
    for p in [8usize, 16, 32, 64, 128, 256, 512, 1024, 2048, 4096, 8192] {
        v.extend([p - 1, p, p + 1]);
    }
    v.extend([96, 100, 191, 192, 193, 1000, 3000]);
    v.retain(|&x| x <= cap);
    v.extend([cap - 1, cap, cap + 1]);
    if with_zero {
        v.push(0);
    }
    v.sort();
    v.dedup();
    v
}

/// `he::chain`, remembered for the process (`sections` is built once per replayed file, and a search for twenty 60-bit
/// primes is not free)
fn chain_cached(n: usize, bits: &[usize]) -> Vec<u64> {
    static CACHE: OnceLock<std::sync::Mutex<std::collections::BTreeMap<(usize, Vec<usize>), Vec<u64>>>> = OnceLock::new();
    let cache = CACHE.get_or_init(Default::default);
    if let Some(v) = cache.lock().unwrap().get(&(n, bits.to_vec())) {
        return v.clone();
    }
    let v = if bits.iter().all(|b| *b == bits[0]) { ntt_primes(n, bits[0], bits.len()) } else { chain(n, bits) };
    cache.lock().unwrap().insert((n, bits.to_vec()), v.clone());
    v
}

fn big_sections(cfg: &RunCfg) -> Vec<Box<dyn AnySection>> {
    let seed = cfg.seed;
    let thorough = cfg.thorough();
    let mut v: Vec<Box<dyn AnySection>> = vec![];
    let degrees: Vec<usize> = if thorough { vec![32, 64, 128, 256, 512, 1024, 2048, 4096, 8192] } else { vec![32, 64, 128, 256, 512, 1024] };
    let every_fam = [Fam::UnitLast, Fam::UnitFirst, Fam::UnitMid, Fam::Const, Fam::Alt, Fam::Ramp];
    let chunk = 64usize;

    for (name, entry, exp_all, exps_wide, what) in [
        (
            "big_vector",
            Entry::C64Array,
            40,
            [100, 150],
            "encode_c64_array, decode, decode_polynomial: value (-0.75,0.25) in the last / first / middle slot of the input, constant, alternating, ramp (1+j/2, -(j+1)/4)",
        ),
        (
            "big_coefflist",
            Entry::F64Poly,
            0,
            [70, 140],
            "encode_f64_polynomial, decode_polynomial (decode for the monomials): value -2.5 in the last / first / middle position of the list, constant, alternating, ramp +-((k+1)*1048577 + {.5,.25,.75,0})",
        ),
    ] {
        let mut cases: Vec<BigCase> = vec![];
        for &n in &degrees {
            let cap = if entry == Entry::C64Array { n / 2 } else { n };
            // (a) every length, 64-bit path, two primes at the level
            let spec = ParamSpec::new(Scheme::CKKS, n, chain_cached(n, &[50, 40, 60]), 0);
            for fam in every_fam {
                let first = if entry == Entry::C64Array && fam == Fam::Const { 0 } else { 1 };
                let all: Vec<usize> = (first..=cap).collect();
                let last = (all.len() + chunk - 1) / chunk - 1;
                for (ci, lens) in all.chunks(chunk).enumerate() {
                    let mut lens = lens.to_vec();
                    if ci == last {
                        lens.push(cap + 1);
                    }
                    cases.push(BigCase { spec: spec.clone(), level_primes: 2, entry, scale_exp: exp_all, fam, lens });
                }
            }
            // (b) boundary lengths on the 128-bit and the multi-word path, three primes at the level, every family
            let spec = ParamSpec::new(Scheme::CKKS, n, chain_cached(n, &[60, 60, 60, 60]), 0);
            for e in exps_wide {
                for fam in Fam::all() {
                    cases.push(BigCase { spec: spec.clone(), level_primes: 3, entry, scale_exp: e, fam, lens: boundary_lengths(cap, entry == Entry::C64Array) });
                }
            }
        }
        let sec = name.to_string();
        let bound = format!(
            "{what}; N in {:?}; (a) EVERY input length {}..capacity+1 (capacity = {}; capacity+1 must be refused), chain 50+40 bit (+60 special), scale 2^{exp_all}, 6 families; (b) lengths {{1,2,3,5, p-1,p,p+1 for p = 8..8192, 96,100,191..193,1000,3000, capacity-1..capacity+1}} on the 128-bit and the multi-word path: chain 3x60 bit (+60 special), scales 2^{} and 2^{}, the 6 families + a 7-cycle of small values; plaintext compared word for word (exact entry point) / coefficient-wise after the reference inverse NTT and CRT (vector), in-place form on a used destination, decode against the input",
            degrees,
            if entry == Entry::C64Array { "0 (constant family) / 1" } else { "1" },
            if entry == Entry::C64Array { "N/2" } else { "N" },
            exps_wide[0],
            exps_wide[1]
        );
        v.push(E1::new(name, &bound, cases.into_iter(), move |c: &BigCase| check_big(&sec, c, seed)).deadline(Duration::from_secs(240)).batch(1).share(if thorough { 0.3 } else { 1.0 }));
    }

    // big_primes
    let mut cases: Vec<PrimesCase> = vec![];
    let pdeg: Vec<usize> = if thorough { vec![4, 8, 64, 1024, 4096] } else { vec![8, 1024] };
    let mut pchains: Vec<Vec<usize>> = vec![vec![60; 20], vec![30; 20]];
    if thorough {
        pchains.push(vec![50; 20]);
        pchains.push((0..20).map(|i| 20 + 2 * i + (i % 3)).collect());
    }
    for &n in &pdeg {
        for bits in &pchains {
            let spec = ParamSpec::new(Scheme::CKKS, n, chain_cached(n, bits), 0);
            for lp in 1..=20usize {
                for entry in [Entry::I64Single, Entry::F64Single, Entry::F64Poly, Entry::C64Single, Entry::C64Array] {
                    cases.push(PrimesCase { spec: spec.clone(), level_primes: lp, entry });
                }
            }
        }
    }
    cases.sort_by_key(|c| (c.spec.n, c.level_primes));
    let bound = format!(
        "N in {:?} x 20-prime chains {:?} x EVERY level 1..20 primes (key level included) x five entry points x scales {{2^20, 2^100, 2^150, 2^min(B-6,990)}} that fit the level (64-bit, 128-bit, 3-word and all-word paths; 1..16 words of a scaled coefficient) x inputs: vector / list families unit-first(1), unit-last(full), const(full), alt(full-1), 7-cycle(full, 65), ramp(65); reals {{1,-1.5,0.3,-1.9999999999999998,2.5,-0.5}}; complex {{(-.75,.25),-i,1,(.3,-.7)}}; integers {{1,-1,3,+-5e6,-(2^40+1),+-(2^62+12345),i64::MAX,i64::MIN}} that fit",
        pdeg,
        pchains.iter().map(|b| if b.iter().all(|x| *x == b[0]) { format!("{}x{}", b[0], b.len()) } else { format!("{:?}", b) }).collect::<Vec<_>>()
    );
    v.push(E1::new("big_primes", &bound, cases.into_iter(), move |c: &PrimesCase| check_primes("big_primes", c, seed)).deadline(Duration::from_secs(240)).batch(1).share(if thorough { 0.3 } else { 1.0 }));
    v
}
