//! C07 — reported noise budget is the true one; fresh budgets meet the worst-case bound (engine E2).
use crate::e2::*;
use crate::engine::*;

pub fn describe(rep: &Report) {
    rep.set_rule(
        "same E2 exploration as C02 (programs to depth 2 + abstract fixpoint over (level, size, representation, factor)); in EVERY reached state \
         the phase c(s) is recomputed with independent arithmetic (secret key recovered by a naive inverse transform, naive negacyclic products \
         per prime, own CRT to big integers) and the budget bits(Q) - bits(||[t*phase]_Q||) - 1 (BGV: without t) is compared for equality with \
         Decryptor::invariant_noise_budget; fresh budgets >= a-priori bound; negate preserves the reported budget; add/sub/add_many of k \
         equal-factor operands lose at most ceil(log2 k)+1 bits; whenever the exact budget is > 0 the library's decryption equals the message \
         read off the exact phase. States include ciphertexts driven to zero budget (repeated squaring down to the last level).",
    );
    rep.assume("BGV ciphertexts are taken out of NTT form (transform_from_ntt) before asking for the budget: the only form the function accepts");
    rep.assume("the self-tested BigU / u128 arithmetic is the reference");
}

pub fn sections(cfg: &RunCfg) -> Vec<Box<dyn AnySection>> {
    let quick = !cfg.thorough();
    param_sets(cfg)
        .into_iter()
        // the exact-phase oracle costs ~10x a plain transition: in the quick tier the depth-2 closure is kept for three sets only
        .filter(|(name, _, _, _)| !quick || !["bfv_p2_pow2", "bgv_p4", "bfv_p11_short", "bgv_p8_spenc"].contains(&name.as_str()))
        // the exact-phase oracle is multi-precision work per coefficient: degree 1024 is kept for the thorough tier (45 s),
        // degrees 4096 / 8192 (13 min and more per set) are left to C02 / C06, which run the same programs there
        .filter(|(_, spec, _, _)| spec.n < 4096 && (!quick || spec.n < 1024))
        // thorough: the restricted depth-3 closure with the exact-phase oracle is kept for two sets (about 3 min each)
        .map(|(name, spec, depth, abs)| {
            let keep3 = ["bfv_p1", "bgv_p5_t5"].contains(&name.as_str());
            (name, spec, if depth > 2 && !keep3 { 2 } else { depth }, abs)
        })
        .map(|(name, spec, depth, abs)| {
            let deep = ["bfv_p1", "bgv_p5_t5", "bgv_p12_short"].contains(&name.as_str());
            (name, spec, if quick && !deep { 1 } else { depth }, abs)
        })
        .map(|(name, spec, depth, abs)| {
            Box::new(E2Section {
                name,
                spec,
                oracles: Oracles { ring: false, forms: false, budget: true },
                judged: vec!["budget"],
                thorough: cfg.thorough(),
                seed: cfg.seed,
                depth,
                abstract_closure: abs,
            }) as Box<dyn AnySection>
        })
        .collect()
}
