//! C13 — parameter validation is sound; the modulus chain is well-formed and reproducible.
//!
//! Sections (all exhaustive enumerations on the real code; cheap ones first):
//!  * `defaults`        `max_bit_count`, `bfv_default` for every (degree, level)
//!  * `create`          `CoeffModulus::create(N, sizes)` for every N = 2..2^15 and every multiset of sizes (+ `PlainModulus::batching`)
//!  * `create_plain`    the deprecated `CoeffModulus::create_with_plain_modulus(N, t, sizes)` (primes = 1 mod lcm(2N, t))
//!  * `is_prime`        `Modulus::new(n).is_prime()` against a sieve for all n below the bound + boundary windows + pseudoprimes
//!  * `nt_draws`        every first draw of `try_minimal_primitive_root` / every constant draw of `is_prime` for small moduli
//!  * `validate_small`  scheme x degree x coefficient lists over V (x plain modulus x security x expand x special inside a case)
//!  * `validate_std`    standard degrees 1024..32768 with `bfv_default` lists (as is / one bit too large / neighbouring degree)
//!  * `validate_long`   lists of 63 / 64 / 65 distinct primes
//!  * `create_many`     `CoeffModulus::create` with 5..30 primes of ONE size and mixed lists of 27..30 sizes, every N = 2..2^15
//!  * `chain_many`      chains of 1..30 primes at N = 4..512 (60-bit / smallest / mixed-size primes): products cross 1, 2, 8, 9, 16, .. words
//!  * `chain_big`       chains of 1..30 primes at N = 1024..32768 (1, 2, 9 primes at 65536, 131072): SecurityLevel::None and the real security table (largest Tc128 sizes)
//!  * `ids`             pairwise distinct parameter identifiers over the whole universe (custom section: sort + adjacent scan)
//!
//! Oracle of the validate sections: `ref_validate` (the statement's preconditions in ladder order, BigU / u128 arithmetic only),
//! `ref_chain` (which prefixes form the chain), `check_level` (constants against their definitions), `observe_ctx` (list structure,
//! ids of every level against an independently built parameter object). Every accepted object is built twice from independent
//! builder objects under different scripted number-theory draws (hook H3) and the two observations must agree.
//! `chain_many` / `chain_big` run the same oracle with `check_level_ext` switched on: RNS tool bases (q, B, Bsk, Bsk + m_tilde,
//! {t, gamma}: moduli, products, punctured products, inverses), the tool's scalar constants, the tables of Bsk and two entries of
//! every table's root-power arrays, all recomputed with BigU; ids of a chain's levels pairwise distinct.

use crate::engine::*;
use crate::refmodel::bigu::*;
use heathcliff::util as hu;
use heathcliff::verif_hooks::{nt_draw_log, set_nt_draws};
use heathcliff::{CoeffModulus, ContextData, EncryptionParameters, HeContext, Modulus, ParmsID, PlainModulus, SchemeType, SecurityLevel};
use serde::{Deserialize, Serialize};
use serde_json::{json, Value};
use std::cell::RefCell;
use std::collections::HashMap;
use std::sync::atomic::{AtomicU64, Ordering};
use std::sync::Arc;
use std::time::{Duration, Instant};

pub fn describe(rep: &Report) {
    rep.set_rule(
        "validate_*: case = (scheme, degree, explicit coefficient list) and loops over ALL (plain modulus, security level, expand flag, \
         special-prime flag) of its alphabets; every constructible object is given to HeContext::new twice (independent builder \
         objects, different scripted number-theory draws) and compared with an independent predicate / BigU definitions. \
         non-trivial = at least one inner item was accepted (chain, constants, ids compared). ids: every (scheme, degree, list, plain \
         modulus) of the universe through the builder, sort by id, adjacent scan. create: case = (N, multiset of bit sizes). \
         is_prime: case = block of consecutive integers. nt_draws: case = one small modulus, loops over ALL draw values. \
         chain_many / chain_big: case = (scheme, degree, explicit list of 1..30 primes) and loops over its plain moduli, security levels and the \
         four flag combinations like validate_*; additionally every accepted level's RNS tool and table entries are compared with BigU \
         definitions. create_many: case = (N, list of sizes), called twice under different draws.",
    );
    rep.assume("auxiliary RNS bases (chain_many / chain_big): the property fixes their role, not their values; judged: B has k or k+1 moduli with 2^32 * t * q < prod(B) * m_sk, Bsk = B + m_sk, Bsk + m_tilde with m_tilde = 2^32, {t, gamma}; B, m_sk, gamma are distinct 61-bit primes = 1 mod 2N coprime to q and t; every product / punctured product / inverse / table is then judged against these moduli, and two independent builds must choose the same moduli");
    rep.assume("chain_big runs at most 5 GB of expanded chains at a time (a throttle on memory only; the cases and their results do not depend on it)");
    rep.assume("security table re-typed from the HomomorphicEncryption.org standard (ternary secret, classical): 128: 27/54/109/218/438/881, 192: 19/37/75/152/305/611, 256: 14/29/58/118/237/476 for N = 1024..32768; other degrees have no standard entry (limit 0)");
    rep.assume("reference primality: deterministic Miller-Rabin with 12 bases (valid below 2^64) and a sieve of Eratosthenes below the is_prime bound");
    rep.assume("number-theory draws are scripted pseudo-random streams (hook H3); Miller-Rabin's error on composites under ADVERSARIAL draws is enumerated in nt_draws and only the sound direction (a witness among the bases => rejected; prime => accepted) is judged");
    rep.assume("composite coefficient / batching moduli that admit a 2N-th root (17*97 in V): acceptance and the root found depend on the draws; only 'set => preconditions', structure and arithmetic constants are judged there, determinism clauses are not (DESIGN scope decision); counts are reported as observations");
    rep.assume("ContextData::upper_half_increment has no public accessor and is not compared; root-power tables are C09's subject (only root, inv_degree, size are compared here)");
}

// ---------------------------------------------------------------------------------------------
// small helpers
// ---------------------------------------------------------------------------------------------

fn splitmix(state: &mut u64) -> u64 {
    *state = state.wrapping_add(0x9E37_79B9_7F4A_7C15);
    let mut z = *state;
    z = (z ^ (z >> 30)).wrapping_mul(0xBF58_476D_1CE4_E5B9);
    z = (z ^ (z >> 27)).wrapping_mul(0x94D0_49BB_1331_11EB);
    z ^ (z >> 31)
}

fn stream(seed: u64, tag: u64, ctr: u64, len: usize) -> Vec<u64> {
    let mut s = h64(&(seed, tag, ctr));
    (0..len).map(|_| splitmix(&mut s)).collect()
}

fn bits(v: u64) -> usize {
    64 - v.leading_zeros() as usize
}

fn gcd(mut a: u64, mut b: u64) -> u64 {
    while b != 0 {
        (a, b) = (b, a % b);
    }
    a
}

thread_local! {
    static MODS: RefCell<HashMap<u64, Result<Modulus, String>>> = RefCell::new(HashMap::new());
    static ROOTS: RefCell<HashMap<(usize, u64), Option<u64>>> = RefCell::new(HashMap::new());
    static HASROOT: RefCell<HashMap<(usize, u64), Option<bool>>> = RefCell::new(HashMap::new());
    static AVAIL: RefCell<HashMap<(usize, usize, usize), Vec<u64>>> = RefCell::new(HashMap::new());
    static ISP: RefCell<HashMap<u64, bool>> = RefCell::new(HashMap::new());
    /// set when `modulus()` had to replace the installed draw script
    static CLOBBER: std::cell::Cell<bool> = const { std::cell::Cell::new(false) };
    /// set by the production-size sections (`chain_many`, `chain_big`): every accepted level is also given to `check_level_ext`
    static EXT: std::cell::Cell<bool> = const { std::cell::Cell::new(false) };
}

/// memoized deterministic Miller-Rabin (the reference asks the same few moduli again and again)
fn isp(v: u64) -> bool {
    if v < 1 << 16 {
        return is_prime_u64(v);
    }
    if let Some(r) = ISP.with(|m| m.borrow().get(&v).cloned()) {
        return r;
    }
    let r = is_prime_u64(v);
    ISP.with(|m| m.borrow_mut().insert(v, r));
    r
}

/// `Modulus::new(v)` through a per-thread cache (the constructor runs 40 Miller-Rabin rounds); built under its own
/// scripted draws. Err = the builder's refusal.
fn modulus(v: u64) -> Result<Modulus, String> {
    if let Some(r) = MODS.with(|m| m.borrow().get(&v).cloned()) {
        return r;
    }
    set_nt_draws(Some(stream(0xC13, v, 0, 64)));
    let r = guard(|| Modulus::new(v));
    set_nt_draws(None);
    CLOBBER.with(|c| c.set(true));
    MODS.with(|m| m.borrow_mut().insert(v, r.clone()));
    r
}

/// minimal primitive 2n-th root of unity modulo the PRIME q (None if 2n does not divide q-1)
fn ref_min_root(n: usize, q: u64) -> Option<u64> {
    if let Some(r) = ROOTS.with(|m| m.borrow().get(&(n, q)).cloned()) {
        return r;
    }
    let two_n = 2 * n as u64;
    let r = if q < 3 || (q - 1) % two_n != 0 {
        None
    } else if q < (1 << 20) {
        (1..q).find(|&x| pow_mod(x, n as u64, q) == q - 1)
    } else {
        let e = (q - 1) / two_n;
        let mut found = None;
        for x in 2..4096u64 {
            let g = pow_mod(x, e, q);
            if pow_mod(g, n as u64, q) == q - 1 {
                let g2 = mul_mod(g, g, q);
                let (mut cur, mut best) = (g, g);
                for _ in 0..n {
                    if cur < best {
                        best = cur;
                    }
                    cur = mul_mod(cur, g2, q);
                }
                found = Some(best);
                break;
            }
        }
        found
    };
    ROOTS.with(|m| m.borrow_mut().insert((n, q), r));
    r
}

/// does some x with x^n = -1 (mod q) exist?  Some(answer), or None when q is a large composite (not decided)
fn ref_has_root(n: usize, q: u64) -> Option<bool> {
    if q < 3 || n == 0 || (q - 1) % (2 * n as u64) != 0 {
        return Some(false);
    }
    if isp(q) {
        return Some(true);
    }
    if let Some(r) = HASROOT.with(|m| m.borrow().get(&(n, q)).cloned()) {
        return r;
    }
    let r = if q < (1 << 22) { Some((1..q).any(|x| pow_mod(x, n as u64, q) == q - 1)) } else { None };
    HASROOT.with(|m| m.borrow_mut().insert((n, q), r));
    r
}

/// HomomorphicEncryption.org standard, ternary secret, classical security: largest total bit count
fn std_max_bits(n: usize, sec: u16) -> usize {
    let col = match n {
        1024 => 0,
        2048 => 1,
        4096 => 2,
        8192 => 3,
        16384 => 4,
        32768 => 5,
        _ => return 0,
    };
    match sec {
        128 => [27, 54, 109, 218, 438, 881][col],
        192 => [19, 37, 75, 152, 305, 611][col],
        256 => [14, 29, 58, 118, 237, 476][col],
        _ => usize::MAX,
    }
}

fn sec_level(sec: u16) -> SecurityLevel {
    match sec {
        128 => SecurityLevel::Tc128,
        192 => SecurityLevel::Tc192,
        256 => SecurityLevel::Tc256,
        _ => SecurityLevel::None,
    }
}

// ---------------------------------------------------------------------------------------------
// the parameter tuple and the reference predicate
// ---------------------------------------------------------------------------------------------

#[derive(Serialize, Deserialize, Clone, Debug, PartialEq, Eq, Hash)]
pub struct P {
    /// 0 None, 1 BFV, 2 CKKS, 3 BGV
    pub scheme: u8,
    pub n: usize,
    pub q: Vec<u64>,
    pub t: u64,
}

impl P {
    fn label(&self) -> String {
        format!("scheme={} N={} q={:?} t={}", ["None", "BFV", "CKKS", "BGV"][self.scheme as usize & 3], self.n, self.q, self.t)
    }
}

#[derive(Clone, Copy, PartialEq, Eq, Debug, Hash)]
#[allow(clippy::enum_variant_names)]
enum Rung {
    Success,
    InvalidScheme,
    InvalidCoeffModulusSize,
    InvalidCoeffModulusBitCount,
    InvalidPolyModulusDegree,
    InvalidPolyModulusDegreeNonPowerOfTwo,
    InvalidParametersInsecure,
    FailedCreatingRNSBase,
    InvalidCoeffModulusNoNTT,
    InvalidPlainModulusBitCount,
    InvalidPlainModulusCoprimality,
    InvalidPlainModulusTooLarge,
    InvalidPlainModulusNonzero,
}

const RUNG_NAMES: [&str; 16] = [
    "Success",
    "InvalidScheme",
    "InvalidCoeffModulusSize",
    "InvalidCoeffModulusBitCount",
    "InvalidPolyModulusDegree",
    "InvalidPolyModulusDegreeNonPowerOfTwo",
    "InvalidParametersInsecure",
    "FailedCreatingRNSBase",
    "InvalidCoeffModulusNoNTT",
    "InvalidPlainModulusBitCount",
    "InvalidPlainModulusCoprimality",
    "InvalidPlainModulusTooLarge",
    "InvalidPlainModulusNonzero",
    "InvalidParametersTooLarge",
    "FailedCreatingRNSTool",
    "None",
];

struct RefVerdict {
    /// first failing rung assuming every modulus that admits a root gets one
    rung: Rung,
    /// some composite coefficient modulus admits a root (or is undecided): the subject may also stop at NoNTT
    gamble: bool,
}

/// The statement's preconditions, checked in the order of the documented ladder.
fn ref_validate(p: &P, sec: u16) -> RefVerdict {
    let v = |rung| RefVerdict { rung, gamble: false };
    if p.scheme == 0 || p.scheme > 3 {
        return v(Rung::InvalidScheme);
    }
    if p.q.is_empty() || p.q.len() > 64 {
        return v(Rung::InvalidCoeffModulusSize);
    }
    if p.q.iter().any(|&x| bits(x) < 2 || bits(x) > 60) {
        return v(Rung::InvalidCoeffModulusBitCount);
    }
    if p.n < 2 || p.n > 131072 {
        return v(Rung::InvalidPolyModulusDegree);
    }
    if !p.n.is_power_of_two() {
        return v(Rung::InvalidPolyModulusDegreeNonPowerOfTwo);
    }
    let total = BigU::product(&p.q);
    if sec != 0 && total.bits() > std_max_bits(p.n, sec) {
        return v(Rung::InvalidParametersInsecure);
    }
    for i in 0..p.q.len() {
        for j in 0..i {
            if gcd(p.q[i], p.q[j]) != 1 {
                return v(Rung::FailedCreatingRNSBase);
            }
        }
    }
    let mut gamble = false;
    for &x in &p.q {
        match ref_has_root(p.n, x) {
            Some(false) => return v(Rung::InvalidCoeffModulusNoNTT),
            Some(true) => {
                if !isp(x) {
                    gamble = true;
                }
            }
            None => gamble = true,
        }
    }
    let v = |rung| RefVerdict { rung, gamble };
    if p.scheme == 2 {
        if p.t != 0 {
            return v(Rung::InvalidPlainModulusNonzero);
        }
    } else {
        if bits(p.t) < 2 || bits(p.t) > 60 {
            return v(Rung::InvalidPlainModulusBitCount);
        }
        if p.q.iter().any(|&x| gcd(x, p.t) != 1) {
            return v(Rung::InvalidPlainModulusCoprimality);
        }
        if BigU::from_u64(p.t) >= total {
            return v(Rung::InvalidPlainModulusTooLarge);
        }
    }
    v(Rung::Success)
}

/// can the object be constructed through the builder at all (model of the documented refusals)?
fn ref_constructible(p: &P) -> bool {
    let ok = |v: u64| v != 1 && v >> 61 == 0;
    if !p.q.iter().all(|&v| ok(v)) || !ok(p.t) || p.q.len() > 64 {
        return false;
    }
    match p.scheme {
        0 => p.n == 0 && p.q.is_empty() && p.t == 0,
        2 => p.t == 0,
        _ => true,
    }
}

/// The object through the public builder; `order` varies the order of the setter calls. Err = refusal (panic text).
fn build_parms(p: &P, special: bool, order: u8) -> Result<EncryptionParameters, String> {
    let mut mods = Vec::with_capacity(p.q.len());
    for &v in &p.q {
        mods.push(modulus(v)?);
    }
    let t = modulus(p.t)?;
    let scheme = p.scheme;
    let n = p.n;
    guard(move || {
        let e = EncryptionParameters::new(SchemeType::from(scheme));
        let set_q = |e: EncryptionParameters| if mods.is_empty() { e } else { e.set_coeff_modulus(&mods) };
        let e = match order {
            0 => set_q(e.set_poly_modulus_degree(n)).set_plain_modulus(&t),
            1 => set_q(e.set_plain_modulus(&t)).set_poly_modulus_degree(n),
            _ => set_q(e).set_poly_modulus_degree(n).set_plain_modulus(&t),
        };
        if special {
            e.set_use_special_prime_for_encryption(true)
        } else {
            e
        }
    })
}

type Viol = (String, String, String);

fn viol(key: impl Into<String>, exp: impl Into<String>, obs: impl Into<String>) -> Viol {
    (key.into(), exp.into(), obs.into())
}

// ---------------------------------------------------------------------------------------------
// observing a context
// ---------------------------------------------------------------------------------------------

struct LevelObs {
    id: ParmsID,
    q: Vec<u64>,
    /// fingerprint of every observable constant of the level
    fp: u64,
    /// roots of the coefficient NTT tables
    roots: Vec<u64>,
    qual: u8,
}

struct CtxObs {
    set: bool,
    err: String,
    levels: Vec<LevelObs>,
    first_idx: usize,
}

fn op_ok(op: &hu::MultiplyU64ModOperand, q: u64) -> bool {
    op.operand < q && op.quotient == (((op.operand as u128) << 64) / q as u128) as u64
}

/// Constants of one accepted level against their definitions. Returns (fingerprint, roots, qualifier bits).
fn check_level(lp: &P, sec: u16, cd: &ContextData) -> Result<(u64, Vec<u64>, u8), Viol> {
    let sch = ["None", "BFV", "CKKS", "BGV"][lp.scheme as usize & 3];
    let k = lp.q.len();
    let n = lp.n;
    let ctx = || format!("{} level q={:?}", lp.label(), lp.q);
    macro_rules! want {
        ($name:expr, $obs:expr, $exp:expr) => {{
            let (o, e) = (&$obs, &$exp);
            if o != e {
                return Err(viol(format!("const:{}:{}:wrong", sch, $name), format!("{} = {:?} for {}", $name, e, ctx()), format!("{:?}", o)));
            }
        }};
    }
    let total = BigU::product(&lp.q);
    want!("total_coeff_modulus", cd.total_coeff_modulus().clone(), total.limbs(k));
    want!("total_coeff_modulus_bit_count", cd.total_coeff_modulus_bit_count(), total.bits());
    let qual = cd.qualifiers();
    // coefficient NTT tables
    let tabs = cd.small_ntt_tables();
    want!("small_ntt_tables.len", tabs.len(), k);
    let mut roots = vec![];
    let mut invs = vec![];
    for (i, tb) in tabs.iter().enumerate() {
        let qi = lp.q[i];
        want!("ntt.coeff_count", tb.coeff_count(), n);
        want!("ntt.coeff_count_power", 1usize << tb.coeff_count_power(), n);
        let r = tb.root();
        if r == 0 || r >= qi || pow_mod(r, n as u64, qi) != qi - 1 {
            return Err(viol(format!("const:{sch}:ntt.root:not-a-root"), format!("root^N = -1 mod {qi} for {}", ctx()), format!("root {r}")));
        }
        if isp(qi) {
            want!("ntt.root(minimal)", Some(r), ref_min_root(n, qi));
        }
        let inv = tb.inv_degree_modulo();
        if !op_ok(&inv, qi) || mul_mod(inv.operand, n as u64 % qi, qi) != 1 {
            return Err(viol(format!("const:{sch}:ntt.inv_degree:wrong"), format!("N^-1 mod {qi} for {}", ctx()), format!("{:?}", (inv.operand, inv.quotient))));
        }
        roots.push(r);
        invs.push(inv.operand);
    }
    // qualifiers
    let descending = lp.q.windows(2).all(|w| w[0] > w[1]);
    want!("qualifiers.using_fft", qual.using_fft, true);
    want!("qualifiers.using_ntt", qual.using_ntt, true);
    want!("qualifiers.using_descending_modulus_chain", qual.using_descending_modulus_chain, descending);
    want!("qualifiers.sec_level", qual.sec_level, sec_level(sec));
    let mut plain_root = 0u64;
    let cdpm: Vec<(u64, u64)> = cd.coeff_div_plain_modulus().iter().map(|o| (o.operand, o.quotient)).collect();
    if lp.scheme == 2 {
        want!("qualifiers.using_batching", qual.using_batching, true);
        want!("qualifiers.using_fast_plain_lift", qual.using_fast_plain_lift, false);
        want!("plain_upper_half_threshold", cd.plain_upper_half_threshold(), 1u64 << 63);
        let inc: Vec<u64> = lp.q.iter().map(|&qi| ((qi as u128 - ((1u128 << 64) % qi as u128)) % qi as u128) as u64).collect();
        want!("plain_upper_half_increment", cd.plain_upper_half_increment().clone(), inc);
        want!("upper_half_threshold", cd.upper_half_threshold().clone(), total.add(&BigU::one()).shr(1).limbs(k));
    } else {
        let t = lp.t;
        let fast = lp.q.iter().all(|&qi| qi > t);
        want!("qualifiers.using_fast_plain_lift", qual.using_fast_plain_lift, fast);
        let (quo, rem) = total.divrem(&BigU::from_u64(t));
        want!("coeff_div_plain_modulus.len", cdpm.len(), k);
        for i in 0..k {
            let e = quo.rem_u64(lp.q[i]);
            let eq = (((e as u128) << 64) / lp.q[i] as u128) as u64;
            want!("coeff_div_plain_modulus", cdpm[i], (e, eq));
        }
        want!("coeff_modulus_mod_plain_modulus", cd.coeff_modulus_mod_plain_modulus(), rem.to_u64().unwrap());
        want!("plain_upper_half_threshold", cd.plain_upper_half_threshold(), (t + 1) >> 1);
        let inc: Vec<u64> = if fast { lp.q.iter().map(|&qi| qi - t).collect() } else { total.sub(&BigU::from_u64(t)).limbs(k) };
        want!("plain_upper_half_increment", cd.plain_upper_half_increment().clone(), inc);
        // batching
        let t_prime = isp(t);
        match ref_has_root(n, t) {
            Some(false) => want!("qualifiers.using_batching", qual.using_batching, false),
            Some(true) if t_prime => want!("qualifiers.using_batching", qual.using_batching, true),
            _ => {} // composite plain modulus with a root: depends on the draws, not judged
        }
        if qual.using_batching {
            let tb = cd.plain_ntt_tables();
            want!("plain_ntt.coeff_count", tb.coeff_count(), n);
            let r = tb.root();
            if r == 0 || r >= t || pow_mod(r, n as u64, t) != t - 1 {
                return Err(viol(format!("const:{sch}:plain_ntt.root:not-a-root"), format!("root^N = -1 mod {t} for {}", ctx()), format!("root {r}")));
            }
            if t_prime {
                want!("plain_ntt.root(minimal)", Some(r), ref_min_root(n, t));
            }
            let inv = tb.inv_degree_modulo();
            if !op_ok(&inv, t) || mul_mod(inv.operand, n as u64 % t, t) != 1 {
                return Err(viol(format!("const:{sch}:plain_ntt.inv_degree:wrong"), format!("N^-1 mod {t}"), format!("{:?}", (inv.operand, inv.quotient))));
            }
            plain_root = r;
        }
    }
    let qb = (qual.using_fft as u8) | (qual.using_ntt as u8) << 1 | (qual.using_batching as u8) << 2 | (qual.using_fast_plain_lift as u8) << 3 | (qual.using_descending_modulus_chain as u8) << 4;
    let fp = h64(&(
        cd.parms_id(),
        cd.chain_index(),
        qb,
        qual.sec_level as u32,
        cd.total_coeff_modulus(),
        cd.total_coeff_modulus_bit_count(),
        (&roots, &invs, plain_root),
        &cdpm,
        cd.coeff_modulus_mod_plain_modulus(),
        cd.plain_upper_half_threshold(),
        cd.plain_upper_half_increment(),
        cd.upper_half_threshold(),
    ));
    Ok((fp, roots, qb))
}

fn exp_op(x: u64, q: u64) -> (u64, u64) {
    (x, (((x as u128) << 64) / q as u128) as u64)
}

fn op_pair(o: &hu::MultiplyU64ModOperand) -> (u64, u64) {
    (o.operand, o.quotient)
}

/// One RNS base of the level's RNS tool against its definition: the moduli, their product, the punctured products and the
/// inverses of the punctured products modulo the base elements (all recomputed with BigU).
fn check_rnsbase(sch: &str, what: &str, b: &hu::RNSBase, exp: &[u64], ctx: &dyn Fn() -> String) -> Result<(), Viol> {
    macro_rules! want {
        ($name:expr, $obs:expr, $exp:expr) => {{
            let (o, e) = (&$obs, &$exp);
            if o != e {
                return Err(viol(format!("const:{}:rns.{}.{}:wrong", sch, what, $name), format!("{}.{} = {:?} for {}", what, $name, e, ctx()), format!("{:?}", o)));
            }
        }};
    }
    let n = exp.len();
    let vals: Vec<u64> = b.base().iter().map(|m| m.value()).collect();
    want!("base", vals, exp.to_vec());
    want!("len", b.len(), n);
    want!("base_prod", b.base_prod().to_vec(), BigU::product(exp).limbs(n));
    want!("punctured_prod.len", b.punctured_prod().len(), n);
    want!("inv_punctured_prod_mod_base.len", b.inv_punctured_prod_mod_base().len(), n);
    for i in 0..n {
        let rest: Vec<u64> = exp.iter().enumerate().filter(|(j, _)| *j != i).map(|(_, &x)| x).collect();
        let pp = BigU::product(&rest);
        want!("punctured_prod", b.punctured_prod()[i].clone(), pp.limbs(n));
        let inv = inv_mod_u64(pp.rem_u64(exp[i]), exp[i]).ok_or_else(|| viol(format!("const:{sch}:rns.{what}.base:not-coprime"), format!("pairwise coprime moduli in {what} for {}", ctx()), format!("{exp:?}")))?;
        want!("inv_punctured_prod_mod_base", op_pair(&b.inv_punctured_prod_mod_base()[i]), exp_op(inv, exp[i]));
    }
    Ok(())
}

/// Two entries of a table's root-power arrays that tie the arrays to (root, modulus): the first non-trivial forward entry is
/// root^(N/2) (index 1 = bit-reversed N/2), the first non-trivial inverse entry is root^-1; entry 0 of both is 1. The complete
/// tables are C09's subject.
fn check_table_entries(sch: &str, what: &str, tb: &hu::NTTTables, n: usize, q: u64, ctx: &dyn Fn() -> String) -> Result<(), Viol> {
    let r = tb.root();
    let (rp, irp) = (tb.get_root_powers(), tb.get_inv_root_powers());
    if rp.len() != n || irp.len() != n {
        return Err(viol(format!("const:{sch}:{what}.root_powers.len:wrong"), format!("{n} root powers and {n} inverse root powers for {}", ctx()), format!("{} / {}", rp.len(), irp.len())));
    }
    let inv_r = inv_mod_u64(r % q, q).unwrap_or(0);
    let mut exp = vec![(0usize, false, 1u64), (0, true, 1)];
    if n >= 2 {
        exp.push((1, false, pow_mod(r, n as u64 / 2, q)));
        exp.push((1, true, inv_r));
    }
    for (i, inverse, e) in exp {
        let o = if inverse { &irp[i] } else { &rp[i] };
        if op_pair(o) != exp_op(e % q, q) {
            return Err(viol(
                format!("const:{sch}:{what}.{}root_powers:wrong", if inverse { "inv_" } else { "" }),
                format!("entry {i} of the {} powers of root {r} modulo {q} = {:?} for {}", if inverse { "inverse" } else { "forward" }, exp_op(e % q, q), ctx()),
                format!("{:?}", op_pair(o)),
            ));
        }
    }
    Ok(())
}

/// Constants of an accepted level that `check_level` leaves out: the RNS tool's bases (q, B, Bsk, Bsk + m_tilde, {t, gamma}) with
/// their products / punctured products / inverses, the tool's scalar constants, the NTT tables of the base Bsk, and two entries
/// of every table's root-power arrays. Everything is recomputed from the level's moduli with BigU. Returns a fingerprint of
/// what was observed (auxiliary primes included) for the comparison of independently built contexts.
fn check_level_ext(lp: &P, cd: &ContextData) -> Result<u64, Viol> {
    let sch = ["None", "BFV", "CKKS", "BGV"][lp.scheme as usize & 3];
    let (k, n, t) = (lp.q.len(), lp.n, lp.t);
    let ctx = || lp.label();
    macro_rules! want {
        ($name:expr, $obs:expr, $exp:expr) => {{
            let (o, e) = (&$obs, &$exp);
            if o != e {
                return Err(viol(format!("const:{}:{}:wrong", sch, $name), format!("{} = {:?} for {}", $name, e, ctx()), format!("{:?}", o)));
            }
        }};
    }
    // tables of the coefficient moduli / the plain modulus: tied to their modulus
    for (i, tb) in cd.small_ntt_tables().iter().enumerate() {
        check_table_entries(sch, "ntt", tb, n, lp.q[i], &ctx)?;
    }
    if lp.scheme != 2 && cd.qualifiers().using_batching {
        check_table_entries(sch, "plain_ntt", cd.plain_ntt_tables(), n, t, &ctx)?;
    }
    // (an accepted level always has a tool; a missing one panics and is reported by the caller as observe:panic)
    let tool: &hu::RNSTool = cd.verif_rns_tool();
    let total = BigU::product(&lp.q);
    // --- the bases
    check_rnsbase(sch, "base_q", tool.base_q(), &lp.q, &ctx)?;
    let bsk: Vec<u64> = tool.base_Bsk().base().iter().map(|m| m.value()).collect();
    let b: Vec<u64> = tool.base_B().base().iter().map(|m| m.value()).collect();
    if b.len() != k && b.len() != k + 1 {
        return Err(viol(format!("const:{sch}:rns.base_B.len:wrong"), format!("{k} or {} auxiliary moduli for {}", k + 1, ctx()), format!("{}", b.len())));
    }
    want!("rns.base_Bsk.len", bsk.len(), b.len() + 1);
    let m_sk = *bsk.last().unwrap();
    want!("rns.base_Bsk(= B + m_sk)", bsk[..b.len()].to_vec(), b);
    let two_n = 2 * n as u64;
    let gamma = match tool.base_t_gamma() {
        Some(tg) => {
            if lp.scheme == 2 {
                return Err(viol(format!("const:{sch}:rns.base_t_gamma:present"), format!("no base {{t, gamma}} without a plain modulus, {}", ctx()), "Some"));
            }
            let v: Vec<u64> = tg.base().iter().map(|m| m.value()).collect();
            if v.len() != 2 || v[0] != t {
                return Err(viol(format!("const:{sch}:rns.base_t_gamma.base:wrong"), format!("[t, gamma] for {}", ctx()), format!("{v:?}")));
            }
            check_rnsbase(sch, "base_t_gamma", tg, &v, &ctx)?;
            Some(v[1])
        }
        None => {
            if lp.scheme != 2 {
                return Err(viol(format!("const:{sch}:rns.base_t_gamma:missing"), format!("a base {{t, gamma}} for {}", ctx()), "None"));
            }
            None
        }
    };
    // auxiliary moduli: distinct 61-bit primes = 1 mod 2N (so coprime to every coefficient modulus, NTT-friendly); gamma coprime to t
    let mut aux = bsk.clone();
    aux.extend(gamma);
    for (i, &x) in aux.iter().enumerate() {
        let ok = bits(x) == 61 && x % two_n == 1 && isp(x) && !aux[..i].contains(&x) && !lp.q.contains(&x) && (lp.scheme == 2 || gcd(x, t) == 1);
        if !ok {
            return Err(viol(format!("const:{sch}:rns.aux-moduli:inadmissible"), format!("B, m_sk, gamma: distinct 61-bit primes = 1 mod {two_n}, coprime to q and t, for {}", ctx()), format!("B + m_sk {bsk:?} gamma {gamma:?}")));
        }
    }
    check_rnsbase(sch, "base_B", tool.base_B(), &b, &ctx)?;
    check_rnsbase(sch, "base_Bsk", tool.base_Bsk(), &bsk, &ctx)?;
    let mut bsk_mt = bsk.clone();
    bsk_mt.push(1u64 << 32);
    check_rnsbase(sch, "base_Bsk_m_tilde", tool.base_Bsk_m_tilde(), &bsk_mt, &ctx)?;
    // size of B: 2^32 * t * q < prod(B) * m_sk (the bound the BFV multiplication is built on; t counts as 1 when there is none)
    let prod_b = BigU::product(&b);
    let need = total.mul_u64(t.max(1)).shl(32);
    if need >= prod_b.mul_u64(m_sk) {
        return Err(viol(format!("const:{sch}:rns.base_B:too-small"), format!("2^32 * t * q < prod(B) * m_sk for {}", ctx()), format!("B {b:?} m_sk {m_sk}")));
    }
    // --- tables of the base Bsk
    let tabs = tool.base_Bsk_ntt_tables();
    want!("rns.base_Bsk_ntt_tables.len", tabs.len(), bsk.len());
    for (i, tb) in tabs.iter().enumerate() {
        let m = bsk[i];
        want!("rns.bsk_ntt.coeff_count", tb.coeff_count(), n);
        want!("rns.bsk_ntt.root(minimal)", Some(tb.root()), ref_min_root(n, m));
        let inv = tb.inv_degree_modulo();
        want!("rns.bsk_ntt.inv_degree", op_pair(&inv), exp_op(inv_mod_u64(n as u64 % m, m).unwrap_or(0), m));
        check_table_entries(sch, "rns.bsk_ntt", tb, n, m, &ctx)?;
    }
    // --- scalar constants
    let inv = |x: u64, m: u64| inv_mod_u64(x % m, m).unwrap_or(0);
    let e: Vec<u64> = lp.q.iter().map(|&qi| prod_b.rem_u64(qi)).collect();
    want!("rns.prod_B_mod_q", tool.prod_B_mod_q().clone(), e);
    let e: Vec<(u64, u64)> = bsk.iter().map(|&m| exp_op(inv(total.rem_u64(m), m), m)).collect();
    want!("rns.inv_prod_q_mod_Bsk", tool.inv_prod_q_mod_Bsk().iter().map(op_pair).collect::<Vec<_>>(), e);
    let mt = 1u64 << 32;
    let qi = inv(total.rem_u64(mt), mt);
    want!("rns.neg_inv_prod_q_mod_m_tilde", op_pair(tool.neg_inv_prod_q_mod_m_tilde()), exp_op((mt - qi) % mt, mt));
    want!("rns.inv_prod_B_mod_m_sk", op_pair(tool.inv_prod_B_mod_m_sk()), exp_op(inv(prod_b.rem_u64(m_sk), m_sk), m_sk));
    let q_last = lp.q[k - 1];
    let e: Vec<(u64, u64)> = lp.q[..k - 1].iter().map(|&qi| exp_op(inv(q_last, qi), qi)).collect();
    want!("rns.inv_q_last_mod_q", tool.inv_q_last_mod_q().iter().map(op_pair).collect::<Vec<_>>(), e);
    if lp.scheme == 2 {
        want!("rns.inv_gamma_mod_t", tool.inv_gamma_mod_t().as_ref().map(op_pair), None::<(u64, u64)>);
    } else {
        let g = gamma.unwrap();
        want!("rns.inv_gamma_mod_t", tool.inv_gamma_mod_t().as_ref().map(op_pair), Some(exp_op(inv(g, t), t)));
        want!("rns.inv_q_last_mod_t", tool.inv_q_last_mod_t(), inv(q_last, t));
    }
    Ok(h64(&(&bsk, gamma)))
}

/// Walks the chain from the key level and checks its structure (valid for every input, accepted or not).
fn observe_ctx(p: &P, sec: u16, special: bool, ctx: &HeContext) -> Result<CtxObs, Viol> {
    let s = |x: &str| x.to_string();
    let key = ctx.key_context_data().ok_or_else(|| viol("chain:no-key-level", "key_context_data() is Some", "None"))?;
    let first = ctx.first_context_data().ok_or_else(|| viol("chain:no-first-level", "first_context_data() is Some", "None"))?;
    let last = ctx.last_context_data().ok_or_else(|| viol("chain:no-last-level", "last_context_data() is Some", "None"))?;
    let set = ctx.parameters_set();
    let err = format!("{:?}", first.qualifiers().parameter_error);
    want_eq("chain:parameters_set-vs-error", set, err == "Success", p)?;
    if key.prev_context_data().is_some() {
        return Err(viol("chain:key-has-prev", "key level has no predecessor", p.label()));
    }
    // walk
    let mut cds = vec![key.clone()];
    while let Some(nx) = cds.last().unwrap().next_context_data() {
        if cds.len() > 70 {
            return Err(viol("chain:cycle", "a finite chain", p.label()));
        }
        cds.push(nx);
    }
    let count = cds.len();
    let mut levels = vec![];
    let mut first_idx = usize::MAX;
    for (i, cd) in cds.iter().enumerate() {
        let exp_q: Vec<u64> = p.q[..p.q.len().saturating_sub(i)].to_vec();
        let lq: Vec<u64> = cd.parms().coeff_modulus().iter().map(|m| m.value()).collect();
        if lq != exp_q || cd.parms().poly_modulus_degree() != p.n || cd.parms().plain_modulus().value() != p.t || u8::from(cd.parms().scheme()) != p.scheme {
            return Err(viol(
                "chain:level-not-prefix",
                format!("level {i} of {} = the first {} moduli, same scheme/degree/plain modulus", p.label(), exp_q.len()),
                format!("q={lq:?} N={} t={}", cd.parms().poly_modulus_degree(), cd.parms().plain_modulus().value()),
            ));
        }
        want_eq("chain:index", cd.chain_index(), count - 1 - i, p)?;
        let lp = P { scheme: p.scheme, n: p.n, q: lq.clone(), t: p.t };
        let indep = build_parms(&lp, false, 2).map_err(|e| viol("ids:level-not-constructible", format!("level parameters {} constructible", lp.label()), e))?;
        if cd.parms_id() != indep.parms_id() || cd.parms().parms_id() != cd.parms_id() {
            return Err(viol("ids:level-id-differs", format!("id of independently built {} = {:x?}", lp.label(), indep.parms_id()), format!("{:x?}", cd.parms_id())));
        }
        match ctx.get_context_data(cd.parms_id()) {
            Some(g) if Arc::ptr_eq(&g, cd) => {}
            _ => return Err(viol("chain:map-lookup", format!("get_context_data(id of level {i}) is that level"), p.label())),
        }
        if i > 0 {
            match cd.prev_context_data() {
                Some(pv) if Arc::ptr_eq(&pv, &cds[i - 1]) => {}
                _ => return Err(viol("chain:prev-link", format!("prev of level {i} is level {}", i - 1), p.label())),
            }
        }
        if Arc::ptr_eq(cd, &first) {
            first_idx = i;
        }
        let lset = cd.qualifiers().parameters_set();
        if set != lset {
            return Err(viol("chain:level-set-flag", format!("every level of the chain has parameters_set() == {set}"), format!("level {i} of {}: {lset}", p.label())));
        }
        let (fp, roots, qual) = if lset {
            // set => the statement's preconditions hold at this level (judged for ALL inputs)
            let rv = ref_validate(&lp, sec);
            if rv.rung != Rung::Success {
                return Err(viol(
                    format!("sound:accepted-but:{:?}", rv.rung),
                    format!("parameters_set() only if every level satisfies the preconditions; level {i} {} sec={sec} fails {:?}", lp.label(), rv.rung),
                    s("parameters_set() = true"),
                ));
            }
            let (fp, roots, qual) = check_level(&lp, sec, cd)?;
            if EXT.with(|e| e.get()) {
                (h64(&(fp, check_level_ext(&lp, cd)?)), roots, qual)
            } else {
                (fp, roots, qual)
            }
        } else {
            (h64(&(cd.parms_id(), &err)), vec![], 0)
        };
        levels.push(LevelObs { id: *cd.parms_id(), q: lq, fp, roots, qual });
    }
    if first_idx == usize::MAX || first_idx > 1 {
        return Err(viol("chain:first-level", "first level is the key level or its successor", format!("index {first_idx} for {}", p.label())));
    }
    if !Arc::ptr_eq(&last, cds.last().unwrap()) {
        return Err(viol("chain:last-level", "last_context_data() is the end of the list", p.label()));
    }
    if EXT.with(|e| e.get()) {
        for i in 0..levels.len() {
            for j in 0..i {
                if levels[i].id == levels[j].id {
                    return Err(viol("ids:collision-in-chain", format!("levels {j} and {i} of {} ({} and {} moduli) have different ids", p.label(), levels[j].q.len(), levels[i].q.len()), format!("both {:x?}", levels[i].id)));
                }
            }
        }
    }
    want_eq("chain:key-id", *ctx.key_parms_id(), levels[0].id, p)?;
    want_eq("chain:first-id", *ctx.first_parms_id(), levels[first_idx].id, p)?;
    want_eq("chain:last-id", *ctx.last_parms_id(), levels[count - 1].id, p)?;
    want_eq("chain:using_keyswitching", ctx.using_keyswitching(), first_idx == 1, p)?;
    want_eq("chain:security_level", ctx.security_level(), sec_level(sec), p)?;
    if special && first_idx != 0 {
        return Err(viol("chain:special-prime-flag", "with use_special_prime_for_encryption the first data level is the key level", p.label()));
    }
    if !set && count != 1 {
        return Err(viol("chain:rejected-has-chain", "a rejected parameter set has the key level only", format!("{count} levels for {}", p.label())));
    }
    Ok(CtxObs { set, err, levels, first_idx })
}

fn want_eq<T: PartialEq + std::fmt::Debug>(key: &str, obs: T, exp: T, p: &P) -> Result<(), Viol> {
    if obs != exp {
        return Err(viol(format!("{key}:wrong"), format!("{exp:?} for {}", p.label()), format!("{obs:?}")));
    }
    Ok(())
}

/// expected chain (list lengths per level, index of the first data level) when every modulus is prime
fn ref_chain(p: &P, sec: u16, expand: bool, special: bool) -> (Vec<usize>, usize) {
    let k = p.q.len();
    let ok = |len: usize| ref_validate(&P { scheme: p.scheme, n: p.n, q: p.q[..len].to_vec(), t: p.t }, sec).rung == Rung::Success;
    let mut lens = vec![k];
    let mut first_idx = 0;
    if ok(k) {
        if k > 1 && !special && ok(k - 1) {
            lens.push(k - 1);
            first_idx = 1;
        }
        if expand {
            let mut cur = *lens.last().unwrap();
            while cur > 1 && ok(cur - 1) {
                cur -= 1;
                lens.push(cur);
            }
        }
    }
    (lens, first_idx)
}

// ---------------------------------------------------------------------------------------------
// statistics reported as observations
// ---------------------------------------------------------------------------------------------

#[derive(Default)]
struct Stats {
    items: AtomicU64,
    refusals: AtomicU64,
    builds: AtomicU64,
    accepted: AtomicU64,
    levels: AtomicU64,
    by_rung: [AtomicU64; 16],
    gamble_items: AtomicU64,
    gamble_accepted: AtomicU64,
    gamble_nontt: AtomicU64,
    gamble_ab_differ: AtomicU64,
    batching_gamble: AtomicU64,
    exhausted: AtomicU64,
    max_draws: AtomicU64,
}

impl Stats {
    fn note(&self, rep: &Report, section: &str) {
        let g = |a: &AtomicU64| a.load(Ordering::Relaxed);
        let rungs: Vec<String> = RUNG_NAMES.iter().enumerate().filter(|(i, _)| g(&self.by_rung[*i]) > 0).map(|(i, n)| format!("{n}={}", g(&self.by_rung[i]))).collect();
        rep.observe(format!(
            "{section}: inner items={} builder refusals={} HeContext::new calls={} accepted={} levels compared={} reported errors: {} (counts include the engine's determinism self-test re-runs)",
            g(&self.items), g(&self.refusals), g(&self.builds), g(&self.accepted), g(&self.levels), rungs.join(" ")
        ));
        rep.observe(format!(
            "{section}: composite coefficient moduli admitting a 2N-th root: items={} accepted={} stopped at NoNTT={} two builds with different draws disagreed (acceptance, chain length or roots)={} — not judged (scope decision); scripted draws exhausted in {} builds; most draws used by one build={}",
            g(&self.gamble_items), g(&self.gamble_accepted), g(&self.gamble_nontt), g(&self.gamble_ab_differ), g(&self.exhausted), g(&self.max_draws)
        ));
    }
}

fn rung_index(name: &str) -> usize {
    RUNG_NAMES.iter().position(|n| *n == name).unwrap_or(15)
}

/// scripted draws for the builds of one case
struct Scripts {
    seed: u64,
    tag: u64,
    ctr: u64,
    len: usize,
    installed: bool,
}

impl Scripts {
    fn new(seed: u64, tag: u64, len: usize) -> Self {
        Scripts { seed, tag, ctr: 0, len, installed: false }
    }
    /// an untouched script is in place afterwards
    fn fresh(&mut self) {
        if self.installed && !CLOBBER.with(|c| c.get()) && nt_draw_log().is_empty() {
            return;
        }
        CLOBBER.with(|c| c.set(false));
        self.ctr += 1;
        set_nt_draws(Some(stream(self.seed, self.tag, self.ctr, self.len)));
        self.installed = true;
    }
    fn used(&self) -> usize {
        nt_draw_log().len()
    }
}

// ---------------------------------------------------------------------------------------------
// validate sections
// ---------------------------------------------------------------------------------------------

#[derive(Serialize, Deserialize, Clone, Debug)]
pub struct VCase {
    pub scheme: u8,
    pub n: usize,
    pub q: Vec<u64>,
    /// plain moduli looped over inside the case
    pub ts: Vec<u64>,
    /// security levels (0 = None) looped over inside the case
    pub secs: Vec<u16>,
    /// (expand_mod_chain, use_special_prime_for_encryption) looped over inside the case
    pub flags: Vec<(bool, bool)>,
    /// length of the draw script per build
    #[serde(default)]
    pub script: usize,
}

const ALL_FLAGS: [(bool, bool); 4] = [(false, false), (true, false), (false, true), (true, true)];

struct ItemOut {
    class: u64,
    steps: u64,
    accepted: bool,
    constructible: bool,
}

fn eval_item(p: &P, sec: u16, expand: bool, special: bool, scripts: &mut Scripts, st: &Stats) -> Result<ItemOut, Viol> {
    st.items.fetch_add(1, Ordering::Relaxed);
    let item = || format!("{} sec={sec} expand={expand} special={special}", p.label());
    // --- builder
    let pa = build_parms(p, special, 0);
    let pb = build_parms(p, special, 1);
    let constructible = ref_constructible(p);
    let (pa, pb) = match (pa, pb) {
        (Ok(a), Ok(b)) => (a, b),
        (Err(e), Err(_)) => {
            if constructible {
                return Err(viol(format!("builder:unexpected-refusal:{}", panic_class(&e)), format!("{} is constructible (documented refusals: scheme None with any field, Modulus 1 or > 61 bits, > 64 moduli, plain modulus on CKKS)", item()), e));
            }
            st.refusals.fetch_add(1, Ordering::Relaxed);
            return Ok(ItemOut { class: h64(&("refusal", panic_class(&e))), steps: 0, accepted: false, constructible: false });
        }
        (a, b) => {
            return Err(viol("builder:order-dependent", format!("the same refusal / object for every order of the setter calls, {}", item()), format!("degree-coeff-plain: {:?} / plain-coeff-degree: {:?}", a.err(), b.err())));
        }
    };
    if !constructible {
        return Err(viol("builder:accepted-undocumented", format!("builder refuses {}", item()), "object constructed"));
    }
    if pa.parms_id() != pb.parms_id() || pa.clone().parms_id() != pa.parms_id() {
        return Err(viol("ids:equal-objects-differ", format!("equal parameter objects have equal ids, {}", item()), format!("{:x?} vs {:x?}", pa.parms_id(), pb.parms_id())));
    }
    if *pa.parms_id() == heathcliff::PARMS_ID_ZERO {
        return Err(viol("ids:zero", "a non-zero id", item()));
    }
    // --- build A
    let slevel = sec_level(sec);
    scripts.fresh();
    let ctx_a = guard(|| HeContext::new(pa.clone(), expand, slevel)).map_err(|e| viol(format!("validate:panic:{}", panic_class(&e)), format!("HeContext::new reports an error without panicking, {}", item()), e))?;
    let used_a = scripts.used();
    st.builds.fetch_add(1, Ordering::Relaxed);
    st.max_draws.fetch_max(used_a as u64, Ordering::Relaxed);
    if used_a > scripts.len {
        st.exhausted.fetch_add(1, Ordering::Relaxed);
    }
    let oa = guard(|| observe_ctx(p, sec, special, &ctx_a)).map_err(|e| viol(format!("observe:panic:{}", panic_class(&e)), format!("accessors of the context do not panic, {}", item()), e))??;
    drop(ctx_a); // large degrees: do not keep two chains alive
    let mut steps = 1 + oa.levels.len() as u64;
    st.by_rung[rung_index(&oa.err)].fetch_add(1, Ordering::Relaxed);
    // --- reported error vs. the ladder
    let rv = ref_validate(p, sec);
    let exp_name = format!("{:?}", rv.rung);
    if rv.gamble {
        st.gamble_items.fetch_add(1, Ordering::Relaxed);
        if oa.set {
            st.gamble_accepted.fetch_add(1, Ordering::Relaxed);
        } else if oa.err == "InvalidCoeffModulusNoNTT" {
            st.gamble_nontt.fetch_add(1, Ordering::Relaxed);
        }
    }
    if oa.err != exp_name && !(rv.gamble && oa.err == "InvalidCoeffModulusNoNTT") {
        let key = if oa.set { format!("sound:accepted-but:{exp_name}") } else if rv.rung == Rung::Success { format!("ladder:rejected-valid:{}", oa.err) } else { format!("ladder:wrong-rung:{}-instead-of-{exp_name}", oa.err) };
        return Err(viol(key, format!("{exp_name} (first failing rung) for {}", item()), oa.err.clone()));
    }
    if !oa.set && (oa.err == "Success" || oa.err == "None") {
        return Err(viol("ladder:no-specific-error", format!("a specific error for rejected {}", item()), oa.err.clone()));
    }
    // --- chain
    if oa.set {
        st.accepted.fetch_add(1, Ordering::Relaxed);
        st.levels.fetch_add(oa.levels.len() as u64, Ordering::Relaxed);
        let (lens, first_idx) = ref_chain(p, sec, expand, special);
        let obs_lens: Vec<usize> = oa.levels.iter().map(|l| l.q.len()).collect();
        if !rv.gamble {
            if obs_lens != lens || oa.first_idx != first_idx {
                return Err(viol("chain:wrong-levels", format!("levels with {lens:?} moduli, first data level at position {first_idx}, for {}", item()), format!("{obs_lens:?}, first at {}", oa.first_idx)));
            }
        } else if obs_lens.len() > lens.len() || obs_lens[..] != lens[..obs_lens.len()] {
            return Err(viol("chain:wrong-levels", format!("an initial part of {lens:?} for {}", item()), format!("{obs_lens:?}")));
        }
        if !expand && oa.levels.len() > 2 {
            return Err(viol("chain:expanded-without-flag", "at most key + first level without expand_mod_chain", format!("{obs_lens:?}")));
        }
    }
    // --- build B (independent object, other setter order, other draws) when A consumed any randomness
    if used_a > 0 {
        scripts.fresh();
        let ctx_b = guard(|| HeContext::new(pb.clone(), expand, slevel)).map_err(|e| viol(format!("validate:panic:{}", panic_class(&e)), format!("HeContext::new reports an error without panicking, {}", item()), e))?;
        st.builds.fetch_add(1, Ordering::Relaxed);
        if scripts.used() > scripts.len {
            st.exhausted.fetch_add(1, Ordering::Relaxed);
        }
        let ob = guard(|| observe_ctx(p, sec, special, &ctx_b)).map_err(|e| viol(format!("observe:panic:{}", panic_class(&e)), format!("accessors of the context do not panic, {}", item()), e))??;
        steps += 1 + ob.levels.len() as u64;
        let same = oa.set == ob.set && oa.err == ob.err && oa.first_idx == ob.first_idx && oa.levels.len() == ob.levels.len() && oa.levels.iter().zip(&ob.levels).all(|(a, b)| a.id == b.id && a.fp == b.fp);
        if !same {
            let composite_t = p.scheme != 2 && p.t > 3 && !is_prime_u64(p.t) && ref_has_root(p.n, p.t) != Some(false);
            if rv.gamble || composite_t {
                st.gamble_ab_differ.fetch_add(1, Ordering::Relaxed);
            } else {
                let d = |o: &CtxObs| format!("set={} err={} first={} levels={:?}", o.set, o.err, o.first_idx, o.levels.iter().map(|l| (l.q.len(), l.id[0], l.fp, l.roots.clone(), l.qual)).collect::<Vec<_>>());
                return Err(viol("repro:independent-builds-differ", format!("two independently built contexts agree on acceptance, every level's id and constants, {}; first: {}", item(), d(&oa)), d(&ob)));
            }
        }
    }
    let class = h64(&(oa.err.as_str(), oa.levels.len(), oa.first_idx, oa.levels.first().map(|l| l.qual), rv.gamble));
    Ok(ItemOut { class, steps, accepted: oa.set, constructible: true })
}

fn check_validate(c: &VCase, seed: u64, st: &Stats) -> CaseOut {
    let tag = h64(&(c.scheme, c.n, &c.q, &c.ts, &c.secs, &c.flags));
    let mut scripts = Scripts::new(seed, tag, if c.script == 0 { 4096 } else { c.script });
    // moduli first (their constructor consumes draws of its own script)
    for &v in c.q.iter().chain(c.ts.iter()) {
        let _ = modulus(v);
    }
    let sname = ["None", "BFV", "CKKS", "BGV"][c.scheme as usize & 3];
    let mut classes: Vec<u64> = vec![];
    let (mut steps, mut accepted, mut constructible) = (0u64, 0u64, 0u64);
    let mut out = None;
    'outer: for &t in &c.ts {
        let p = P { scheme: c.scheme, n: c.n, q: c.q.clone(), t };
        for &sec in &c.secs {
            for &(expand, special) in &c.flags {
                match eval_item(&p, sec, expand, special, &mut scripts, st) {
                    Ok(o) => {
                        steps += o.steps;
                        accepted += o.accepted as u64;
                        constructible += o.constructible as u64;
                        if !classes.contains(&o.class) {
                            classes.push(o.class);
                        }
                    }
                    Err((key, exp, obs)) => {
                        out = Some(CaseOut::fail(format!("{sname}:{key}"), exp, obs));
                        break 'outer;
                    }
                }
            }
        }
    }
    set_nt_draws(None);
    if let Some(o) = out {
        return o;
    }
    classes.sort_unstable();
    if constructible == 0 {
        return CaseOut { nontrivial: false, outcome: h64(&classes), steps: 0, verdict: Verdict::Skip("every inner item is refused by the builder".into()) };
    }
    CaseOut::pass(accepted > 0, h64(&classes), steps)
}

/// An E1 section followed by a note in the evidence's observations.
struct Noted<C> {
    inner: Box<E1<C>>,
    note: Box<dyn Fn(&Report) + Send>,
}

impl<C: Serialize + serde::de::DeserializeOwned + Clone + Send + 'static> AnySection for Noted<C> {
    fn name(&self) -> String {
        self.inner.name()
    }
    fn replay(&self, case: &Value) -> Result<CaseOut, String> {
        self.inner.replay(case)
    }
    fn run(self: Box<Self>, rep: &Arc<Report>) {
        let Noted { inner, note } = *self;
        (inner as Box<dyn AnySection>).run(rep);
        note(rep);
    }
}

// ---------------------------------------------------------------------------------------------
// alphabets
// ---------------------------------------------------------------------------------------------

pub struct Alpha {
    pub v: Vec<u64>,
    pub vx: Vec<u64>,
    pub t: Vec<u64>,
    pub degrees: Vec<usize>,
    pub max_len: usize,
    /// alphabet of the longest lists (thorough: length 4)
    pub v_long: Vec<u64>,
    pub max_len_long: usize,
}

fn alpha(cfg: &RunCfg) -> Alpha {
    let p60 = primes_1_mod(1 << 19, 60, 2);
    let p61 = primes_1_mod(1 << 18, 61, 1);
    let v = vec![2, 3, 4, 5, 13, 16, 17, 29, 41, 97, 113, 193, 257, 7681, 65537, p60[0], p61[0], 17 * 97];
    let vx = vec![0, 1, 1u64 << 61];
    let t = vec![0, 2, 3, 16, 17, 18, 34, 41, 49, 73, 257, p60[1], p61[0]];
    let degrees = vec![0, 1, 2, 3, 4, 6, 8, 16, 1 << 17, 1 << 18];
    let v_long = vec![3, 17, 41, 97, 257, 7681, p60[0], 17 * 97];
    Alpha { v, vx, t, degrees, max_len: if cfg.thorough() { 3 } else { 2 }, v_long, max_len_long: if cfg.thorough() { 4 } else { 3 } }
}

/// all lists over `alpha` of exactly `len` entries (duplicates included), lexicographic by index
fn lists_of(alpha: &[u64], len: usize) -> impl Iterator<Item = Vec<u64>> + Send + 'static {
    let a = alpha.to_vec();
    let total = (a.len() as u64).pow(len as u32);
    (0..total).map(move |mut i| {
        let mut l = vec![0u64; len];
        for k in (0..len).rev() {
            l[k] = a[(i % a.len() as u64) as usize];
            i /= a.len() as u64;
        }
        l
    })
}

/// the coefficient lists of the small universe, simplest first
fn small_lists(al: &Alpha) -> impl Iterator<Item = Vec<u64>> + Send + 'static {
    let v = al.v.clone();
    let vx = al.vx.clone();
    let mut ext: Vec<Vec<u64>> = vx.iter().map(|&x| vec![x]).collect();
    let all: Vec<u64> = v.iter().chain(vx.iter()).cloned().collect();
    for &x in &vx {
        for &y in &all {
            ext.push(vec![x, y]);
            if !vx.contains(&y) {
                ext.push(vec![y, x]);
            }
        }
    }
    let max_len = al.max_len;
    let long: Vec<Vec<u64>> = if al.max_len_long > al.max_len { vec![al.v_long.clone()] } else { vec![] };
    let (ll, v2) = (al.max_len_long, v.clone());
    (0..=max_len)
        .flat_map(move |len| lists_of(&v2, len))
        .chain(ext)
        .chain(long.into_iter().flat_map(move |a| lists_of(&a, ll)))
}

fn small_cases(al: &Alpha) -> impl Iterator<Item = VCase> + Send + 'static {
    let (ts, degrees) = (al.t.clone(), al.degrees.clone());
    let secs = vec![0u16, 128, 192, 256];
    // scheme None: everything but the empty object is a refusal of the builder
    let mut none_cases = vec![];
    for &n in &[0usize, 2, 4] {
        for q in [vec![], vec![17u64]] {
            none_cases.push(VCase { scheme: 0, n, q, ts: vec![0, 2, 17], secs: vec![0, 128], flags: ALL_FLAGS.to_vec(), script: 0 });
        }
    }
    let it = small_lists(al).flat_map(move |q| {
        let (ts, degrees, secs) = (ts.clone(), degrees.clone(), secs.clone());
        let mut out = vec![];
        for &n in &degrees {
            for scheme in [1u8, 3, 2] {
                // CKKS: any non-zero plain modulus is the same refusal of the builder; two of them are enough
                let ts: Vec<u64> = if scheme == 2 { ts.iter().cloned().filter(|&t| t == 0 || t == 2 || t == 17).collect() } else { ts.clone() };
                let heavy = n >= 1024 && q.iter().all(|&x| x > 1 && (x - 1) % (2 * n as u64) == 0) && !q.is_empty();
                if heavy {
                    for &t in &ts {
                        out.push(VCase { scheme, n, q: q.clone(), ts: vec![t], secs: secs.clone(), flags: ALL_FLAGS.to_vec(), script: 0 });
                    }
                } else {
                    out.push(VCase { scheme, n, q: q.clone(), ts: ts.clone(), secs: secs.clone(), flags: ALL_FLAGS.to_vec(), script: 0 });
                }
            }
        }
        out
    });
    none_cases.into_iter().chain(it)
}

const STD_DEGREES: [usize; 6] = [1024, 2048, 4096, 8192, 16384, 32768];

/// (degree the list was made for, level, variant, list)
fn std_lists(cfg: &RunCfg) -> Vec<(usize, u16, &'static str, Vec<u64>)> {
    let mut out = vec![];
    let top = if cfg.thorough() { 32768 } else { 8192 };
    for &n in STD_DEGREES.iter().filter(|&&n| n <= top) {
        for sec in [128u16, 192, 256] {
            let Ok(l) = guard(|| CoeffModulus::bfv_default(n, sec_level(sec))) else { continue };
            let l: Vec<u64> = l.iter().map(|m| m.value()).collect();
            out.push((n, sec, "default", l.clone()));
            // one bit more than the standard allows: last modulus replaced by a prime one bit longer
            let mut b = l.clone();
            let last = *b.last().unwrap();
            if bits(last) < 60 {
                if let Some(&pr) = primes_1_mod(2 * n as u64, bits(last) + 1, 1).first() {
                    *b.last_mut().unwrap() = pr;
                    out.push((n, sec, "plus-one-bit", b));
                }
            }
        }
    }
    out
}

fn std_cases(cfg: &RunCfg) -> Vec<VCase> {
    let mut out = vec![];
    for (n, _sec, _variant, l) in std_lists(cfg) {
        for nn in [n, n / 2, 2 * n] {
            for scheme in [1u8, 3, 2] {
                let ts: Vec<u64> = if scheme == 2 { vec![0] } else { vec![0, 2, 65537] };
                for &t in &ts {
                    if nn >= 16384 {
                        for sec in [0u16, 128, 192, 256] {
                            for f in ALL_FLAGS {
                                out.push(VCase { scheme, n: nn, q: l.clone(), ts: vec![t], secs: vec![sec], flags: vec![f], script: 1 << 15 });
                            }
                        }
                    } else {
                        out.push(VCase { scheme, n: nn, q: l.clone(), ts: vec![t], secs: vec![0, 128, 192, 256], flags: ALL_FLAGS.to_vec(), script: 1 << 14 });
                    }
                }
            }
        }
    }
    deal(out)
}

/// Spreads expensive cases over the engine's batches of 16 consecutive cases (round-robin deal of the cost-sorted list).
fn deal(mut v: Vec<VCase>) -> Vec<VCase> {
    let cost = |c: &VCase| (c.n as u128) * (c.q.len() as u128).pow(2) * (c.flags.iter().map(|f| 1 + f.0 as u128).sum::<u128>()) * (c.secs.contains(&0) as u128 + 1);
    v.sort_by_key(|c| std::cmp::Reverse(cost(c)));
    let batches = v.len().div_ceil(16).max(1);
    let mut slots: Vec<Vec<VCase>> = (0..batches).map(|_| vec![]).collect();
    for (i, c) in v.into_iter().enumerate() {
        slots[i % batches].push(c);
    }
    slots.into_iter().flatten().collect()
}

fn long_cases(cfg: &RunCfg) -> Vec<VCase> {
    // 65 smallest primes = 1 mod 4 (N = 2) and the 65 largest 60-bit primes = 1 mod 8 (N = 4)
    let small: Vec<u64> = (5u64..).step_by(4).filter(|&x| is_prime_u64(x)).take(65).collect();
    let big = primes_1_mod(8, 60, 65);
    let mut out = vec![];
    for (n, src) in [(2usize, &small), (4usize, &big)] {
        for len in [63usize, 64, 65] {
            for scheme in [1u8, 3, 2] {
                let ts: Vec<u64> = if scheme == 2 { vec![0] } else { vec![3, 17, 257] };
                for &t in &ts {
                    let flags: Vec<(bool, bool)> = if cfg.thorough() || n == 2 { ALL_FLAGS.to_vec() } else { vec![(false, false), (true, true)] };
                    if !cfg.thorough() && n == 4 && (scheme == 3 || (t != 3 && t != 0)) {
                        continue; // quick: the 60-bit lists with BFV t=3 and CKKS only
                    }
                    for f in flags {
                        out.push(VCase { scheme, n, q: src[..len].to_vec(), ts: vec![t], secs: vec![0, 128], flags: vec![f], script: 1 << 19 });
                    }
                }
            }
        }
    }
    deal(out)
}

// ---------------------------------------------------------------------------------------------
// production-size sections: many primes at degrees 4..512 (chain_many), degrees 1024..131072 (chain_big), many generated primes (create_many)
// ---------------------------------------------------------------------------------------------

const MANY_DEGREES: [usize; 8] = [4, 8, 16, 32, 64, 128, 256, 512];
const BIG_DEGREES: [usize; 8] = [1024, 2048, 4096, 8192, 16384, 32768, 65536, 131072];
/// chain lengths that sit on a boundary (1 / 2 words, 8 / 9 and 16 / 17 primes or words, the longest)
const EDGE_LENS: [usize; 10] = [1, 2, 7, 8, 9, 15, 16, 17, 18, 30];
const MAX_LEN: usize = 30;

/// the `count` smallest primes = 1 mod 2n that are not in `skip`
fn smallest_ntt_primes(n: usize, count: usize, skip: &[u64]) -> Vec<u64> {
    let f = 2 * n as u64;
    let mut v = vec![];
    let mut x = f + 1;
    while v.len() < count {
        if is_prime_u64(x) && !skip.contains(&x) {
            v.push(x);
        }
        x += f;
    }
    v
}

/// distinct primes = 1 mod 2n of the given bit sizes, in the order given: the j-th occurrence of a size takes the j-th largest
/// prime of that size that is not in `skip`. None if some size has too few primes.
fn sized_chain(n: usize, sizes: &[usize], skip: &[u64]) -> Option<Vec<u64>> {
    let mut pools: HashMap<usize, Vec<u64>> = HashMap::new();
    let mut out = vec![];
    for &b in sizes {
        if !(2..=60).contains(&b) {
            return None;
        }
        let pool = pools.entry(b).or_insert_with(|| {
            let cnt = sizes.iter().filter(|&&x| x == b).count();
            let mut v = primes_1_mod(2 * n as u64, b, cnt + skip.len());
            v.retain(|x| !skip.contains(x));
            v.reverse(); // pop() takes the largest
            v
        });
        out.push(pool.pop()?);
    }
    Some(out)
}

const MIXED_SMALL: [usize; 10] = [60, 20, 47, 33, 59, 25, 41, 54, 30, 38];
const MIXED_BIG: [usize; 10] = [60, 30, 47, 33, 59, 36, 41, 54, 31, 38];

/// The prime lists of one degree: (family, 30 distinct primes = 1 mod 2N, plain moduli for BFV / BGV).
///  * `max60`  the 2nd..31st largest 60-bit primes, descending (the largest one is a plain modulus): products cross one word per prime
///  * `min`    the 30 smallest primes, ascending (degrees below 1024 only): many moduli, few words
///  * `mixed`  sizes 60,20,47,33,59,25,41,54,30,38 (large degrees: 60,30,47,33,59,36,41,54,31,38) three times over: irregular word boundaries
/// Plain moduli: 3 (no batching), a small prime = 1 mod 2N outside every list (batching, fast lift), the largest 60-bit prime
/// = 1 mod 2N (batching, larger than every coefficient modulus: multi-word increments, short chains).
fn prime_families(n: usize) -> Vec<(&'static str, Vec<u64>, Vec<u64>)> {
    let pool60 = primes_1_mod(2 * n as u64, 60, MAX_LEN + 1);
    assert_eq!(pool60.len(), MAX_LEN + 1);
    let t_big = pool60[0];
    let small = smallest_ntt_primes(n, MAX_LEN + 1, &[]);
    let t_mid = small[MAX_LEN];
    let ts = vec![3, t_mid, t_big];
    let mut out = vec![("max60", pool60[1..].to_vec(), ts.clone())];
    if n < 1024 {
        out.push(("min", small[..MAX_LEN].to_vec(), ts.clone()));
    }
    let pat: Vec<usize> = (0..MAX_LEN).map(|i| if n < 1024 { MIXED_SMALL[i % 10] } else { MIXED_BIG[i % 10] }).collect();
    if let Some(l) = sized_chain(n, &pat, &[t_big, t_mid]) {
        out.push(("mixed", l, ts));
    }
    out
}

/// A chain of `k` primes = 1 mod 2N whose product has exactly `std_max_bits(n, 128)` bits (sizes as equal as possible, ascending,
/// so that the last prime is a largest one), and the same chain with the last prime replaced so that the product has more bits.
fn tc128_chain(n: usize, k: usize, skip: &[u64]) -> Option<(Vec<u64>, Vec<u64>)> {
    let max = std_max_bits(n, 128);
    if max == 0 || k == 0 || max / k < 2 {
        return None;
    }
    let mut sizes: Vec<usize> = (0..k).map(|i| max / k + usize::from(i >= k - max % k)).collect();
    for _ in 0..4 * k + 8 {
        let chain = sized_chain(n, &sizes, skip)?;
        let b = BigU::product(&chain).bits();
        if b == max {
            // one bit too many: a last prime of more bits
            let last_bits = *sizes.last().unwrap();
            for extra in 1..=3 {
                if last_bits + extra > 60 {
                    break;
                }
                for pr in primes_1_mod(2 * n as u64, last_bits + extra, 4) {
                    if chain.contains(&pr) || skip.contains(&pr) {
                        continue;
                    }
                    let mut over = chain.clone();
                    *over.last_mut().unwrap() = pr;
                    if BigU::product(&over).bits() > max {
                        return Some((chain, over));
                    }
                }
            }
            return Some((chain.clone(), vec![]));
        }
        if b < max {
            // grow the smallest size
            let i = (0..k).min_by_key(|&i| (sizes[i], i))?;
            if sizes[i] >= 60 {
                return None;
            }
            sizes[i] += 1;
        } else {
            let i = (0..k).max_by_key(|&i| (sizes[i], i))?;
            if sizes[i] <= 2 {
                return None;
            }
            sizes[i] -= 1;
        }
        sizes.sort_unstable();
    }
    None
}

fn lens(all: bool) -> Vec<usize> {
    if all {
        (1..=MAX_LEN).collect()
    } else {
        EDGE_LENS.to_vec()
    }
}

fn vcase(scheme: u8, n: usize, q: &[u64], ts: &[u64], secs: &[u16], script: usize) -> VCase {
    VCase { scheme, n, q: q.to_vec(), ts: if scheme == 2 { vec![0] } else { ts.to_vec() }, secs: secs.to_vec(), flags: ALL_FLAGS.to_vec(), script }
}

/// chain_many: degree 4..512 x family x chain length x scheme; plain moduli, security {None, Tc128}, the four flag combinations inside
fn many_cases(cfg: &RunCfg) -> Vec<VCase> {
    let mut out = vec![];
    for &n in &MANY_DEGREES {
        if !cfg.thorough() && ![4, 8, 64, 256].contains(&n) {
            continue;
        }
        for (fam, list, ts) in prime_families(n) {
            if !cfg.thorough() && ((n != 8 && fam == "mixed") || (n == 256 && fam != "max60")) {
                continue;
            }
            let ks: Vec<usize> = if cfg.thorough() {
                lens(n <= 64 || fam == "max60")
            } else if n == 256 {
                vec![9, 17]
            } else {
                lens(n == 8 && fam != "mixed")
            };
            for k in ks {
                for scheme in [1u8, 3, 2] {
                    // quick: BGV shares every code path of this property with BFV except the scheme tag; edge lengths only
                    if !cfg.thorough() && scheme == 3 && !(n == 8 && EDGE_LENS.contains(&k)) {
                        continue;
                    }
                    let ts: Vec<u64> = if cfg.thorough() || n == 8 { ts.clone() } else { vec![ts[1], ts[2]] };
                    out.push(vcase(scheme, n, &list[..k], &ts, &[0, 128], 1 << 18));
                }
            }
        }
    }
    out.sort_by_key(|c| (c.q.len() * c.q.len() * c.n.max(64), c.n));
    out
}

/// chain_big: degree 1024..131072; SecurityLevel::None with 60-bit / mixed primes, and the real security table: chains whose
/// product has exactly the largest bit count Tc128 allows (accepted) and one with more bits (rejected)
fn big_cases(cfg: &RunCfg) -> Vec<VCase> {
    let mut out = vec![];
    let script = 1 << 20;
    for &n in &BIG_DEGREES {
        if !cfg.thorough() && n > 8192 {
            continue;
        }
        let fams = prime_families(n);
        let (t_mid, t_big) = (fams[0].2[1], fams[0].2[2]);
        for (fam, list, _) in &fams {
            let ks: Vec<usize> = if cfg.thorough() {
                match (n, *fam) {
                    (65536 | 131072, "max60") => vec![1, 2, 9],
                    (65536 | 131072, _) => vec![],
                    (1024 | 4096, _) | (8192, "max60") => lens(true),
                    (16384, "max60") => (1..=18).chain([24, 30]).collect(),
                    (_, "max60") => vec![1, 2, 8, 9, 16, 17, 18, 30],
                    _ => vec![9, 17],
                }
            } else {
                match (n, *fam) {
                    (1024, "max60") => vec![1, 2, 8, 9, 10, 16, 17, 18, 30],
                    (1024, _) => vec![9, 17],
                    (4096 | 8192, "max60") => vec![9],
                    _ => vec![],
                }
            };
            for k in ks {
                for scheme in [1u8, 3, 2] {
                    if scheme == 3 && (!cfg.thorough() || n >= 8192) && !(k == 9 || k == 17) {
                        continue;
                    }
                    // one plain modulus per case at the large degrees (a case is one unit of parallel work)
                    if n >= 8192 && scheme != 2 {
                        for t in [t_mid, t_big] {
                            if scheme == 3 && t == t_big {
                                continue;
                            }
                            out.push(vcase(scheme, n, &list[..k], &[t], &[0, 128], script));
                        }
                    } else {
                        out.push(vcase(scheme, n, &list[..k], &[t_mid, t_big], &[0, 128], script));
                    }
                }
            }
        }
        // the real security table
        for k in 1..=MAX_LEN {
            if !cfg.thorough() && !(n == 1024 || (n == 4096 && k <= 3)) {
                continue;
            }
            let Some((chain, over)) = tc128_chain(n, k, &[t_mid, t_big]) else { continue };
            for scheme in [1u8, 3, 2] {
                if scheme == 3 && n >= 8192 && !EDGE_LENS.contains(&k) {
                    continue;
                }
                let ts: Vec<u64> = if n >= 16384 && scheme == 3 { vec![t_mid] } else { vec![t_mid, t_big] };
                if n >= 8192 && scheme != 2 {
                    for &t in &ts {
                        out.push(vcase(scheme, n, &chain, &[t], &[128, 192], script));
                    }
                } else {
                    out.push(vcase(scheme, n, &chain, &ts, &[128, 192], script));
                }
                if !over.is_empty() {
                    out.push(VCase { flags: vec![(true, false)], ..vcase(scheme, n, &over, &[t_mid], &[128], script) });
                }
            }
        }
    }
    // cheap cases first (the engine re-runs the first 24 sequentially), then the most expensive ones (longest first keeps the
    // tail of the parallel run short)
    out.sort_by_key(|c| big_cost(c));
    let head: Vec<VCase> = out.drain(..out.len().min(24)).collect();
    out.reverse();
    head.into_iter().chain(out).collect()
}

fn big_cost(c: &VCase) -> u128 {
    (c.n as u128) * (c.q.len() as u128).pow(2) * c.ts.len() as u128 * c.flags.len() as u128
}

/// bytes of root-power tables an expanded chain of the case keeps alive (two arrays of N 16-byte entries per table; level j has
/// j tables of its own and up to j + 2 in its RNS tool)
fn chain_bytes(c: &VCase) -> u64 {
    let k = c.q.len() as u64;
    32 * c.n as u64 * (k * k + 3 * k)
}

static HEAVY_IN_USE: std::sync::Mutex<u64> = std::sync::Mutex::new(0);
static HEAVY_CV: std::sync::Condvar = std::sync::Condvar::new();
const HEAVY_CAP: u64 = 5 << 30;

/// Runs `f` while holding `bytes` of the budget for large chains (cases below 64 MB do not take part). Purely a memory throttle:
/// what a case computes does not depend on it.
fn throttled<T>(bytes: u64, f: impl FnOnce() -> T) -> T {
    if bytes < 64 << 20 {
        return f();
    }
    let bytes = bytes.min(HEAVY_CAP);
    struct Release(u64);
    impl Drop for Release {
        fn drop(&mut self) {
            *HEAVY_IN_USE.lock().unwrap_or_else(|e| e.into_inner()) -= self.0;
            HEAVY_CV.notify_all();
        }
    }
    let mut g = HEAVY_IN_USE.lock().unwrap_or_else(|e| e.into_inner());
    while *g + bytes > HEAVY_CAP {
        g = HEAVY_CV.wait(g).unwrap_or_else(|e| e.into_inner());
    }
    *g += bytes;
    drop(g);
    let _r = Release(bytes);
    f()
}

/// `check_validate` with the extended per-level constants switched on; keys get the section's name in front.
fn check_ext(c: &VCase, seed: u64, st: &Stats, section: &str) -> CaseOut {
    struct Reset;
    impl Drop for Reset {
        fn drop(&mut self) {
            EXT.with(|e| e.set(false));
        }
    }
    let mut out = throttled(chain_bytes(c), || {
        let _r = Reset;
        EXT.with(|e| e.set(true));
        check_validate(c, seed, st)
    });
    if let Verdict::Fail(f) = &mut out.verdict {
        f.key = format!("{section}:{}", f.key);
        out.outcome = h64(&f.key);
    }
    out
}

/// tuples of the production-size sections for the `ids` universe: every case with every prefix of its list, and for the lists of
/// 30 primes at N = 8 and N = 1024 the neighbours that differ in ONE position (position j = 1..30 replaced by a spare prime) or in
/// the order of the last two primes
fn big_id_tuples(cfg: &RunCfg) -> Vec<(u8, usize, Vec<u64>, Vec<u64>)> {
    let mut out = vec![];
    for c in many_cases(cfg).into_iter().chain(big_cases(cfg)) {
        for len in 1..=c.q.len() {
            out.push((c.scheme, c.n, c.q[..len].to_vec(), c.ts.clone()));
        }
    }
    for n in [8usize, 1024] {
        for (_, list, ts) in prime_families(n) {
            let spare = primes_1_mod(2 * n as u64, 59, MAX_LEN + 4).into_iter().find(|x| !list.contains(x)).unwrap();
            for scheme in [1u8, 2] {
                let ts = if scheme == 2 { vec![0] } else { vec![ts[1]] };
                for j in 0..list.len() {
                    let mut l = list.clone();
                    l[j] = spare;
                    out.push((scheme, n, l, ts.clone()));
                }
                for k in 2..=list.len() {
                    let mut l = list[..k].to_vec();
                    l.swap(k - 1, k - 2);
                    out.push((scheme, n, l, ts.clone()));
                }
            }
        }
    }
    out
}

#[derive(Serialize, Deserialize, Clone, Debug)]
pub struct MCase {
    pub n: usize,
    /// any order
    pub sizes: Vec<usize>,
}

/// `CoeffModulus::create(N, sizes)` with many primes per size: distinct primes of exactly the sizes, = 1 mod 2N, or a refusal
/// when some size does not have that many primes; the identical call under other draws returns the same list.
fn check_create_many(c: &MCase, seed: u64) -> CaseOut {
    let tag = h64(&(c.n, &c.sizes, "many"));
    let mut distinct: Vec<usize> = c.sizes.clone();
    distinct.sort_unstable();
    distinct.dedup();
    let satisfiable = distinct.iter().all(|&b| {
        let m = c.sizes.iter().filter(|&&x| x == b).count();
        avail(c.n, b, m).len() >= m
    });
    let call = |ctr: u64| {
        set_nt_draws(Some(stream(seed, tag, ctr, 4096)));
        let (n, sizes) = (c.n, c.sizes.clone());
        let r = guard(move || CoeffModulus::create(n, sizes));
        set_nt_draws(None);
        r
    };
    let first = call(0);
    let class = match judge_created(c.n, &c.sizes, &first, satisfiable) {
        Ok(h) => h,
        Err((k, e, o)) => return CaseOut::fail(k.replacen("create:", "create_many:", 1), e, o),
    };
    let vals = |r: &Result<Vec<Modulus>, String>| r.as_ref().ok().map(|v| v.iter().map(|m| m.value()).collect::<Vec<_>>());
    let again = call(1);
    if vals(&again) != vals(&first) {
        return CaseOut::fail("create_many:nondeterministic", format!("identical calls CoeffModulus::create({}, {:?}) agree: {:?}", c.n, c.sizes, vals(&first)), format!("{:?}", vals(&again)));
    }
    CaseOut::pass(first.is_ok(), h64(&(class, distinct.len().min(3), c.sizes.len() > 8, c.sizes.len() > 16)), 2)
}

fn create_many_cases(cfg: &RunCfg) -> Vec<MCase> {
    let sizes: Vec<usize> = if cfg.thorough() { (2..=60).collect() } else { vec![2, 5, 8, 13, 17, 18, 20, 25, 30, 31, 32, 33, 45, 59, 60] };
    let counts: Vec<usize> = if cfg.thorough() { (5..=MAX_LEN).collect() } else { vec![7, 8, 9, 15, 16, 17, 18, 30] };
    let mut mixed: Vec<Vec<usize>> = vec![];
    // three sizes, nine primes each, interleaved
    let five = [20usize, 30, 40, 50, 60];
    for a in 0..5 {
        for b in a + 1..5 {
            for c in b + 1..5 {
                if cfg.thorough() || (a + b + c) % 3 == 0 {
                    mixed.push((0..27).map(|i| [five[a], five[b], five[c]][i % 3]).collect());
                }
            }
        }
    }
    mixed.push((31..=60).collect()); // 30 sizes, one prime each
    mixed.push((0..30).map(|i| if i < 17 { 60 } else { 59 }).collect());
    mixed.push((0..30).map(|i| if i % 2 == 0 { 30 } else { 60 }).collect());
    mixed.push((0..30).map(|i| 60 - (i % 10)).rev().collect()); // ten sizes, three primes each
    let mut out = vec![];
    for &m in &counts {
        for &b in &sizes {
            for k in 1..=15 {
                out.push(MCase { n: 1 << k, sizes: vec![b; m] });
            }
        }
    }
    for s in mixed {
        for k in 1..=15 {
            out.push(MCase { n: 1 << k, sizes: s.clone() });
        }
    }
    out
}

// ---------------------------------------------------------------------------------------------
// ids: pairwise distinct identifiers over the whole universe
// ---------------------------------------------------------------------------------------------

struct IdsSection {
    cfg: RunCfg,
}

/// every (scheme, degree, list, plain modulus) that occurs in the validate sections, chain levels included
fn id_universe(cfg: &RunCfg) -> Box<dyn Iterator<Item = (u8, usize, Vec<u64>, Vec<u64>)> + Send> {
    let al = alpha(cfg);
    let small = small_cases(&al).map(|c| (c.scheme, c.n, c.q, c.ts));
    let mut rest = vec![];
    for c in std_cases(cfg).into_iter().chain(long_cases(cfg)) {
        if c.secs[0] != 0 || c.flags[0] != ALL_FLAGS[0] && c.flags.len() == 1 {
            continue; // same tuples again
        }
        for len in 1..=c.q.len() {
            rest.push((c.scheme, c.n, c.q[..len].to_vec(), c.ts.clone()));
        }
    }
    Box::new(small.chain(rest).chain(big_id_tuples(cfg)))
}

fn id_of(p: &P) -> Option<ParmsID> {
    build_parms(p, false, 0).ok().map(|e| *e.parms_id())
}

fn diff_class(a: &P, b: &P) -> String {
    let mut d = vec![];
    if a.scheme != b.scheme {
        d.push("scheme");
    }
    if a.n != b.n {
        d.push("degree");
    }
    if a.q != b.q {
        d.push(if a.q.len() != b.q.len() { "coeff-count" } else { "coeff" });
    }
    if a.t != b.t {
        d.push("plain");
    }
    d.join("+")
}

impl AnySection for IdsSection {
    fn name(&self) -> String {
        "ids".into()
    }

    fn replay(&self, case: &Value) -> Result<CaseOut, String> {
        let a: P = serde_json::from_value(case["a"].clone()).map_err(|e| e.to_string())?;
        let b: P = serde_json::from_value(case["b"].clone()).map_err(|e| e.to_string())?;
        heathcliff_thread_init();
        let (ia, ib) = (id_of(&a), id_of(&b));
        Ok(match (ia, ib) {
            (Some(x), Some(y)) if a != b && x == y => CaseOut::fail(format!("ids:collision:differ-in-{}", diff_class(&a, &b)), format!("different ids for {} and {}", a.label(), b.label()), format!("both {:x?}", x)),
            (Some(_), Some(_)) => CaseOut::pass(true, 1, 2),
            _ => CaseOut::skip("not constructible"),
        })
    }

    fn run(self: Box<Self>, rep: &Arc<Report>) {
        let t0 = Instant::now();
        let it = std::sync::Mutex::new(id_universe(&self.cfg));
        let threads = self.cfg.threads.max(1);
        let refused = AtomicU64::new(0);
        let mut all: Vec<([u64; 4], u64)> = vec![];
        std::thread::scope(|s| {
            let hs: Vec<_> = (0..threads)
                .map(|_| {
                    s.spawn(|| {
                        heathcliff_thread_init();
                        let mut local: Vec<([u64; 4], u64)> = vec![];
                        loop {
                            let batch: Vec<_> = {
                                let mut g = it.lock().unwrap();
                                (0..256).filter_map(|_| g.next()).collect()
                            };
                            if batch.is_empty() {
                                break;
                            }
                            for (scheme, n, q, ts) in batch {
                                for t in ts {
                                    let p = P { scheme, n, q: q.clone(), t };
                                    match id_of(&p) {
                                        Some(id) => local.push((id, h64(&p))),
                                        None => {
                                            refused.fetch_add(1, Ordering::Relaxed);
                                        }
                                    }
                                }
                            }
                        }
                        local
                    })
                })
                .collect();
            for h in hs {
                match h.join() {
                    Ok(l) => all.extend(l),
                    Err(_) => rep.machinery_error("ids: worker panicked"),
                }
            }
        });
        let computed = all.len() as u64;
        all.sort_unstable();
        all.dedup();
        let distinct_tuples = all.len() as u64;
        // adjacent scan
        let mut colliding: Vec<u64> = vec![];
        for w in all.windows(2) {
            if w[0].0 == w[1].0 {
                colliding.push(w[0].1);
                colliding.push(w[1].1);
            }
        }
        let zero = all.iter().filter(|e| e.0 == [0u64; 4]).count();
        let mut nviol = 0u64;
        if !colliding.is_empty() {
            // second pass: recover the tuples behind the colliding hashes
            colliding.sort_unstable();
            colliding.dedup();
            let mut found: HashMap<[u64; 4], Vec<P>> = HashMap::new();
            for (scheme, n, q, ts) in id_universe(&self.cfg) {
                for t in ts {
                    let p = P { scheme, n, q: q.clone(), t };
                    if colliding.binary_search(&h64(&p)).is_ok() {
                        if let Some(id) = id_of(&p) {
                            let e = found.entry(id).or_default();
                            if !e.contains(&p) {
                                e.push(p);
                            }
                        }
                    }
                }
            }
            let mut groups: Vec<_> = found.into_iter().filter(|(_, v)| v.len() > 1).collect();
            groups.sort_by_key(|(id, _)| *id);
            for (id, v) in groups {
                for b in &v[1..] {
                    nviol += 1;
                    rep.add_violation(
                        "ids",
                        json!({"a": v[0], "b": b}),
                        Fail { key: format!("ids:collision:differ-in-{}", diff_class(&v[0], b)), expected: format!("different ids for {} and {}", v[0].label(), b.label()), observed: format!("both {:x?}", id) },
                    );
                }
            }
        }
        if zero > 0 {
            rep.add_violation("ids", json!({"zero": true}), Fail { key: "ids:zero".into(), expected: "no zero identifier".into(), observed: format!("{zero} tuples") });
        }
        let out = CaseOut::pass(true, h64(&(distinct_tuples, nviol)), computed);
        rep.record("ids", h64(&"ids-universe"), || json!({"universe": "all tuples of validate_small / validate_std / validate_long incl. chain levels"}), &out);
        rep.observe(format!("ids: {computed} identifiers computed through the builder ({} refusals skipped), {distinct_tuples} distinct (id, tuple) pairs, {nviol} colliding pairs", refused.load(Ordering::Relaxed)));
        rep.push_section(SectionStat {
            name: "ids".into(),
            engine: "E1(sort+scan)".into(),
            cases: distinct_tuples,
            nontrivial: distinct_tuples,
            skipped: refused.load(Ordering::Relaxed),
            outcomes: distinct_tuples - nviol.min(distinct_tuples),
            steps: computed,
            states: distinct_tuples,
            transitions: computed,
            exhaustive: true,
            bound: "every (scheme, degree, coefficient list, plain modulus) of the validate and chain_many / chain_big sections incl. all chain levels (chains of 1..30 primes), + for the 30-prime lists at N = 8 and N = 1024 every list with ONE position 1..30 replaced and every prefix with its last two primes swapped: ids pairwise distinct".into(),
            wall_s: t0.elapsed().as_secs_f64(),
            extra: json!({"refused_by_builder": refused.load(Ordering::Relaxed)}),
        });
        rep.states.fetch_add(distinct_tuples, Ordering::Relaxed);
        rep.transitions.fetch_add(computed, Ordering::Relaxed);
    }
}

// ---------------------------------------------------------------------------------------------
// create / defaults
// ---------------------------------------------------------------------------------------------

#[derive(Serialize, Deserialize, Clone, Debug)]
pub struct CCase {
    pub n: usize,
    /// non-decreasing
    pub sizes: Vec<usize>,
    /// how often the identical call is repeated (fresh HashMap states, different draws)
    pub repeat: u8,
}

/// the `m` largest primes of exactly `b` bits that are 1 mod 2n (fewer if there are not that many)
fn avail(n: usize, b: usize, m: usize) -> Vec<u64> {
    if let Some(v) = AVAIL.with(|a| a.borrow().get(&(n, b, m)).cloned()) {
        return v;
    }
    let v = if b < 2 || b > 62 || n == 0 { vec![] } else { primes_1_mod(2 * n as u64, b, m) };
    AVAIL.with(|a| a.borrow_mut().insert((n, b, m), v.clone()));
    v
}

fn judge_created(n: usize, sizes: &[usize], r: &Result<Vec<Modulus>, String>, satisfiable: bool) -> Result<u64, Viol> {
    let call = || format!("CoeffModulus::create({n}, {sizes:?})");
    match r {
        Err(e) => {
            if satisfiable {
                return Err(viol(format!("create:refused-satisfiable:{}", panic_class(e)), format!("{} returns primes (enough primes of every size exist)", call()), e.clone()));
            }
            Ok(h64(&("refused", panic_class(e))))
        }
        Ok(v) => {
            let vals: Vec<u64> = v.iter().map(|m| m.value()).collect();
            if vals.len() != sizes.len() {
                return Err(viol("create:wrong-count", format!("{} moduli from {}", sizes.len(), call()), format!("{vals:?}")));
            }
            for (i, &x) in vals.iter().enumerate() {
                let ok = bits(x) == sizes[i] && n > 0 && x % (2 * n as u64) == 1 && is_prime_u64(x) && v[i].is_prime();
                if !ok {
                    let what = if bits(x) != sizes[i] { "bit-size" } else if !is_prime_u64(x) { "composite" } else if !v[i].is_prime() { "prime-flag" } else { "not-1-mod-2N" };
                    return Err(viol(format!("create:{what}"), format!("{}: entry {i} is a prime of exactly {} bits, = 1 mod {}", call(), sizes[i], 2 * n), format!("{vals:?}")));
                }
                if vals[..i].contains(&x) {
                    return Err(viol("create:duplicate", format!("{}: distinct primes", call()), format!("{vals:?}")));
                }
            }
            Ok(h64(&("ok", vals.len())))
        }
    }
}

fn check_create(c: &CCase, seed: u64) -> CaseOut {
    let tag = h64(&(c.n, &c.sizes));
    let valid_args = c.n >= 2 && c.n <= 131072 && c.n.is_power_of_two() && !c.sizes.is_empty() && c.sizes.len() <= 64 && c.sizes.iter().all(|&b| (2..=60).contains(&b));
    let mut satisfiable = valid_args;
    if valid_args {
        let mut i = 0;
        while i < c.sizes.len() {
            let b = c.sizes[i];
            let m = c.sizes.iter().filter(|&&x| x == b).count();
            if avail(c.n, b, m).len() < m {
                satisfiable = false;
            }
            i += m;
        }
    }
    let call = |sizes: Vec<usize>, ctr: u64| {
        set_nt_draws(Some(stream(seed, tag, ctr, 2048)));
        let n = c.n;
        let r = guard(move || CoeffModulus::create(n, sizes));
        set_nt_draws(None);
        r
    };
    let mut steps = 0u64;
    let first = call(c.sizes.clone(), 0);
    steps += 1;
    // invalid arguments: the disjunction "refusal or primes as requested" is all that is judged
    let class = match judge_created(c.n, &c.sizes, &first, satisfiable) {
        Ok(h) => h,
        Err((k, e, o)) => return CaseOut::fail(k, e, o),
    };
    let vals = |r: &Result<Vec<Modulus>, String>| r.as_ref().ok().map(|v| v.iter().map(|m| m.value()).collect::<Vec<_>>());
    for rep in 1..c.repeat.max(1) {
        let again = call(c.sizes.clone(), rep as u64);
        steps += 1;
        if vals(&again) != vals(&first) {
            return CaseOut::fail("create:nondeterministic", format!("identical calls CoeffModulus::create({}, {:?}) agree: {:?}", c.n, c.sizes, vals(&first)), format!("{:?}", vals(&again)));
        }
    }
    let distinct_sizes = c.sizes.windows(2).any(|w| w[0] != w[1]);
    if distinct_sizes {
        let rev: Vec<usize> = c.sizes.iter().rev().cloned().collect();
        let r = call(rev.clone(), 100);
        steps += 1;
        if let Err((k, e, o)) = judge_created(c.n, &rev, &r, satisfiable) {
            return CaseOut::fail(k, e, o);
        }
    }
    if c.sizes.len() == 1 {
        let (n, b) = (c.n, c.sizes[0]);
        set_nt_draws(Some(stream(seed, tag, 200, 2048)));
        let r = guard(move || PlainModulus::batching(n, b)).map(|m| vec![m]);
        set_nt_draws(None);
        steps += 1;
        if let Err((k, e, o)) = judge_created(c.n, &c.sizes, &r, satisfiable) {
            return CaseOut::fail(k.replace("create:", "batching:"), e, o);
        }
    }
    CaseOut::pass(first.is_ok(), class, steps)
}

fn multisets(alpha: &[usize], len: usize) -> Vec<Vec<usize>> {
    fn rec(alpha: &[usize], len: usize, start: usize, cur: &mut Vec<usize>, out: &mut Vec<Vec<usize>>) {
        if cur.len() == len {
            out.push(cur.clone());
            return;
        }
        for i in start..alpha.len() {
            cur.push(alpha[i]);
            rec(alpha, len, i, cur, out);
            cur.pop();
        }
    }
    let mut out = vec![];
    rec(alpha, len, 0, &mut vec![], &mut out);
    out
}

fn create_cases(cfg: &RunCfg) -> impl Iterator<Item = CCase> + Send + 'static {
    let full: Vec<usize> = (2..=60).collect();
    let reduced: Vec<usize> = vec![2, 3, 4, 5, 8, 13, 17, 18, 19, 20, 30, 31, 32, 59, 60];
    let mut sets: Vec<Vec<usize>> = vec![];
    sets.extend(multisets(&full, 1));
    sets.extend(multisets(&full, 2));
    if cfg.thorough() {
        sets.extend(multisets(&full, 3));
        sets.extend(multisets(&full, 4));
    } else {
        sets.extend(multisets(&reduced, 3));
        sets.extend(multisets(&reduced, 4));
    }
    let mut out = vec![];
    // invalid arguments
    for (n, sizes) in [(0usize, vec![20usize]), (1, vec![20]), (3, vec![20]), (6, vec![20]), (1 << 18, vec![30]), (8, vec![]), (8, vec![1]), (8, vec![61]), (8, vec![20, 61]), (8, vec![1, 20]), (8, vec![62]), (8, vec![64]), (2, vec![30; 65])] {
        out.push(CCase { n, sizes, repeat: 1 });
    }
    for k in 1..=15 {
        let n = 1usize << k;
        out.push(CCase { n, sizes: vec![20, 30, 40, 50], repeat: 8 });
        out.push(CCase { n, sizes: vec![25, 25, 35, 35, 45], repeat: 8 });
    }
    // the two largest supported degrees with a few lists
    for n in [1usize << 16, 1 << 17] {
        for s in multisets(&[2, 17, 18, 19, 20, 30, 59, 60], 2) {
            out.push(CCase { n, sizes: s, repeat: 2 });
        }
    }
    let sets = Arc::new(sets);
    // shortest lists first, then by degree
    let main = (0..sets.len()).flat_map(move |i| {
        let sets = sets.clone();
        (1..=15).map(move |k| CCase { n: 1usize << k, sizes: sets[i].clone(), repeat: if sets[i].len() >= 4 { 1 } else { 2 } })
    });
    out.into_iter().chain(main)
}

// ---------------------------------------------------------------------------------------------
// create_with_plain_modulus (deprecated in the crate, still a generator of moduli)
// ---------------------------------------------------------------------------------------------

#[derive(Serialize, Deserialize, Clone, Debug)]
pub struct PCase {
    pub n: usize,
    pub t: u64,
    pub sizes: Vec<usize>,
}

#[allow(deprecated)]
fn check_create_plain(c: &PCase, seed: u64, overflow_refusals: &AtomicU64) -> CaseOut {
    let tm = match modulus(c.t) {
        Ok(m) => m,
        Err(_) => return CaseOut::skip("plain modulus refused by Modulus::new"),
    };
    let two_n = 2 * c.n as u128;
    let lcm: u128 = two_n * (c.t as u128 / gcd(c.t, 2 * c.n as u64) as u128);
    // enough primes of every size that are 1 mod lcm?
    let mut satisfiable = true;
    let mut i = 0;
    while i < c.sizes.len() {
        let b = c.sizes[i];
        let m = c.sizes.iter().filter(|&&x| x == b).count();
        let have = if lcm >> 61 != 0 { 0 } else { primes_1_mod(lcm as u64, b, m).len() };
        if have < m {
            satisfiable = false;
        }
        i += m;
    }
    set_nt_draws(Some(stream(seed, h64(&(c.n, c.t, &c.sizes)), 0, 2048)));
    let (n, sizes) = (c.n, c.sizes.clone());
    let r = guard(move || CoeffModulus::create_with_plain_modulus(n, &tm, sizes));
    set_nt_draws(None);
    let call = || format!("CoeffModulus::create_with_plain_modulus({}, {}, {:?})", c.n, c.t, c.sizes);
    match r {
        Err(e) => {
            if e.contains("overflow") && !satisfiable {
                // lcm(2N, t) does not fit 64 bits: this build (overflow checks on) refuses by an arithmetic panic. A refusal is
                // within the statement; what a build without overflow checks does is reported as an observation (REPORT.md).
                overflow_refusals.fetch_add(1, Ordering::Relaxed);
                return CaseOut::pass(false, h64(&"refused-by-overflow"), 1);
            }
            if satisfiable {
                return CaseOut::fail(format!("create_plain:refused-satisfiable:{}", panic_class(&e)), format!("{} returns primes = 1 mod {lcm}", call()), e);
            }
            CaseOut::pass(false, h64(&("refused", panic_class(&e))), 1)
        }
        Ok(v) => {
            let vals: Vec<u64> = v.iter().map(|m| m.value()).collect();
            for (i, &x) in vals.iter().enumerate() {
                let what = if vals.len() != c.sizes.len() {
                    "wrong-count"
                } else if bits(x) != c.sizes[i] {
                    "bit-size"
                } else if !is_prime_u64(x) {
                    "composite"
                } else if x as u128 % lcm != 1 {
                    "not-1-mod-lcm"
                } else if vals[..i].contains(&x) {
                    "duplicate"
                } else {
                    continue;
                };
                return CaseOut::fail(format!("create_plain:{what}"), format!("{}: distinct primes of exactly the requested sizes, = 1 mod lcm(2N, t) = {lcm}", call()), format!("{vals:?}"));
            }
            CaseOut::pass(true, h64(&("ok", vals.len())), 1)
        }
    }
}

fn create_plain_cases(cfg: &RunCfg) -> Vec<PCase> {
    let ts: Vec<u64> = vec![2, 3, 4, 17, 255, 257, 65537, 786433, (1 << 20) + 7, (1u64 << 40) + 15, (1u64 << 48) + 1, primes_1_mod(2, 50, 1)[0], primes_1_mod(1 << 19, 60, 2)[1]];
    let sizes: Vec<usize> = if cfg.thorough() { (2..=60).collect() } else { vec![2, 5, 8, 13, 17, 20, 22, 30, 31, 40, 50, 59, 60] };
    let mut sets = multisets(&sizes, 1);
    sets.extend(multisets(&sizes, 2));
    let mut out = vec![];
    for s in sets {
        for k in 1..=15 {
            for &t in &ts {
                out.push(PCase { n: 1 << k, t, sizes: s.clone() });
            }
        }
    }
    out
}

#[derive(Serialize, Deserialize, Clone, Debug)]
pub struct DCase {
    pub n: usize,
    pub sec: u16,
}

fn check_defaults(c: &DCase) -> CaseOut {
    let (n, sec) = (c.n, c.sec);
    let mb = match guard(|| CoeffModulus::max_bit_count(n, sec_level(sec))) {
        Ok(v) => v,
        Err(e) => return CaseOut::fail(format!("defaults:max_bit_count:panic:{}", panic_class(&e)), "a value", e),
    };
    let exp = std_max_bits(n, sec);
    if (sec != 0 && mb != exp) || (sec == 0 && mb < 64 * 60) {
        return CaseOut::fail("defaults:max_bit_count:wrong", format!("{exp} for N={n} level {sec} (HomomorphicEncryption.org table)"), format!("{mb}"));
    }
    set_nt_draws(Some(stream(1, h64(&(n, sec)), 0, 2048)));
    let r = guard(|| CoeffModulus::bfv_default(n, sec_level(sec)));
    set_nt_draws(None);
    let standard = sec != 0 && exp > 0;
    match r {
        Err(e) => {
            if standard {
                return CaseOut::fail(format!("defaults:bfv_default:refused:{}", panic_class(&e)), format!("a list for N={n} level {sec}"), e);
            }
            CaseOut::pass(false, h64(&("refused", panic_class(&e))), 2)
        }
        Ok(l) => {
            let vals: Vec<u64> = l.iter().map(|m| m.value()).collect();
            let total = BigU::product(&vals);
            let mut bad = None;
            if !standard {
                bad = Some("a refusal for a non-standard degree / level None".to_string());
            } else if total.bits() > exp {
                bad = Some(format!("total bit count <= {exp}"));
            } else if vals.is_empty() {
                bad = Some("a non-empty list".into());
            }
            for (i, &x) in vals.iter().enumerate() {
                if !(is_prime_u64(x) && l[i].is_prime() && x % (2 * n as u64) == 1 && (2..=60).contains(&bits(x)) && !vals[..i].contains(&x)) {
                    bad = Some(format!("entry {i} a distinct 2..60-bit prime = 1 mod {}", 2 * n));
                }
            }
            if let Some(b) = bad {
                return CaseOut::fail("defaults:bfv_default:wrong", format!("{b} for N={n} level {sec}"), format!("{vals:?} ({} bits)", total.bits()));
            }
            CaseOut::pass(true, h64(&("ok", vals.len(), total.bits() == exp)), 2)
        }
    }
}

// ---------------------------------------------------------------------------------------------
// is_prime against a sieve
// ---------------------------------------------------------------------------------------------

#[derive(Serialize, Deserialize, Clone, Debug)]
pub struct SCase {
    pub start: u64,
    pub len: u64,
    /// explicit values (boundary windows, pseudoprimes) instead of a range
    #[serde(default)]
    pub values: Vec<u64>,
}

fn sieve_block(start: u64, len: u64) -> Vec<bool> {
    let end = start + len;
    let mut is = vec![true; len as usize];
    for (i, f) in is.iter_mut().enumerate() {
        if start + (i as u64) < 2 {
            *f = false;
        }
    }
    let mut p = 2u64;
    while p * p < end {
        // p itself need not be prime: crossing out multiples of composites is harmless
        let mut m = ((start + p - 1) / p).max(2) * p;
        while m < end {
            is[(m - start) as usize] = false;
            m += p;
        }
        p += 1;
    }
    is
}

fn check_is_prime(c: &SCase, seed: u64) -> CaseOut {
    let mut steps = 0u64;
    let mut primes = 0u64;
    let mut one = |n: u64, expect: bool| -> Option<CaseOut> {
        set_nt_draws(Some(stream(seed, n, 0, 40)));
        let r = guard(|| {
            let m = Modulus::new(n);
            (m.is_prime(), hu::is_prime(&m), m.value(), m.bit_count())
        });
        set_nt_draws(None);
        steps += 1;
        match r {
            Err(e) => {
                if n == 1 || n >> 61 != 0 {
                    return None; // documented refusal of Modulus::new
                }
                Some(CaseOut::fail(format!("is_prime:panic:{}", panic_class(&e)), format!("Modulus::new({n}) is constructible"), e))
            }
            Ok((flag, direct, val, bc)) => {
                if n == 1 || n >> 61 != 0 {
                    return Some(CaseOut::fail("is_prime:modulus-accepted-out-of-range", format!("Modulus::new({n}) refuses"), format!("value {val}")));
                }
                if flag != expect || direct != expect {
                    let kind = if expect { "prime-rejected" } else { "composite-accepted" };
                    return Some(CaseOut::fail(format!("is_prime:{kind}"), format!("is_prime({n}) = {expect}"), format!("Modulus::is_prime() = {flag}, util::is_prime = {direct}")));
                }
                if val != n || bc != bits(n) {
                    return Some(CaseOut::fail("is_prime:modulus-fields", format!("value {n}, {} bits", bits(n)), format!("value {val}, {bc} bits")));
                }
                primes += expect as u64;
                None
            }
        }
    };
    if c.values.is_empty() {
        let sv = sieve_block(c.start, c.len);
        for i in 0..c.len {
            if let Some(f) = one(c.start + i, sv[i as usize]) {
                return f;
            }
        }
    } else {
        for &n in &c.values {
            if let Some(f) = one(n, is_prime_u64(n)) {
                return f;
            }
        }
    }
    CaseOut::pass(primes > 0, h64(&(primes > 0, primes == steps)), steps)
}

fn is_prime_cases(cfg: &RunCfg) -> Vec<SCase> {
    let bound: u64 = if cfg.thorough() { 1 << 24 } else { 1 << 20 };
    let block = 1u64 << 13;
    let mut out: Vec<SCase> = (0..bound / block).map(|i| SCase { start: i * block, len: block, values: vec![] }).collect();
    // boundary windows around every power of two of the allowed range
    for k in 20..=61u32 {
        let c = 1u64 << k;
        let values: Vec<u64> = (c - 64..c + 64).collect();
        out.push(SCase { start: 0, len: 0, values });
    }
    // strong pseudoprimes to small bases, Carmichael numbers, squares of primes, products of twin-like primes
    let mut special: Vec<u64> = vec![
        2047, 3277, 4033, 4681, 8321, 1373653, 25326001, 3215031751, 2152302898747, 3474749660383, 341550071728321, 4759123141, 1122004669633, 561, 1105, 1729, 2465, 2821, 6601, 8911, 41041, 825265,
        321197185, 5394826801, 232250619601, 9746347772161, 65537 * 65537, 65521 * 65537, 1000003 * 1000033, 2147483647 * 2147483629, 1152921504606846883, 1152921504606846975,
    ];
    let p30 = primes_1_mod(2, 30, 8);
    for &a in &p30 {
        for &b in &p30 {
            special.push(a * b);
        }
    }
    special.retain(|&x| x >> 61 == 0);
    out.push(SCase { start: 0, len: 0, values: special });
    out
}

// ---------------------------------------------------------------------------------------------
// every draw for small moduli
// ---------------------------------------------------------------------------------------------

#[derive(Serialize, Deserialize, Clone, Debug)]
pub struct NCase {
    /// "root" or "prime"
    pub kind: String,
    pub q: u64,
}

#[derive(Default)]
struct NtStats {
    composite_pairs: AtomicU64,
    composite_inconsistent: AtomicU64,
    liar_accepts: AtomicU64,
    liar_numbers: AtomicU64,
    calls: AtomicU64,
}

/// strong probable prime test to base a (exact model of one Miller-Rabin round)
fn spp(n: u64, a: u64) -> bool {
    let mut d = n - 1;
    let mut r = 0;
    while d % 2 == 0 {
        d /= 2;
        r += 1;
    }
    let mut x = pow_mod(a, d, n);
    if x == 1 || x == n - 1 {
        return true;
    }
    for _ in 1..r {
        x = mul_mod(x, x, n);
        if x == n - 1 {
            return true;
        }
    }
    false
}

fn check_nt(c: &NCase, seed: u64, st: &NtStats) -> CaseOut {
    let q = c.q;
    let m = match modulus(q) {
        Ok(m) => m,
        Err(e) => return CaseOut::fail("nt:modulus-refused", format!("Modulus::new({q})"), e),
    };
    let mut steps = 0u64;
    let prime = is_prime_u64(q);
    if c.kind == "root" {
        let mut classes = vec![];
        let mut n = 1usize;
        while (q - 1) % (2 * n as u64) == 0 {
            let degree = 2 * n as u64;
            let exp = if prime { ref_min_root(n, q) } else { None };
            let mut results: Vec<Option<u64>> = vec![];
            for d in 0..q {
                let mut script = vec![d];
                script.extend(stream(seed, h64(&(q, n)), d, 300));
                set_nt_draws(Some(script));
                let r = guard(|| {
                    let mut root = 0u64;
                    let ok = hu::try_minimal_primitive_root(degree, &m, &mut root);
                    (ok, root)
                });
                steps += 1;
                let r = match r {
                    Ok(r) => r,
                    Err(e) => {
                        set_nt_draws(None);
                        return CaseOut::fail(format!("nt:root:panic:{}", panic_class(&e)), format!("try_minimal_primitive_root({degree}, {q}) with first draw {d} returns"), e);
                    }
                };
                if prime {
                    if !r.0 || Some(r.1) != exp {
                        set_nt_draws(None);
                        return CaseOut::fail("nt:root:depends-on-draw", format!("minimal primitive {degree}-th root {:?} mod {q} for every draw (first draw {d})", exp), format!("{r:?}"));
                    }
                } else {
                    if r.0 && (r.1 == 0 || r.1 >= q || pow_mod(r.1, n as u64, q) != q - 1) {
                        set_nt_draws(None);
                        return CaseOut::fail("nt:root:not-a-root", format!("a value with root^{n} = -1 mod {q} (first draw {d})"), format!("{r:?}"));
                    }
                    let v = if r.0 { Some(r.1) } else { None };
                    if !results.contains(&v) {
                        results.push(v);
                    }
                }
            }
            // the table constructor used by the context, boundary draws
            if prime && n >= 2 {
                for d in [0u64, 1, 2, q - 1, q, u64::MAX] {
                    let mut script = vec![d];
                    script.extend(stream(seed, h64(&(q, n, 1)), d, 300));
                    set_nt_draws(Some(script));
                    let lg = n.trailing_zeros() as usize;
                    let r = guard(|| hu::NTTTables::new(lg, &m).map(|t| t.root()).map_err(|e| e.to_string()));
                    steps += 1;
                    if r != Ok(Ok(exp.unwrap())) {
                        set_nt_draws(None);
                        return CaseOut::fail("nt:table-root:depends-on-draw", format!("NTTTables::new({lg}, {q}).root() = {:?} (first draw {d})", exp), format!("{r:?}"));
                    }
                }
            }
            if !prime && n >= 2 {
                st.composite_pairs.fetch_add(1, Ordering::Relaxed);
                if results.len() > 1 {
                    st.composite_inconsistent.fetch_add(1, Ordering::Relaxed);
                }
            }
            classes.push((n, results.len()));
            n *= 2;
        }
        set_nt_draws(None);
        st.calls.fetch_add(steps, Ordering::Relaxed);
        if steps == 0 {
            return CaseOut::skip("no admissible degree");
        }
        return CaseOut::pass(prime, h64(&(prime, classes.len(), classes.iter().map(|c| c.1.min(3)).collect::<Vec<_>>())), steps);
    }
    // kind == "prime": every constant draw
    let trial = [2u64, 3, 5, 7, 11, 13];
    let small_factor = trial.iter().any(|&p| q % p == 0 && q != p);
    let mut liar_accepts = 0u64;
    let range = if q > 3 { q - 3 } else { 1 };
    for d in 0..range {
        set_nt_draws(Some(vec![d; 40]));
        let r = guard(|| hu::is_prime(&m));
        steps += 1;
        let r = match r {
            Ok(r) => r,
            Err(e) => {
                set_nt_draws(None);
                return CaseOut::fail(format!("nt:is_prime:panic:{}", panic_class(&e)), format!("is_prime({q}) with every draw = {d} returns"), e);
            }
        };
        if prime && !r {
            set_nt_draws(None);
            return CaseOut::fail("nt:is_prime:prime-rejected", format!("is_prime({q}) = true for every draw (all draws {d})"), "false");
        }
        if !prime && r {
            let a = 3 + d % (q - 3).max(1);
            let all_liars = !small_factor && q > 13 && spp(q, 2) && spp(q, a);
            if !all_liars {
                set_nt_draws(None);
                return CaseOut::fail("nt:is_prime:composite-accepted-despite-witness", format!("is_prime({q}) = false when base 2 or base {a} is a witness (all draws {d})"), "true");
            }
            liar_accepts += 1;
        }
    }
    set_nt_draws(None);
    st.calls.fetch_add(steps, Ordering::Relaxed);
    if liar_accepts > 0 {
        st.liar_accepts.fetch_add(liar_accepts, Ordering::Relaxed);
        st.liar_numbers.fetch_add(1, Ordering::Relaxed);
    }
    CaseOut::pass(prime || liar_accepts > 0, h64(&(prime, liar_accepts > 0)), steps)
}

// ---------------------------------------------------------------------------------------------
// sections
// ---------------------------------------------------------------------------------------------

pub fn sections(cfg: &RunCfg) -> Vec<Box<dyn AnySection>> {
    let seed = cfg.seed;
    let al = alpha(cfg);
    let mut v: Vec<Box<dyn AnySection>> = vec![];

    let mut dcases = vec![];
    for &n in al.degrees.iter().chain(STD_DEGREES.iter()).chain([512usize, 65536].iter()) {
        for sec in [0u16, 128, 192, 256] {
            dcases.push(DCase { n, sec });
        }
    }
    v.push(E1::new("defaults", "max_bit_count / bfv_default for every degree of the alphabet + 512, 1024..65536 x every security level", dcases.into_iter(), check_defaults));

    v.push(
        E1::new(
            "create",
            if cfg.thorough() {
                "CoeffModulus::create(N, sizes): N = 2..2^15 x every multiset of <= 4 sizes from {2..60}; calls with <= 3 sizes twice (different draws), reversed order, PlainModulus::batching; two lists repeated 8 times; invalid arguments; N = 2^16, 2^17 x pairs from {2,17,18,19,20,30,59,60}"
            } else {
                "CoeffModulus::create(N, sizes): N = 2..2^15 x every multiset of <= 2 sizes from {2..60} and of 3 or 4 sizes from {2,3,4,5,8,13,17,18,19,20,30,31,32,59,60}; calls with <= 3 sizes twice (different draws), reversed order, PlainModulus::batching; two lists repeated 8 times; invalid arguments; N = 2^16, 2^17 x pairs from {2,17,18,19,20,30,59,60}"
            },
            create_cases(cfg),
            move |c: &CCase| check_create(c, seed),
        )
        .deadline(Duration::from_secs(60)),
    );

    v.push(
        E1::new(
            "create_many",
            if cfg.thorough() {
                "CoeffModulus::create(N, sizes) with MANY primes: N = 2..2^15 x every size 2..60 x every count 5..30 of that one size; N x mixed lists (every 3 of {20,30,40,50,60} bits 9 times each interleaved; 31..60 bits once each; 17 x 60 + 13 x 59; 30/60 alternating; 51..60 three times each); every call twice under different draws"
            } else {
                "CoeffModulus::create(N, sizes) with MANY primes: N = 2..2^15 x size in {2,5,8,13,17,18,20,25,30,31,32,33,45,59,60} x count in {7,8,9,15,16,17,18,30} of that one size; N x mixed lists (4 triples of {20,30,40,50,60} bits 9 times each interleaved; 31..60 bits once each; 17 x 60 + 13 x 59; 30/60 alternating; 51..60 three times each); every call twice under different draws"
            },
            create_many_cases(cfg).into_iter(),
            move |c: &MCase| check_create_many(c, seed),
        )
        .deadline(Duration::from_secs(60)),
    );

    let ovf = Arc::new(AtomicU64::new(0));
    let (o1, o2) = (ovf.clone(), ovf.clone());
    v.push(Box::new(Noted {
        inner: E1::new(
            "create_plain",
            "CoeffModulus::create_with_plain_modulus(N, t, sizes): N = 2..2^15 x t in {2,3,4,17,255,257,65537,786433,2^20+7,2^40+15, 2^48+1, a 50-bit prime, a 60-bit prime} x every multiset of <= 2 sizes (quick: 13 sizes, thorough: 2..60)",
            create_plain_cases(cfg).into_iter(),
            move |c: &PCase| check_create_plain(c, seed, &o1),
        ),
        note: Box::new(move |rep| {
            rep.observe(format!(
                "create_plain: {} calls with lcm(2N, t) >= 2^64 were refused by 'attempt to multiply with overflow' (modulus.rs, factor *= ...): a refusal in this build profile; without overflow checks the factor wraps (e.g. N=32768, t=2^48+1 -> factor 65536) and the primes returned are = 1 mod 2N but not mod lcm(2N, t) — outside C13's clause (= 1 mod 2N), function is deprecated as buggy; not judged",
                o2.load(Ordering::Relaxed)
            ));
        }),
    }));

    v.push(E1::new(
        "is_prime",
        if cfg.thorough() { "Modulus::new(n).is_prime() vs sieve for ALL n < 2^24; windows 2^k +- 64 for k = 20..61; pseudoprime list" } else { "Modulus::new(n).is_prime() vs sieve for ALL n < 2^20; windows 2^k +- 64 for k = 20..61; pseudoprime list" },
        is_prime_cases(cfg).into_iter(),
        move |c: &SCase| check_is_prime(c, seed),
    ));

    let nb: u64 = if cfg.thorough() { 1 << 13 } else { 1 << 11 };
    let mut ncases = vec![];
    for q in 3..nb {
        if q % 2 == 1 {
            ncases.push(NCase { kind: "root".into(), q });
        }
        ncases.push(NCase { kind: "prime".into(), q });
    }
    let nst = Arc::new(NtStats::default());
    let (n1, n2) = (nst.clone(), nst.clone());
    v.push(Box::new(Noted {
        inner: E1::new(
            "nt_draws",
            &format!("every odd modulus q < {nb} x every power-of-two degree dividing q-1 x EVERY first draw 0..q of try_minimal_primitive_root; every n < {nb} x EVERY constant draw of is_prime"),
            ncases.into_iter(),
            move |c: &NCase| check_nt(c, seed, &n1),
        ),
        note: Box::new(move |rep| {
            let g = |a: &AtomicU64| a.load(Ordering::Relaxed);
            rep.observe(format!(
                "nt_draws: {} subject calls; composite (modulus, degree >= 4) pairs = 1 mod degree: {}, of which the result (root / failure) depends on the first draw: {} — not judged; composites declared prime when base 2 and the scripted base are both strong liars: {} numbers, {} (number, draw) pairs — exact Miller-Rabin behaviour, not judged",
                g(&n2.calls), g(&n2.composite_pairs), g(&n2.composite_inconsistent), g(&n2.liar_numbers), g(&n2.liar_accepts)
            ));
        }),
    }));
    let st = Arc::new(Stats::default());
    let (s1, s2) = (st.clone(), st.clone());
    v.push(Box::new(Noted {
        inner: E1::new(
            "validate_small",
            &format!(
                "scheme in {{None,BFV,BGV,CKKS}} x degree in {:?} x coefficient lists of length 0..{} over V={:?} (+ lists of length <= 2 containing 0, 1 or 2^61{}) x plain modulus in {:?} (CKKS: 0, 2, 17) x security in {{None,128,192,256}} x expand x special-prime",
                al.degrees,
                al.max_len,
                al.v,
                if al.max_len_long > al.max_len { format!(", + length {} over {:?}", al.max_len_long, al.v_long) } else { String::new() },
                al.t
            ),
            small_cases(&al),
            move |c: &VCase| check_validate(c, seed, &s1),
        )
        .deadline(Duration::from_secs(120)),
        note: Box::new(move |rep| s2.note(rep, "validate_small")),
    }));

    let st = Arc::new(Stats::default());
    let (s1, s2) = (st.clone(), st.clone());
    v.push(Box::new(Noted {
        inner: E1::new(
            "validate_std",
            &format!("bfv_default(N, level) for N in 1024..{} x level, as is and with the last prime one bit longer, used at degree N/2, N, 2N x scheme x plain modulus in {{0,2,65537}} x security x expand x special-prime", if cfg.thorough() { 32768 } else { 8192 }),
            std_cases(cfg).into_iter(),
            move |c: &VCase| check_validate(c, seed, &s1),
        )
        .deadline(Duration::from_secs(180)),
        note: Box::new(move |rep| s2.note(rep, "validate_std")),
    }));

    let st = Arc::new(Stats::default());
    let (s1, s2) = (st.clone(), st.clone());
    v.push(Box::new(Noted {
        inner: E1::new(
            "validate_long",
            if cfg.thorough() {
                "63 / 64 / 65 distinct primes (smallest primes = 1 mod 4 at N=2; largest 60-bit primes = 1 mod 8 at N=4) x scheme x plain modulus in {3,17,257} x security in {None,128} x expand x special-prime"
            } else {
                "63 / 64 / 65 distinct primes: smallest primes = 1 mod 4 at N=2 x scheme x plain modulus in {3,17,257} x expand x special-prime; largest 60-bit primes = 1 mod 8 at N=4 x {BFV t=3, CKKS} x {(no expand, no special), (expand, special)}; security in {None,128}"
            },
            long_cases(cfg).into_iter(),
            move |c: &VCase| check_validate(c, seed, &s1),
        )
        .deadline(Duration::from_secs(180)),
        note: Box::new(move |rep| s2.note(rep, "validate_long")),
    }));

    let st = Arc::new(Stats::default());
    let (s1, s2) = (st.clone(), st.clone());
    v.push(Box::new(Noted {
        inner: E1::new(
            "chain_many",
            if cfg.thorough() {
                "MANY primes at small degrees: N in {4,8,16,32,64} x family {2nd..31st largest 60-bit primes; 30 smallest primes; sizes 60,20,47,33,59,25,41,54,30,38 thrice} x EVERY chain length 1..30, N in {128,256,512} x 60-bit x EVERY length 1..30 and x {smallest; mixed} x lengths 1,2,7,8,9,15,16,17,18,30; x {BFV,BGV,CKKS} x plain modulus in {3, 31st smallest prime = 1 mod 2N, largest 60-bit prime = 1 mod 2N} x security {None,128} x expand x special-prime; every level: chain structure, all constants incl. RNS tool bases, ids"
            } else {
                "MANY primes at small degrees: N = 8 x family {2nd..31st largest 60-bit primes; 30 smallest primes} x EVERY chain length 1..30 (mixed sizes: lengths 1,2,7,8,9,15,16,17,18,30) x {BFV,CKKS} (BGV: lengths 1,2,7,8,9,15,16,17,18,30) x 3 plain moduli; N in {4,64} x {60-bit; smallest} x lengths 1,2,7,8,9,15,16,17,18,30, N = 256 x 60-bit x lengths 9,17; x {BFV,CKKS} x 2 plain moduli; security {None,128} x expand x special-prime; every level: chain structure, all constants incl. RNS tool bases, ids"
            },
            many_cases(cfg).into_iter(),
            move |c: &VCase| check_ext(c, seed, &s1, "chain_many"),
        )
        .batch(2)
        .deadline(Duration::from_secs(180)),
        note: Box::new(move |rep| s2.note(rep, "chain_many")),
    }));

    let st = Arc::new(Stats::default());
    let (s1, s2) = (st.clone(), st.clone());
    v.push(Box::new(Noted {
        inner: E1::new(
            "chain_big",
            if cfg.thorough() {
                "LARGE degrees: N in {1024,4096}: 60-bit and mixed-size primes x EVERY chain length 1..30; N = 8192: 60-bit x EVERY length 1..30; N = 16384: 60-bit x lengths 1..18,24,30; N in {2048,32768}: 60-bit x lengths 1,2,8,9,16,17,18,30; N in {2048,8192,16384,32768}: mixed sizes x lengths 9,17; N in {65536,131072}: 60-bit x lengths 1,2,9; x {BFV,CKKS} (BGV: N <= 4096 all, else lengths 9,17) x plain modulus in {smallest spare prime = 1 mod 2N, largest 60-bit prime = 1 mod 2N} x security {None,128}; + the real security table: for every N and every chain length 1..30 that admits it a chain whose product has EXACTLY the largest bit count Tc128 allows (security {128,192}) and one with a longer last prime (must be rejected); expand x special-prime; every level: chain structure, all constants incl. RNS tool bases, ids"
            } else {
                "LARGE degrees: N = 1024: 60-bit primes x lengths 1,2,8,9,10,16,17,18,30, mixed sizes x lengths 9,17; N in {4096,8192}: 60-bit x length 9; x {BFV,CKKS} (BGV: lengths 9,17) x plain modulus in {smallest spare prime = 1 mod 2N, largest 60-bit prime} x security {None,128}; + chains with EXACTLY the largest bit count Tc128 allows and one bit more at N = 1024 and (lengths <= 3) N = 4096; expand x special-prime; every level: chain structure, all constants incl. RNS tool bases, ids"
            },
            big_cases(cfg).into_iter(),
            move |c: &VCase| check_ext(c, seed, &s1, "chain_big"),
        )
        .batch(1)
        .deadline(Duration::from_secs(900)),
        note: {
            let cfg = cfg.clone();
            Box::new(move |rep| {
                s2.note(rep, "chain_big");
                let cases = big_cases(&cfg);
                let mut per_n = vec![];
                for &n in &BIG_DEGREES {
                    let exact: Vec<usize> = cases.iter().filter(|c| c.n == n && c.scheme == 2 && c.secs == [128, 192]).map(|c| c.q.len()).collect();
                    let over = cases.iter().filter(|c| c.n == n && c.scheme == 2 && c.secs == [128]).count();
                    if let (Some(lo), Some(hi)) = (exact.iter().min(), exact.iter().max()) {
                        per_n.push(format!("N={n}: {} bits, {} chain lengths {lo}..{hi} ({over} with a longer last prime)", std_max_bits(n, 128), exact.len()));
                    }
                }
                rep.observe(format!("chain_big: chains whose product has exactly the largest Tc128 bit count: {}", per_n.join("; ")));
            })
        },
    }));

    v.push(Box::new(IdsSection { cfg: cfg.clone() }));

    v
}
