//! C05 — not built yet.
use crate::engine::*;

pub fn describe(_rep: &Report) {}

pub fn sections(_cfg: &RunCfg) -> Vec<Box<dyn AnySection>> {
    vec![]
}
