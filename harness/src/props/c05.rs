//! C05 — moving down the modulus chain terminates, hits the target, keeps the message.
//!
//! E1 sections (one case = ONE (scheme, chain, size, preparation, source level, target, API form, CKKS scale class);
//! the check loops over the message alphabet inside the case):
//!  * `ct_mod_switch`    mod_switch_to_next{,_inplace,_new}, mod_switch_to{,_inplace,_new} on ciphertexts of size 2..4
//!  * `ct_rescale`       rescale_to_next{,_inplace,_new}, rescale_to{,_inplace,_new} (CKKS: accepted; BFV/BGV: refused)
//!  * `plain_mod_switch` mod_switch_to_next_plain{,_inplace,_new}, mod_switch_plain_to{,_inplace,_new} on NTT-form plaintexts
//!
//! Production-size sections (one case = (parameter set, object kind, switch / rescale, ciphertext size, CKKS scale per source
//! level, message family[, source level]); the check builds the context once and loops over every source level, every
//! target and the three API forms inside; same oracle):
//!  * `long`  key levels of 2..19 coefficient primes (data levels of 1..18 primes) at N = 4 / 8, ciphertext sizes 2..6,
//!            primes from the middle of their size range (f64 scale book-keeping is not nearly exact there)
//!  * `big`   N = 16..1024 (thorough ..8192) with chains of 3..4 primes, plus N >= 1024 with 9..18 primes; structured messages,
//!            all N coefficients / N/2 slots of every result compared
//!
//! Oracle per case: the call returns (watchdog); downward targets are accepted, end on the requested level, are
//! byte-identical (data + every metadata field) to the composition of single `*_to_next_new` steps (ciphertexts) resp.
//! to the object created directly at the target level (plaintexts) — which makes the three API forms mutually
//! byte-identical —, carry the predicted scale (exact f64 sequence) / BGV correction factor, are valid for the
//! context and decrypt to the reference message (exact in BFV/BGV, within an a-priori bound in CKKS) whenever the
//! a-priori worst-case noise calculus says decryption must be correct. Equal targets must be the identity (or be
//! refused); upward / key-level / foreign / past-the-end targets and rescaling outside CKKS must be refused.

use crate::engine::*;
use crate::he::{self, ct_meta, Kit, ParamSpec, Scheme};
use crate::refmodel::bigu::{inv_mod_u64, mul_mod, BigU};
use crate::refmodel::ntt::fast_ntt;
use crate::refmodel::poly::{naive_ntt, pmul};
use heathcliff::{CKKSEncoder, Ciphertext, ParmsID, Plaintext, ValCheck, PARMS_ID_ZERO};
use num_complex::Complex;
use serde::{Deserialize, Serialize};
use std::time::Duration;

type C64 = Complex<f64>;

pub fn describe(rep: &Report) {
    rep.set_rule(
        "case = (parameter set with explicit primes, object kind, operation, API form, ciphertext size, preparation order, source level, \
         target, CKKS scale class); every ordered (source, target) pair of every chain incl. equal / upward / key-level / zero / foreign ids; \
         each case loops over 3 message tuples. non-trivial = the case's verdict exercised the property: a downward move whose \
         message was compared under a valid a-priori noise bound (CKKS: bound <= 2^-4), an identity move, or a demanded refusal. \
         Sections `long` / `big`: case = (parameter set, object kind, switch or rescale, ciphertext size 2..6, CKKS scale per source level, message family, \
         optionally one source level); the check loops over every source level x (next, every level, key / zero / foreign id) x 3 API forms.",
    );
    rep.assume("a-priori noise calculus (worst case, expansion factor N, every term doubled): decryption is only compared when it says the result must decrypt correctly; otherwise only termination, level, metadata, validity and byte-identity of the forms are judged");
    rep.assume("source ciphertexts of size 3 and 4 are produced by real multiplications without relinearisation, either at the first level followed by single-level switches, or after switching the fresh operands down (both orders are enumerated)");
    rep.assume("an equal target (source level == target level) may be the identity or be refused (the statement does not say); an accepted equal target must return the operand unchanged");
    rep.assume("CKKS mod_switch with a scale that no longer fits a level on the way must be refused: computing it cannot preserve the message");
    rep.assume("decryption, encoding/decoding and the forward NTT root tables of the library are used as given (C01, C12, C09)");
    rep.assume("parameter values: N in {4,8} (16 thorough), the listed prime-size patterns, t in {17, 64, t > q_0}; not all primes / plain moduli");
    rep.assume("sections long / big: ciphertexts of size 2..6 are products of size-1 fresh encryptions (BFV / BGV: multiplied on the first level and switched down level by level; CKKS: encoded, encrypted and multiplied on the source level); the parameter sets are valid by construction (distinct NTT-friendly primes of 36..59 bits, t coprime and smaller), so a context / key generation that fails for them is reported as a violation (nothing could be switched) instead of being skipped");
    rep.assume("sections long / big: messages are structured families (generic dense fill x sparse factors, boundary monomials, constant / alternating), not all plaintexts; every coefficient / slot of every result is compared");
}

// ---------------------------------------------------------------------------------------------
// case
// ---------------------------------------------------------------------------------------------

#[derive(Serialize, Deserialize, Clone, Copy, Debug, PartialEq, Eq, Hash)]
pub enum Obj {
    Ct,
    Pt,
}
#[derive(Serialize, Deserialize, Clone, Copy, Debug, PartialEq, Eq, Hash)]
pub enum Op {
    MsNext,
    MsTo,
    RsNext,
    RsTo,
}
#[derive(Serialize, Deserialize, Clone, Copy, Debug, PartialEq, Eq, Hash)]
pub enum Form {
    Inplace,
    Dest,
    New,
}
#[derive(Serialize, Deserialize, Clone, Copy, Debug, PartialEq, Eq, Hash)]
pub enum Prep {
    /// multiply at the first level, then switch the product down level by level
    MulThenDown,
    /// bring the fresh operands to the source level first (CKKS: encode there), multiply there
    DownThenMul,
}
#[derive(Serialize, Deserialize, Clone, Copy, Debug, PartialEq, Eq, Hash)]
pub enum Tgt {
    /// the *_to_next entry points have no target argument
    Next,
    Level(usize),
    Key,
    Zero,
    Foreign,
}

#[derive(Serialize, Deserialize, Clone, Debug)]
pub struct Case {
    pub spec: ParamSpec,
    pub obj: Obj,
    pub op: Op,
    pub form: Form,
    /// ciphertext size (2..4); 0 for plaintext cases
    pub size: usize,
    pub prep: Prep,
    /// source data level (0 = first)
    pub src: usize,
    pub tgt: Tgt,
    /// CKKS: log2 of the scale of the fresh encodings (0 otherwise)
    pub scale_log2: u32,
}

fn family(obj: Obj, op: Op) -> &'static str {
    match (obj, op) {
        (Obj::Ct, Op::MsNext) => "mod_switch_to_next",
        (Obj::Ct, Op::MsTo) => "mod_switch_to",
        (Obj::Ct, Op::RsNext) => "rescale_to_next",
        (Obj::Ct, Op::RsTo) => "rescale_to",
        (Obj::Pt, Op::MsNext) => "mod_switch_to_next_plain",
        (Obj::Pt, Op::MsTo) => "mod_switch_plain_to",
        (Obj::Pt, _) => "rescale_plain(n/a)",
    }
}

fn api_name(obj: Obj, op: Op, form: Form) -> String {
    let f = family(obj, op);
    match form {
        Form::Dest => f.to_string(),
        Form::Inplace => format!("{f}_inplace"),
        Form::New => format!("{f}_new"),
    }
}

/// signature of a hang: the entry-point family and whether the target differs from the source
pub fn hang_key(c: &Case) -> String {
    let rel = match c.tgt {
        Tgt::Next => "next",
        Tgt::Level(j) if j == c.src => "src==dst",
        Tgt::Key if c.src == 0 && (c.spec.q.len() == 1 || c.spec.special_enc) => "src==dst",
        _ => "src!=dst",
    };
    format!("{}:{}:nontermination", family(c.obj, c.op), rel)
}

fn foreign_id() -> ParmsID {
    let mut f = PARMS_ID_ZERO;
    for (i, w) in f.iter_mut().enumerate() {
        *w = 0x0123_4567_89ab_cdefu64.rotate_left(13 * i as u32) ^ (i as u64 + 1);
    }
    f
}

// ---------------------------------------------------------------------------------------------
// chain model
// ---------------------------------------------------------------------------------------------

struct Lv {
    id: ParmsID,
    q: Vec<u64>,
    bits: usize,
    qf: f64,
}

fn chain_levels(kit: &Kit) -> Result<Vec<Lv>, String> {
    let ids = kit.levels();
    let mut v: Vec<Lv> = vec![];
    for id in ids {
        let q = kit.moduli_at(&id);
        let prod = BigU::product(&q);
        if let Some(prev) = v.last() {
            if prev.q[..prev.q.len() - 1] != q[..] {
                return Err(format!("level {:?} does not drop exactly the last prime of {:?}", q, prev.q));
            }
        }
        v.push(Lv { id, bits: prod.bits(), qf: prod.to_f64(), q });
    }
    // model of the chain from the specification alone
    let spec = &kit.spec;
    let first: Vec<u64> = if spec.q.len() == 1 || spec.special_enc { spec.q.clone() } else { spec.q[..spec.q.len() - 1].to_vec() };
    if v.is_empty() || v[0].q != first {
        return Err(format!("first level {:?} is not {:?}", v.first().map(|l| l.q.clone()), first));
    }
    Ok(v)
}

#[derive(Clone, Debug, PartialEq)]
enum Expect {
    /// accepted; result on level `to` (> src)
    Down(usize),
    /// target is the source level
    Same,
    Refuse(&'static str),
}

fn expect(c: &Case, lv: &[Lv], key_id: &ParmsID) -> Expect {
    let last = lv.len() - 1;
    let scheme = c.spec.scheme;
    let rescale = matches!(c.op, Op::RsNext | Op::RsTo);
    if rescale && scheme != Scheme::CKKS {
        return Expect::Refuse("rescale-outside-ckks");
    }
    match c.tgt {
        Tgt::Next => {
            if c.src == last {
                Expect::Refuse("past-the-end")
            } else {
                Expect::Down(c.src + 1)
            }
        }
        Tgt::Level(j) => {
            if j > c.src {
                Expect::Down(j)
            } else if j == c.src {
                Expect::Same
            } else {
                Expect::Refuse("upward")
            }
        }
        Tgt::Key => {
            if *key_id == lv[c.src].id {
                Expect::Same
            } else {
                Expect::Refuse("upward-key-level")
            }
        }
        Tgt::Zero => Expect::Refuse("zero-id"),
        Tgt::Foreign => Expect::Refuse("foreign-id"),
    }
}

fn target_id(c: &Case, lv: &[Lv], key_id: &ParmsID) -> ParmsID {
    match c.tgt {
        Tgt::Next => PARMS_ID_ZERO,
        Tgt::Level(j) => lv[j].id,
        Tgt::Key => *key_id,
        Tgt::Zero => PARMS_ID_ZERO,
        Tgt::Foreign => foreign_id(),
    }
}

/// the library's closeness test for scales (documented contract of mod_switch in CKKS): floor(log2 scale) < bit count of q_level
fn scale_fits(scale: f64, lv: &Lv) -> bool {
    !(scale <= 0.0 || scale.log2() as isize >= lv.bits as isize)
}

// ---------------------------------------------------------------------------------------------
// a-priori noise calculus (all bounds generous; every formula already contains a factor 2)
// ---------------------------------------------------------------------------------------------

/// sum_{i=0..=j} N^i: bound on || sum_i r_i s^i || for ||r_i|| <= 1 and a ternary secret
fn a_j(n: usize, j: usize) -> f64 {
    (0..=j).map(|i| (n as f64).powi(i as i32)).sum()
}

#[derive(Clone, Copy, Debug)]
struct Nz {
    /// BFV: invariant noise ||v||; BGV: bound on the centred phase ||c(s)||; CKKS: bound on the error part of the phase
    v: f64,
    /// CKKS: bound on the message part of the phase
    mn: f64,
    /// CKKS: scale (exact f64 book-keeping)
    scale: f64,
    /// BGV: correction factor
    cf: u64,
    /// polynomial count - 1
    j: usize,
    /// every intermediate state satisfied the validity condition of the calculus
    ok: bool,
}

struct Model {
    scheme: Scheme,
    n: usize,
    t: u64,
}

impl Model {
    fn e0(&self) -> f64 {
        // u*e_pk + e_1 + e_2*s (<= 21(2N+1)), rounding of the special-prime division ((1+N)/2), encoding / scaling rounding
        2.0 * (21.0 * (2.0 * self.n as f64 + 1.0) + (1.0 + self.n as f64) / 2.0 + 2.0)
    }
    fn valid(&self, z: &Nz, lv: &Lv) -> bool {
        match self.scheme {
            Scheme::BFV => z.v < 0.125,
            Scheme::BGV => z.v < lv.qf / 4.0,
            Scheme::CKKS => z.v + z.mn < lv.qf / 4.0,
        }
    }
    /// fresh public-key encryption on level `lv`; zmax = max |slot| (CKKS)
    fn fresh(&self, lv: &Lv, scale: f64, zmax: f64) -> Nz {
        let t = self.t as f64;
        let mut z = Nz { v: 0.0, mn: 0.0, scale: 1.0, cf: 1, j: 1, ok: true };
        match self.scheme {
            Scheme::BFV => z.v = 2.0 * t * (self.e0() + t) / lv.qf,
            Scheme::BGV => z.v = 2.0 * (t * self.e0() + t + (t + 1.0) * (1.0 + self.n as f64)),
            Scheme::CKKS => {
                z.v = self.e0() + 1.0;
                z.mn = scale * zmax + 1.0;
                z.scale = scale;
            }
        }
        z.ok = self.valid(&z, lv);
        z
    }
    /// one mod_switch_to_next step from `from` to `to`
    fn switch(&self, a: &Nz, from: &Lv, to: &Lv) -> Nz {
        let p = *from.q.last().unwrap();
        let t = self.t as f64;
        let mut z = *a;
        match self.scheme {
            Scheme::BFV => z.v = a.v + t * a_j(self.n, a.j) / to.qf,
            Scheme::BGV => {
                z.v = a.v / p as f64 + (t + 1.0) * a_j(self.n, a.j);
                z.cf = match inv_mod_u64(p % self.t, self.t) {
                    Some(i) => mul_mod(a.cf, i, self.t),
                    None => 0,
                };
            }
            Scheme::CKKS => {}
        }
        z.ok = a.ok && self.valid(&z, to);
        z
    }
    /// one rescale_to_next step (CKKS)
    fn rescale(&self, a: &Nz, from: &Lv, to: &Lv) -> Nz {
        let p = *from.q.last().unwrap() as f64;
        let mut z = *a;
        z.v = a.v / p + a_j(self.n, a.j);
        z.mn = a.mn / p + 1.0;
        z.scale = a.scale / p;
        z.ok = a.ok && self.valid(&z, to);
        z
    }
    fn mul(&self, a: &Nz, b: &Nz, lv: &Lv) -> Nz {
        let n = self.n as f64;
        let t = self.t as f64;
        let mut z = *a;
        z.j = a.j + b.j;
        match self.scheme {
            Scheme::BFV => {
                let rho = 4.0 * (lv.q.len() as f64 + 2.0);
                z.v = t * n * (a_j(self.n, a.j) / 2.0 + 3.0) * b.v + t * n * (a_j(self.n, b.j) / 2.0 + 3.0) * a.v + t * rho * a_j(self.n, z.j) / lv.qf;
            }
            Scheme::BGV => {
                z.v = n * a.v * b.v;
                z.cf = mul_mod(a.cf, b.cf, self.t);
            }
            Scheme::CKKS => {
                z.v = n * (a.mn * b.v + b.mn * a.v + a.v * b.v);
                z.mn = n * a.mn * b.mn;
                z.scale = a.scale * b.scale;
            }
        }
        z.ok = a.ok && b.ok && self.valid(&z, lv);
        z
    }
}

// ---------------------------------------------------------------------------------------------
// messages
// ---------------------------------------------------------------------------------------------

const N_MSG: usize = 3;

fn exact_messages(idx: usize, n: usize, t: u64, seed: u64) -> Vec<Vec<u64>> {
    match idx {
        0 => (0..3).map(|k| (0..n).map(|i| h64(&(seed, "c05", k, i)) % t).collect()).collect(),
        1 => {
            let mut a = vec![0u64; n];
            a[n - 1] = t - 1;
            let mut b = vec![0u64; n];
            b[1] = 1;
            let mut c = vec![0u64; n];
            c[0] = t - 1;
            c[n / 2] = t / 2;
            vec![a, b, c]
        }
        _ => vec![vec![1; n], vec![t - 1; n], (0..n).map(|i| if i % 2 == 0 { t / 2 } else { (t + 1) / 2 % t }).collect()],
    }
}

fn ckks_messages(idx: usize, slots: usize, seed: u64) -> Vec<Vec<C64>> {
    let c = |re: f64, im: f64| C64::new(re, im);
    let full: Vec<Vec<C64>> = match idx {
        0 => vec![
            vec![c(1.0, 0.0), c(-1.5, 0.0), c(0.5, 0.5), c(0.0, -1.0), c(1.25, -0.25), c(-0.75, 1.0), c(0.0, 0.0), c(1.0, 1.0)],
            vec![c(0.75, 0.0), c(1.0, 0.0), c(-1.0, 0.5), c(0.0, 1.25), c(-0.5, -0.5), c(1.5, 0.0), c(1.0, 0.0), c(0.0, -1.0)],
            vec![c(-1.0, 0.0), c(0.5, 0.0), c(0.0, 1.0), c(1.0, 0.0), c(1.0, 1.0), c(-1.0, 0.25), c(0.5, 0.5), c(1.5, 0.0)],
        ],
        1 => vec![
            vec![c(1.0, 0.0), c(0.0, 0.0), c(0.0, 0.0), c(0.0, 0.0), c(0.0, 0.0), c(0.0, 0.0), c(0.0, 0.0), c(0.0, 0.0)],
            vec![c(0.0, 1.0), c(1.0, 0.0), c(1.0, 0.0), c(1.0, 0.0), c(1.0, 0.0), c(1.0, 0.0), c(1.0, 0.0), c(1.0, 0.0)],
            vec![c(-1.5, 0.0), c(1.0, 0.0), c(1.0, 0.0), c(1.0, 0.0), c(1.0, 0.0), c(1.0, 0.0), c(1.0, 0.0), c(1.0, 0.0)],
        ],
        _ => (0..3)
            .map(|k| {
                (0..8)
                    .map(|i| {
                        let f = |tag: u8| (h64(&(seed, "c05z", k, i, tag)) % 3001) as f64 / 1000.0 - 1.5;
                        c(f(0), f(1))
                    })
                    .collect()
            })
            .collect(),
    };
    full.into_iter()
        .map(|v| {
            let mut w: Vec<C64> = v.into_iter().cycle().take(slots).collect();
            w.truncate(slots);
            w
        })
        .collect()
}

fn zmax(v: &[C64]) -> f64 {
    v.iter().map(|z| z.norm()).fold(0.0, f64::max)
}

// ---------------------------------------------------------------------------------------------
// helpers
// ---------------------------------------------------------------------------------------------

fn ct_diff(a: &Ciphertext, b: &Ciphertext) -> Option<String> {
    if a.parms_id() != b.parms_id() {
        return Some("parms_id".into());
    }
    if a.size() != b.size() || a.coeff_modulus_size() != b.coeff_modulus_size() || a.poly_modulus_degree() != b.poly_modulus_degree() {
        return Some("shape".into());
    }
    if a.is_ntt_form() != b.is_ntt_form() {
        return Some("is_ntt_form".into());
    }
    if a.scale().to_bits() != b.scale().to_bits() {
        return Some("scale".into());
    }
    if a.correction_factor() != b.correction_factor() {
        return Some("correction_factor".into());
    }
    if a.data() != b.data() {
        return Some("data".into());
    }
    None
}

fn pt_diff(a: &Plaintext, b: &Plaintext) -> Option<String> {
    if a.parms_id() != b.parms_id() {
        return Some("parms_id".into());
    }
    if a.coeff_count() != b.coeff_count() {
        return Some("coeff_count".into());
    }
    if a.scale().to_bits() != b.scale().to_bits() {
        return Some("scale".into());
    }
    if a.data() != b.data() {
        return Some("data".into());
    }
    None
}

fn pt_meta(p: &Plaintext) -> String {
    format!("coeff_count={} len={} scale={:e} ntt={} id={:x?}", p.coeff_count(), p.data().len(), p.scale(), p.is_ntt_form(), &p.parms_id()[..1])
}

/// result of one API call; for the in-place forms also whether a REFUSED call left its operand changed (observed, not judged)
struct Called<T> {
    res: Result<T, String>,
    clobbered: Option<bool>,
}

fn call_ct(kit: &Kit, op: Op, form: Form, src: &Ciphertext, tid: &ParmsID, junk: &Ciphertext) -> Called<Ciphertext> {
    let ev = &kit.eval;
    match form {
        Form::Inplace => {
            let mut x = src.clone();
            let r = guard(|| match op {
                Op::MsNext => ev.mod_switch_to_next_inplace(&mut x),
                Op::MsTo => ev.mod_switch_to_inplace(&mut x, tid),
                Op::RsNext => ev.rescale_to_next_inplace(&mut x),
                Op::RsTo => ev.rescale_to_inplace(&mut x, tid),
            });
            match r {
                Ok(()) => Called { res: Ok(x), clobbered: None },
                Err(p) => Called { res: Err(p), clobbered: Some(ct_diff(&x, src).is_some()) },
            }
        }
        Form::Dest => {
            let mut d = junk.clone();
            let r = guard(|| match op {
                Op::MsNext => ev.mod_switch_to_next(src, &mut d),
                Op::MsTo => ev.mod_switch_to(src, tid, &mut d),
                Op::RsNext => ev.rescale_to_next(src, &mut d),
                Op::RsTo => ev.rescale_to(src, tid, &mut d),
            });
            Called { res: r.map(|_| d), clobbered: None }
        }
        Form::New => Called {
            res: guard(|| match op {
                Op::MsNext => ev.mod_switch_to_next_new(src),
                Op::MsTo => ev.mod_switch_to_new(src, tid),
                Op::RsNext => ev.rescale_to_next_new(src),
                Op::RsTo => ev.rescale_to_new(src, tid),
            }),
            clobbered: None,
        },
    }
}

fn call_pt(kit: &Kit, op: Op, form: Form, src: &Plaintext, tid: &ParmsID, junk: &Plaintext) -> Called<Plaintext> {
    let ev = &kit.eval;
    assert!(matches!(op, Op::MsNext | Op::MsTo), "harness: no rescale for plaintexts");
    match form {
        Form::Inplace => {
            let mut x = src.clone();
            let r = guard(|| match op {
                Op::MsNext => ev.mod_switch_to_next_plain_inplace(&mut x),
                _ => ev.mod_switch_plain_to_inplace(&mut x, tid),
            });
            match r {
                Ok(()) => Called { res: Ok(x), clobbered: None },
                Err(p) => Called { res: Err(p), clobbered: Some(pt_diff(&x, src).is_some()) },
            }
        }
        Form::Dest => {
            let mut d = junk.clone();
            let r = guard(|| match op {
                Op::MsNext => ev.mod_switch_to_next_plain(src, &mut d),
                _ => ev.mod_switch_plain_to(src, tid, &mut d),
            });
            Called { res: r.map(|_| d), clobbered: None }
        }
        Form::New => Called {
            res: guard(|| match op {
                Op::MsNext => ev.mod_switch_to_next_plain_new(src),
                _ => ev.mod_switch_plain_to_new(src, tid),
            }),
            clobbered: None,
        },
    }
}

struct Ctxt<'a> {
    c: &'a Case,
    sec: &'static str,
    api: String,
}

impl Ctxt<'_> {
    fn key(&self, class: &str, what: &str) -> String {
        format!("{}:{}:{:?}:{}:{}", self.sec, self.api, self.c.spec.scheme, class, what)
    }
    fn setup_key(&self, step: &str, what: &str) -> String {
        format!("{}:setup:{:?}:{}:{}", self.sec, self.c.spec.scheme, step, what)
    }
}

fn rel_class(e: &Expect, src: usize) -> String {
    match e {
        Expect::Down(t) if *t == src + 1 => "down1".into(),
        Expect::Down(_) => "downN".into(),
        Expect::Same => "same".into(),
        Expect::Refuse(r) => (*r).into(),
    }
}

// ---------------------------------------------------------------------------------------------
// ciphertext cases
// ---------------------------------------------------------------------------------------------

/// source ciphertext of the case for one message tuple, with its model state, the junk destination and
/// the reference message
struct Source {
    ct: Ciphertext,
    nz: Nz,
    junk: Ciphertext,
    exact: Vec<u64>,
    slots: Vec<C64>,
}

fn build_source(cx: &Ctxt, kit: &Kit, enc: Option<&CKKSEncoder>, lv: &[Lv], model: &Model, midx: usize, seed: u64) -> Result<Source, CaseOut> {
    let c = cx.c;
    let scheme = c.spec.scheme;
    let k = c.size;
    let n = c.spec.n;
    let s = c.src;
    let setup_panic = |step: &str, p: String| CaseOut::fail(cx.setup_key(step, &format!("panic:{}", panic_class(&p))), format!("{step} succeeds on valid operands"), p);
    let scale = (2.0f64).powi(c.scale_log2 as i32);

    // fresh operands
    let mut fresh: Vec<Ciphertext> = vec![];
    let mut nzs: Vec<Nz> = vec![];
    let mut exact = vec![];
    let mut slots = vec![];
    let enc_level = if scheme == Scheme::CKKS && c.prep == Prep::DownThenMul { s } else { 0 };
    if scheme == Scheme::CKKS {
        let ms = ckks_messages(midx, n / 2, seed);
        let mut prod: Vec<C64> = vec![C64::new(1.0, 0.0); n / 2];
        for m in ms.iter().take(k - 1) {
            let pt = guard(|| enc.unwrap().encode_c64_array_new(m, Some(lv[enc_level].id), scale)).map_err(|p| setup_panic("encode", p))?;
            let ct = guard(|| kit.enc.encrypt_new(&pt)).map_err(|p| setup_panic("encrypt", p))?;
            fresh.push(ct);
            nzs.push(model.fresh(&lv[enc_level], scale, zmax(m)));
            for (a, b) in prod.iter_mut().zip(m) {
                *a *= b;
            }
        }
        slots = prod;
    } else {
        let ms = exact_messages(midx, n, c.spec.t, seed);
        let mut prod: Vec<u64> = {
            let mut one = vec![0u64; n];
            one[0] = 1;
            one
        };
        for m in ms.iter().take(k - 1) {
            let pt = kit.plain(m);
            let ct = guard(|| kit.enc.encrypt_new(&pt)).map_err(|p| setup_panic("encrypt", p))?;
            fresh.push(ct);
            nzs.push(model.fresh(&lv[0], 1.0, 0.0));
            prod = pmul(&prod, m, c.spec.t);
        }
        exact = prod;
    }
    let junk = fresh[0].clone();

    // the destination handed to the destination-argument forms: one of several buffers that already hold OTHER valid ciphertexts
    // (flipped representation, size 3 / 5, next level, last level) or a fresh first-level one, chosen by the case
    let junk = {
        let pool = crate::he::dirty_destinations(&kit);
        let k = (h64(&serde_json::to_string(c).unwrap_or_default()) % (pool.len() as u64 + 1)) as usize;
        if k < pool.len() { pool[k].clone() } else { junk }
    };

    let down = |ct: &Ciphertext, nz: &Nz, from: usize, to: usize| -> Result<(Ciphertext, Nz), CaseOut> {
        let mut ct = ct.clone();
        let mut nz = *nz;
        for l in from..to {
            ct = guard(|| kit.eval.mod_switch_to_next_new(&ct)).map_err(|p| setup_panic("mod_switch_to_next_new", p))?;
            nz = model.switch(&nz, &lv[l], &lv[l + 1]);
        }
        Ok((ct, nz))
    };
    let mul_all = |cts: &[Ciphertext], nzs: &[Nz], level: usize| -> Result<(Ciphertext, Nz), CaseOut> {
        let mut acc = cts[0].clone();
        let mut nz = nzs[0];
        for (ct, z) in cts.iter().zip(nzs).skip(1) {
            acc = guard(|| kit.eval.multiply_new(&acc, ct)).map_err(|p| setup_panic("multiply_new", p))?;
            nz = model.mul(&nz, z, &lv[level]);
        }
        Ok((acc, nz))
    };

    let (ct, nz) = match c.prep {
        Prep::MulThenDown => {
            let (p, z) = mul_all(&fresh, &nzs, 0)?;
            down(&p, &z, 0, s)?
        }
        Prep::DownThenMul => {
            let mut cts = vec![];
            let mut zs = vec![];
            for (ct, z) in fresh.iter().zip(&nzs) {
                let (a, b) = down(ct, z, enc_level, s)?;
                cts.push(a);
                zs.push(b);
            }
            mul_all(&cts, &zs, s)?
        }
    };
    if *ct.parms_id() != lv[s].id || ct.size() != k {
        return Err(CaseOut::fail(
            cx.setup_key("source", "wrong-level-or-size"),
            format!("source of size {k} on level {s}"),
            format!("{} level-match={}", ct_meta(&ct), *ct.parms_id() == lv[s].id),
        ));
    }
    Ok(Source { ct, nz, junk, exact, slots })
}

/// compares the decryption of `ct` with the reference message; Ok(Some(err)) = judged (CKKS: max error), Ok(None) = bound not met
fn judge_message(cx: &Ctxt, kit: &Kit, enc: Option<&CKKSEncoder>, ct: &Ciphertext, nz: &Nz, src: &Source, stage: &str) -> Result<Option<f64>, CaseOut> {
    if !nz.ok {
        return Ok(None);
    }
    let scheme = cx.c.spec.scheme;
    let n = cx.c.spec.n as f64;
    let key = |what: &str| if stage == "source" { cx.setup_key("source", what) } else { cx.key(stage, what) };
    match scheme {
        Scheme::BFV | Scheme::BGV => match guard(|| kit.dec_coeffs(ct)) {
            Err(p) => Err(CaseOut::fail(key(&format!("decrypt-panic:{}", panic_class(&p))), "result decrypts", p)),
            Ok(d) => {
                if d != src.exact {
                    Err(CaseOut::fail(
                        key("wrong-message"),
                        format!("{:?} (a-priori noise {:.3e}, must decrypt exactly)", src.exact, nz.v),
                        format!("{:?}; {}", d, ct_meta(ct)),
                    ))
                } else {
                    Ok(Some(0.0))
                }
            }
        },
        Scheme::CKKS => {
            let r = guard(|| enc.unwrap().decode_new(&kit.dec.decrypt_new(ct)));
            match r {
                Err(p) => Err(CaseOut::fail(key(&format!("decrypt-panic:{}", panic_class(&p))), "result decrypts and decodes", p)),
                Ok(d) => {
                    let zm = zmax(&src.slots);
                    let bound = n * nz.v / nz.scale + (2.0f64).powi(-30) * (1.0 + zm);
                    let err = d.iter().zip(&src.slots).map(|(a, b)| (a - b).norm()).fold(0.0, f64::max);
                    if !(err <= bound) {
                        Err(CaseOut::fail(
                            key("wrong-message"),
                            format!("{:?} within {:.3e}", src.slots, bound),
                            format!("{:?} (error {:.3e}); {}", d, err, ct_meta(ct)),
                        ))
                    } else {
                        Ok(Some(bound))
                    }
                }
            }
        }
    }
}

fn run_ct(c: &Case, seed: u64, sec: &'static str) -> CaseOut {
    he::env_real(seed, h64(&serde_json::to_string(c).unwrap_or_default()));
    let cx = Ctxt { c, sec, api: api_name(c.obj, c.op, c.form) };
    let kit = match guard(|| Kit::new(&c.spec)) {
        Ok(Ok(k)) => k,
        Ok(Err(e)) => return CaseOut::skip(&format!("library rejects the parameter set: {e}")),
        Err(_) => return CaseOut::skip("library rejects the parameter set (panic)"),
    };
    let lv = match chain_levels(&kit) {
        Ok(l) => l,
        Err(e) => return CaseOut::fail(cx.setup_key("chain", "malformed"), "each level drops exactly the last prime of the previous one", e),
    };
    if c.src >= lv.len() || matches!(c.tgt, Tgt::Level(j) if j >= lv.len()) {
        return CaseOut::skip("level outside the chain the library built");
    }
    let scheme = c.spec.scheme;
    let enc = if scheme == Scheme::CKKS { Some(CKKSEncoder::new(kit.ctx.clone())) } else { None };
    let model = Model { scheme, n: c.spec.n, t: c.spec.t.max(1) };
    let key_id = *kit.ctx.key_parms_id();
    let exp = expect(c, &lv, &key_id);
    let tid = target_id(c, &lv, &key_id);
    let rel = rel_class(&exp, c.src);
    let rescale = matches!(c.op, Op::RsNext | Op::RsTo);

    let mut steps = 0u64;
    let mut meaningful = 0u32;
    let mut obs_class = String::new();
    for midx in 0..N_MSG {
        let src = match build_source(&cx, &kit, enc.as_ref(), &lv, &model, midx, seed) {
            Ok(s) => s,
            Err(out) => return out,
        };
        // the source itself must carry the message (otherwise nothing below can be attributed to the switch)
        if let Err(out) = judge_message(&cx, &kit, enc.as_ref(), &src.ct, &src.nz, &src, "source") {
            return out;
        }
        if scheme == Scheme::BGV && src.ct.correction_factor() != src.nz.cf {
            return CaseOut::fail(cx.setup_key("source", "correction-factor"), format!("{}", src.nz.cf), format!("{}", src.ct.correction_factor()));
        }
        if scheme == Scheme::CKKS && src.ct.scale().to_bits() != src.nz.scale.to_bits() {
            return CaseOut::fail(cx.setup_key("source", "scale"), format!("{:e}", src.nz.scale), format!("{:e}", src.ct.scale()));
        }

        let called = call_ct(&kit, c.op, c.form, &src.ct, &tid, &src.junk);
        let clob = match called.clobbered {
            Some(true) => ":operand-changed",
            Some(false) => ":operand-intact",
            None => "",
        };
        let res = called.res;
        steps += 1;
        match &exp {
            Expect::Refuse(why) => match res {
                Err(p) => obs_class = format!("refused:{}{clob}", panic_class(&p)),
                Ok(r) => {
                    return CaseOut::fail(
                        cx.key(&rel, "accepted"),
                        format!("refusal ({why}); source level {} of {}, target {:?}", c.src, lv.len(), c.tgt),
                        format!("returned {}", ct_meta(&r)),
                    )
                }
            },
            Expect::Same => match res {
                Err(p) => obs_class = format!("refused-equal:{}", panic_class(&p)),
                Ok(r) => {
                    if let Some(d) = ct_diff(&r, &src.ct) {
                        return CaseOut::fail(
                            cx.key(&rel, &format!("not-identity:{d}")),
                            format!("the operand unchanged ({})", ct_meta(&src.ct)),
                            ct_meta(&r),
                        );
                    }
                    obs_class = "identity".into();
                    meaningful += 1;
                }
            },
            Expect::Down(to) => {
                // reference: composition of single-level `_new` steps + model state
                let mut nz = src.nz;
                let mut scale_edge = false;
                for l in c.src..*to {
                    if rescale {
                        nz = model.rescale(&nz, &lv[l], &lv[l + 1]);
                    } else {
                        if scheme == Scheme::CKKS && !scale_fits(nz.scale, &lv[l + 1]) {
                            scale_edge = true;
                        }
                        nz = model.switch(&nz, &lv[l], &lv[l + 1]);
                    }
                }
                if scale_edge {
                    // the scale does not fit a level on the way: the message cannot survive there (it wraps), so the only way
                    // to "keep the message" is the documented refusal; an accepted switch is a violation (seeded change C05-D)
                    obs_class = match &res {
                        Err(p) => format!("scale-edge:refused:{}", panic_class(p)),
                        Ok(_) => {
                            return CaseOut::fail(
                                cx.key(&rel, "scale-does-not-fit-the-target-level:accepted"),
                                format!("refused: the scale {:e} does not fit a level between {} and {to}", src.ct.scale(), c.src),
                                "the switch was computed (the message wraps modulo the smaller modulus)",
                            )
                        }
                    };
                    continue;
                }
                let r = match res {
                    Ok(r) => r,
                    Err(p) => {
                        return CaseOut::fail(
                            cx.key(&rel, &format!("panic:{}", panic_class(&p))),
                            format!("accepted: source level {} -> level {to} of {}, size {}", c.src, lv.len(), c.size),
                            p,
                        )
                    }
                };
                if *r.parms_id() != lv[*to].id {
                    let at = lv.iter().position(|l| l.id == *r.parms_id());
                    return CaseOut::fail(cx.key(&rel, "wrong-level"), format!("result on level {to}"), format!("result on level {at:?}; {}", ct_meta(&r)));
                }
                let mut reference = src.ct.clone();
                for _ in c.src..*to {
                    let step = guard(|| if rescale { kit.eval.rescale_to_next_new(&reference) } else { kit.eval.mod_switch_to_next_new(&reference) });
                    steps += 1;
                    reference = match step {
                        Ok(x) => x,
                        Err(p) => {
                            return CaseOut::fail(
                                cx.key(&rel, &format!("reference-step-panic:{}", panic_class(&p))),
                                "every single-level step towards the target is accepted",
                                p,
                            )
                        }
                    };
                }
                if let Some(d) = ct_diff(&r, &reference) {
                    return CaseOut::fail(
                        cx.key(&rel, &format!("forms-differ:{d}")),
                        format!("byte-identical to the composition of single-level _new steps: {}", ct_meta(&reference)),
                        ct_meta(&r),
                    );
                }
                // predicted metadata
                let exp_ntt = scheme != Scheme::BFV;
                let exp_scale = if scheme == Scheme::CKKS { nz.scale } else { 1.0 };
                let exp_cf = if scheme == Scheme::BGV { nz.cf } else { 1 };
                if r.size() != c.size || r.is_ntt_form() != exp_ntt || r.coeff_modulus_size() != lv[*to].q.len() || r.poly_modulus_degree() != c.spec.n {
                    return CaseOut::fail(cx.key(&rel, "metadata"), format!("size={} cms={} ntt={}", c.size, lv[*to].q.len(), exp_ntt), ct_meta(&r));
                }
                if r.scale().to_bits() != exp_scale.to_bits() {
                    return CaseOut::fail(
                        cx.key(&rel, "scale"),
                        format!("{:e} (source scale {:e}{})", exp_scale, src.nz.scale, if rescale { " divided by each dropped prime in turn" } else { " unchanged" }),
                        format!("{:e}", r.scale()),
                    );
                }
                if r.correction_factor() != exp_cf {
                    return CaseOut::fail(
                        cx.key(&rel, "correction-factor"),
                        format!("{exp_cf} = {} * prod q_last^-1 mod {}", src.nz.cf, c.spec.t),
                        format!("{}", r.correction_factor()),
                    );
                }
                match guard(|| r.is_valid_for(&kit.ctx)) {
                    Ok(true) => {}
                    Ok(false) => return CaseOut::fail(cx.key(&rel, "invalid-result"), "is_valid_for(context)", ct_meta(&r)),
                    Err(p) => return CaseOut::fail(cx.key(&rel, &format!("valcheck-panic:{}", panic_class(&p))), "is_valid_for(context)", p),
                }
                match judge_message(&cx, &kit, enc.as_ref(), &r, &nz, &src, &rel) {
                    Err(out) => return out,
                    Ok(Some(b)) => {
                        steps += 1;
                            if b <= 0.0625 {
                            meaningful += 1;
                        }
                        obs_class = "accepted:message-judged".into();
                    }
                    Ok(None) => obs_class = "accepted:message-unjudged".into(),
                }
            }
        }
        if matches!(exp, Expect::Refuse(_)) {
            meaningful += 1;
        }
    }
    if std::env::var("VERIF_C05_DEBUG").is_ok() {
        eprintln!("DBG {} {:?} {} size={} {:?} src={} L={} {} {} meaningful={}", sec, scheme, cx.api, c.size, c.prep, c.src, lv.len(), rel, obs_class, meaningful);
    }
    CaseOut::pass(meaningful > 0, h64(&(sec, c.op, c.form, scheme, rel.as_str(), obs_class.as_str(), meaningful > 0)), steps)
}

// ---------------------------------------------------------------------------------------------
// plaintext cases
// ---------------------------------------------------------------------------------------------

fn make_plain(kit: &Kit, enc: Option<&CKKSEncoder>, c: &Case, lv: &Lv, midx: usize, seed: u64) -> Result<(Plaintext, Vec<u64>, Vec<C64>), String> {
    if c.spec.scheme == Scheme::CKKS {
        let m = ckks_messages(midx, c.spec.n / 2, seed).remove(0);
        let scale = (2.0f64).powi(c.scale_log2 as i32);
        let p = guard(|| enc.unwrap().encode_c64_array_new(&m, Some(lv.id), scale))?;
        Ok((p, vec![], m))
    } else {
        let m = exact_messages(midx, c.spec.n, c.spec.t, seed).remove(if midx == 1 { 2 } else { 0 });
        let pt = kit.plain(&m);
        let p = guard(|| kit.eval.transform_plain_to_ntt_new(&pt, &lv.id))?;
        Ok((p, m, vec![]))
    }
}

fn run_pt(c: &Case, seed: u64, sec: &'static str) -> CaseOut {
    he::env_real(seed, h64(&serde_json::to_string(c).unwrap_or_default()));
    let cx = Ctxt { c, sec, api: api_name(c.obj, c.op, c.form) };
    let kit = match guard(|| Kit::new(&c.spec)) {
        Ok(Ok(k)) => k,
        Ok(Err(e)) => return CaseOut::skip(&format!("library rejects the parameter set: {e}")),
        Err(_) => return CaseOut::skip("library rejects the parameter set (panic)"),
    };
    let lv = match chain_levels(&kit) {
        Ok(l) => l,
        Err(e) => return CaseOut::fail(cx.setup_key("chain", "malformed"), "each level drops exactly the last prime of the previous one", e),
    };
    if c.src >= lv.len() || matches!(c.tgt, Tgt::Level(j) if j >= lv.len()) {
        return CaseOut::skip("level outside the chain the library built");
    }
    let scheme = c.spec.scheme;
    let n = c.spec.n;
    let enc = if scheme == Scheme::CKKS { Some(CKKSEncoder::new(kit.ctx.clone())) } else { None };
    let key_id = *kit.ctx.key_parms_id();
    let exp = expect(c, &lv, &key_id);
    let tid = target_id(c, &lv, &key_id);
    let rel = rel_class(&exp, c.src);
    let mut steps = 0u64;
    let mut meaningful = 0u32;
    let mut obs_class = String::new();
    for midx in 0..N_MSG {
        let (src, exact, slots) = match make_plain(&kit, enc.as_ref(), c, &lv[c.src], midx, seed) {
            Ok(x) => x,
            Err(p) => return CaseOut::fail(cx.setup_key("make-plain", &format!("panic:{}", panic_class(&p))), "an NTT-form plaintext on the source level can be created", p),
        };
        // junk destination: a plaintext of another level / message
        let junk = match make_plain(&kit, enc.as_ref(), c, &lv[0], (midx + 1) % N_MSG, seed) {
            Ok(x) => x.0,
            Err(p) => return CaseOut::fail(cx.setup_key("make-plain", &format!("panic:{}", panic_class(&p))), "an NTT-form plaintext on the first level can be created", p),
        };
        let called = call_pt(&kit, c.op, c.form, &src, &tid, &junk);
        let clob = match called.clobbered {
            Some(true) => ":operand-changed",
            Some(false) => ":operand-intact",
            None => "",
        };
        let res = called.res;
        steps += 1;
        match &exp {
            Expect::Refuse(why) => match res {
                Err(p) => {
                    obs_class = format!("refused:{}{clob}", panic_class(&p));
                    meaningful += 1;
                }
                Ok(r) => return CaseOut::fail(cx.key(&rel, "accepted"), format!("refusal ({why}); source level {} of {}, target {:?}", c.src, lv.len(), c.tgt), format!("returned {}", pt_meta(&r))),
            },
            Expect::Same => match res {
                Err(p) => obs_class = format!("refused-equal:{}", panic_class(&p)),
                Ok(r) => {
                    if let Some(d) = pt_diff(&r, &src) {
                        return CaseOut::fail(cx.key(&rel, &format!("not-identity:{d}")), format!("the operand unchanged ({})", pt_meta(&src)), pt_meta(&r));
                    }
                    obs_class = "identity".into();
                    meaningful += 1;
                }
            },
            Expect::Down(to) => {
                let scale_edge = scheme == Scheme::CKKS && (c.src + 1..=*to).any(|l| !scale_fits(src.scale(), &lv[l]));
                if scale_edge {
                    obs_class = match &res {
                        Err(p) => format!("scale-edge:refused:{}", panic_class(p)),
                        Ok(_) => {
                            return CaseOut::fail(
                                cx.key(&rel, "scale-does-not-fit-the-target-level:accepted"),
                                format!("refused: the scale {:e} does not fit a level between {} and {to}", src.scale(), c.src),
                                "the switch was computed (the message wraps modulo the smaller modulus)",
                            )
                        }
                    };
                    continue;
                }
                let r = match res {
                    Ok(r) => r,
                    Err(p) => return CaseOut::fail(cx.key(&rel, &format!("panic:{}", panic_class(&p))), format!("accepted: source level {} -> level {to} of {}", c.src, lv.len()), p),
                };
                if *r.parms_id() != lv[*to].id {
                    let at = lv.iter().position(|l| l.id == *r.parms_id());
                    return CaseOut::fail(cx.key(&rel, "wrong-level"), format!("result on level {to}"), format!("result on level {at:?}; {}", pt_meta(&r)));
                }
                // reference: the same message brought to NTT form directly on the target level
                let reference = match make_plain(&kit, enc.as_ref(), c, &lv[*to], midx, seed) {
                    Ok(x) => x.0,
                    Err(p) => return CaseOut::fail(cx.setup_key("make-plain", &format!("panic:{}", panic_class(&p))), "an NTT-form plaintext on the target level can be created", p),
                };
                steps += 1;
                if let Some(d) = pt_diff(&r, &reference) {
                    return CaseOut::fail(
                        cx.key(&rel, &format!("differs-from-direct:{d}")),
                        format!("byte-identical to the plaintext created directly on level {to}: {}", pt_meta(&reference)),
                        pt_meta(&r),
                    );
                }
                match guard(|| r.is_valid_for(&kit.ctx)) {
                    Ok(true) => {}
                    Ok(false) => return CaseOut::fail(cx.key(&rel, "invalid-result"), "is_valid_for(context)", pt_meta(&r)),
                    Err(p) => return CaseOut::fail(cx.key(&rel, &format!("valcheck-panic:{}", panic_class(&p))), "is_valid_for(context)", p),
                }
                // the message itself, independently of the library's transforms
                if scheme == Scheme::CKKS {
                    match guard(|| enc.as_ref().unwrap().decode_new(&r)) {
                        Err(p) => return CaseOut::fail(cx.key(&rel, &format!("decode-panic:{}", panic_class(&p))), "result decodes", p),
                        Ok(d) => {
                            let bound = n as f64 * 1.0 / r.scale() + (2.0f64).powi(-30) * (1.0 + zmax(&slots));
                            let err = d.iter().zip(&slots).map(|(a, b)| (a - b).norm()).fold(0.0, f64::max);
                            if !(err <= bound) {
                                return CaseOut::fail(cx.key(&rel, "wrong-message"), format!("{slots:?} within {bound:.3e}"), format!("{d:?} (error {err:.3e})"));
                            }
                        }
                    }
                } else {
                    let t = c.spec.t;
                    let ctxd = kit.ctx.get_context_data(&lv[*to].id).unwrap();
                    for (i, &q) in lv[*to].q.iter().enumerate() {
                        let lifted: Vec<u64> = exact.iter().map(|&m| if m >= (t + 1) / 2 { ((m % q) + q - (t % q)) % q } else { m % q }).collect();
                        let psi = ctxd.small_ntt_tables()[i].root();
                        let want = naive_ntt(&lifted, psi, q);
                        let got = &r.data()[i * n..(i + 1) * n];
                        if got != &want[..] {
                            return CaseOut::fail(
                                cx.key(&rel, "wrong-message"),
                                format!("component {i} (q={q}) = NTT of the centred lift of {exact:?}: {want:?}"),
                                format!("{got:?}"),
                            );
                        }
                    }
                }
                steps += 1;
                meaningful += 1;
                obs_class = "accepted:message-judged".into();
            }
        }
    }
    if std::env::var("VERIF_C05_DEBUG").is_ok() {
        eprintln!("DBG {} {:?} {} size={} {:?} src={} L={} {} {} meaningful={}", sec, scheme, cx.api, c.size, c.prep, c.src, lv.len(), rel, obs_class, meaningful);
    }
    CaseOut::pass(meaningful > 0, h64(&(sec, c.op, c.form, scheme, rel.as_str(), obs_class.as_str())), steps)
}

// ---------------------------------------------------------------------------------------------
// watchdog
// ---------------------------------------------------------------------------------------------
//
// Inside an E1 run the engine's per-case deadline is the watchdog (it abandons the hung worker, reports the case under
// `hang_key` and stops the section after 12 hangs). `--replay` and the regression replays of `replays_fixed/` execute the
// check on the main thread WITHOUT any deadline, so there the case is run on a helper thread and given up after
// REPLAY_DEADLINE - otherwise re-introducing a non-termination defect would hang the whole check instead of failing it.
// The deadlines are wall-clock and deliberately far above the 3 s one would like (a case takes ~5 ms): with the machine
// oversubscribed (load > 4 x cores, observed while other checks were running) a healthy case was once seen to stall > 3 s.

const ENGINE_DEADLINE: Duration = Duration::from_secs(20);
const REPLAY_DEADLINE: Duration = Duration::from_secs(30);
/// the production-size cases loop over every (source, target, form) of a chain inside one case (up to ~1.2 k calls, or a few
/// hundred calls at N = 8192): tens of milliseconds to about a second when the machine is idle; the deadline allows for a
/// machine that is oversubscribed 100-fold
const WIDE_DEADLINE: Duration = Duration::from_secs(240);

fn run_case(c: &Case, seed: u64, sec: &'static str) -> CaseOut {
    let o = match c.obj {
        Obj::Ct => run_ct(c, seed, sec),
        Obj::Pt => run_pt(c, seed, sec),
    };
    if let (Verdict::Skip(w), true) = (&o.verdict, std::env::var("VERIF_C05_DEBUG").is_ok()) {
        eprintln!("DBGSKIP {} {} {w}", sec, c.spec.label());
    }
    o
}

fn watched(c: &Case, seed: u64, sec: &'static str) -> CaseOut {
    if std::thread::current().name() != Some("main") {
        // engine worker (or determinism self-test thread): the engine watches the clock
        return run_case(c, seed, sec);
    }
    let (tx, rx) = std::sync::mpsc::channel();
    let cc = c.clone();
    let spawned = std::thread::Builder::new().stack_size(64 << 20).spawn(move || {
        heathcliff_thread_init();
        let r = guard(|| run_case(&cc, seed, sec));
        let _ = tx.send(r);
    });
    if let Err(e) = spawned {
        panic!("harness: cannot spawn case thread: {e}");
    }
    match rx.recv_timeout(REPLAY_DEADLINE) {
        Ok(Ok(o)) => o,
        Ok(Err(p)) => CaseOut::fail(format!("unexpected-panic:{}", panic_class(&p)), "no panic outside the guarded subject calls", p),
        Err(std::sync::mpsc::RecvTimeoutError::Timeout) => CaseOut::fail(
            hang_key(c),
            format!("the call returns (deadline {:?}; the whole case takes milliseconds)", REPLAY_DEADLINE),
            "still running at the deadline: non-termination",
        ),
        Err(std::sync::mpsc::RecvTimeoutError::Disconnected) => CaseOut::fail("unexpected-panic:case-thread-died", "case thread reports a result", "channel closed"),
    }
}

// ---------------------------------------------------------------------------------------------
// enumeration
// ---------------------------------------------------------------------------------------------

fn gcd(mut a: u64, mut b: u64) -> u64 {
    while b != 0 {
        (a, b) = (b, a % b);
    }
    a
}

/// (N, prime bit sizes at the key level, special_enc)
fn chain_shapes(thorough: bool) -> Vec<(usize, Vec<usize>, bool)> {
    let mut v: Vec<(usize, Vec<usize>, bool)> = vec![
        (8, vec![40], false),
        (8, vec![40, 40], false),
        (4, vec![36, 36, 36], false),
        (8, vec![59, 59, 59], false),
        (8, vec![30, 35, 40, 45], false),
        (4, vec![45, 40, 35, 30], false),
        (8, vec![40, 40, 40, 40, 40], false),
        (4, vec![50, 30, 50, 30, 50], false),
        (8, vec![40, 40, 40], true),
    ];
    if thorough {
        v.extend([
            (4, vec![30], false),
            (4, vec![30, 30], false),
            (8, vec![30, 30, 30, 30, 30], false),
            (16, vec![40, 40, 40, 40], false),
            (16, vec![59, 50, 40, 30, 59], false),
            (8, vec![59, 59, 59, 59, 59, 59], false),
            (4, vec![40, 40, 40, 40, 40, 40, 40], false),
            (8, vec![30, 36, 42, 48, 54, 59, 59], false),
            (8, vec![59, 54, 48, 42, 36, 30, 59], false),
            (16, vec![36, 36, 36, 36, 36, 36, 36], false),
            (4, vec![45, 45, 45, 45], true),
            (16, vec![30, 40, 50, 59, 59], false),
            (4, vec![59, 20, 59, 20, 59], false),
            (8, vec![25, 25, 25, 25, 25, 25, 25], false),
        ]);
    }
    v.sort_by_key(|(n, b, sp)| (b.len(), *sp, *n));
    v
}

fn specs(thorough: bool) -> Vec<ParamSpec> {
    let mut out = vec![];
    for (n, bits, sp) in chain_shapes(thorough) {
        let q = he::chain(n, &bits);
        for scheme in Scheme::all() {
            let ts: Vec<u64> = if scheme == Scheme::CKKS {
                vec![0]
            } else if thorough {
                vec![17, 64, 257, 3]
            } else {
                vec![17, 64]
            };
            for t in ts {
                let mut s = ParamSpec::new(scheme, n, q.clone(), t);
                s.special_enc = sp;
                out.push(s);
            }
        }
    }
    // plain modulus above the smallest coefficient prime (multi-precision plain lift, t mod q_i reductions in BGV)
    for (n, bits) in [(8usize, vec![20usize, 50, 50, 50])].into_iter().chain(if thorough { vec![(4usize, vec![50usize, 20, 50, 50, 50])] } else { vec![] }) {
        let q = he::chain(n, &bits);
        let small = *q.iter().min().unwrap();
        let mut t = small + 2;
        while q.iter().any(|&p| gcd(p, t) != 1) || t % 2 == 0 {
            t += 1;
        }
        for scheme in [Scheme::BFV, Scheme::BGV] {
            out.push(ParamSpec::new(scheme, n, q.clone(), t));
        }
    }
    out
}

/// data-level prime lists of a specification (model of the chain; the check verifies it against the library)
fn model_levels(s: &ParamSpec) -> Vec<Vec<u64>> {
    let first: Vec<u64> = if s.q.len() == 1 || s.special_enc { s.q.clone() } else { s.q[..s.q.len() - 1].to_vec() };
    (0..first.len()).map(|i| first[..first.len() - i].to_vec()).collect()
}

fn bits_of(q: &[u64]) -> usize {
    BigU::product(q).bits()
}

/// CKKS scale classes of a source: for every level u >= src the largest fresh scale 2^e such that the product scale
/// (and the message) still fits level u -> mod_switch is accepted down to u and refused below
fn ckks_scale_classes(levels: &[Vec<u64>], n: usize, src: usize, size: usize) -> Vec<u32> {
    let k = size.max(2);
    let logn = n.trailing_zeros() as i64;
    let mut v: Vec<u32> = vec![];
    for u in src..levels.len() {
        let bits = bits_of(&levels[u]) as i64;
        let e = (bits - 3 - (k as i64 - 2) * logn) / (k as i64 - 1) - 1;
        let e = e.clamp(2, 200) as u32;
        if !v.contains(&e) {
            v.push(e);
        }
    }
    v
}

fn targets(nlevels: usize) -> Vec<Tgt> {
    let mut v: Vec<Tgt> = (0..nlevels).map(Tgt::Level).collect();
    v.extend([Tgt::Key, Tgt::Zero, Tgt::Foreign]);
    v
}

fn ct_cases(thorough: bool, rescale: bool) -> Vec<Case> {
    let mut out = vec![];
    for spec in specs(thorough) {
        let levels = model_levels(&spec);
        let l = levels.len();
        for size in 2..=4usize {
            for prep in [Prep::MulThenDown, Prep::DownThenMul] {
                if size == 2 && prep == Prep::DownThenMul && spec.scheme != Scheme::CKKS {
                    continue; // identical to MulThenDown
                }
                for src in 0..l {
                    let scales = if spec.scheme == Scheme::CKKS { ckks_scale_classes(&levels, spec.n, src, size) } else { vec![0] };
                    for &scale_log2 in &scales {
                        let (next, to) = if rescale { (Op::RsNext, Op::RsTo) } else { (Op::MsNext, Op::MsTo) };
                        for form in [Form::Inplace, Form::Dest, Form::New] {
                            out.push(Case { spec: spec.clone(), obj: Obj::Ct, op: next, form, size, prep, src, tgt: Tgt::Next, scale_log2 });
                        }
                        for tgt in targets(l) {
                            for form in [Form::Inplace, Form::Dest, Form::New] {
                                out.push(Case { spec: spec.clone(), obj: Obj::Ct, op: to, form, size, prep, src, tgt, scale_log2 });
                            }
                        }
                    }
                }
            }
        }
    }
    out
}

fn pt_cases(thorough: bool) -> Vec<Case> {
    let mut out = vec![];
    for spec in specs(thorough) {
        let levels = model_levels(&spec);
        let l = levels.len();
        for src in 0..l {
            let scales: Vec<u32> = if spec.scheme == Scheme::CKKS {
                let mut v = vec![];
                for u in src..l {
                    let e = (bits_of(&levels[u]) as i64 - 4).clamp(2, 400) as u32;
                    if !v.contains(&e) {
                        v.push(e);
                    }
                }
                v
            } else {
                vec![0]
            };
            for &scale_log2 in &scales {
                for form in [Form::Inplace, Form::Dest, Form::New] {
                    out.push(Case { spec: spec.clone(), obj: Obj::Pt, op: Op::MsNext, form, size: 0, prep: Prep::MulThenDown, src, tgt: Tgt::Next, scale_log2 });
                }
                for tgt in targets(l) {
                    for form in [Form::Inplace, Form::Dest, Form::New] {
                        out.push(Case { spec: spec.clone(), obj: Obj::Pt, op: Op::MsTo, form, size: 0, prep: Prep::MulThenDown, src, tgt, scale_log2 });
                    }
                }
            }
        }
    }
    out
}

// ---------------------------------------------------------------------------------------------
// production-size sections: `long` (2..18 coefficient primes at N = 4 / 8) and `big` (N = 16..8192)
// ---------------------------------------------------------------------------------------------
//
// One case = (parameter set, object kind, switch / rescale, ciphertext size, CKKS scale per source level, message family).
// The check builds the context ONCE and loops over EVERY source level, every target (next, every level, key / zero /
// foreign id) and the three API forms inside, with the same oracle as the sections above: byte identity with the
// composition of single-level `_new` steps (plaintexts: with the object created directly on the target level),
// independently predicted level / size / scale / correction factor, validity, and the decrypted message under the
// a-priori noise calculus. The message families are structured (one dense factor, sparse / monomial other factors) so that
// the reference product stays O(N) per factor at N = 8192.

#[derive(Serialize, Deserialize, Clone, Debug)]
pub struct WideCase {
    pub spec: ParamSpec,
    pub obj: Obj,
    /// false: mod_switch_*; true: rescale_*
    pub rescale: bool,
    /// ciphertext size (2..6, obtained by size-1 real multiplications without relinearisation); 0 for plaintext cases
    pub size: usize,
    /// CKKS: log2 of the scale of the fresh encodings of the source built ON data level s (index s); empty otherwise
    pub scale_log2: Vec<u32>,
    /// message family (0 generic fill, 1 boundary monomials, 2 constant / alternating)
    pub msg: usize,
    /// None: the case loops over every source level; Some(s): only source level s (large parameter sets are split so that a
    /// single case stays far below the deadline)
    #[serde(default)]
    pub src: Option<usize>,
}

fn wide_family(c: &WideCase) -> &'static str {
    match (c.obj, c.rescale) {
        (Obj::Ct, false) => "mod_switch_to*",
        (Obj::Ct, true) => "rescale_to*",
        (Obj::Pt, _) => "mod_switch_plain_to*",
    }
}

fn wide_hang_key(sec: &str, c: &WideCase) -> String {
    format!("{}:{}:{:?}:nontermination", sec, wide_family(c), c.spec.scheme)
}

/// a * b mod (X^n + 1, t), skipping zero coefficients (one factor of every product is sparse)
fn negamul_sparse(a: &[u64], b: &[u64], t: u64) -> Vec<u64> {
    let n = a.len();
    let nb: Vec<(usize, u64)> = b.iter().enumerate().filter(|(_, &y)| y % t != 0).map(|(j, &y)| (j, y % t)).collect();
    let mut out = vec![0u64; n];
    for (i, &x) in a.iter().enumerate() {
        let x = x % t;
        if x == 0 {
            continue;
        }
        for &(j, y) in &nb {
            let p = mul_mod(x, y, t);
            let k = i + j;
            if k < n {
                out[k] = (out[k] + p) % t;
            } else {
                out[k - n] = (out[k - n] + t - p) % t;
            }
        }
    }
    out
}

/// `count` plaintext polynomials (coefficients < t); factor 0 may be dense, every other factor has at most 3 terms
fn wide_exact(fam: usize, count: usize, n: usize, t: u64, seed: u64) -> Vec<Vec<u64>> {
    let nz = |x: u64| if x % t == 0 { 1 } else { x % t };
    (0..count)
        .map(|k| {
            let mut m = vec![0u64; n];
            match (fam, k) {
                (0, 0) => {
                    for (i, v) in m.iter_mut().enumerate() {
                        *v = h64(&(seed, "c05w", i)) % t;
                    }
                }
                (0, _) => {
                    m[0] = nz(h64(&(seed, "c05w0", k)));
                    m[(k * (n / 4).max(1) + 1) % n] = nz(h64(&(seed, "c05w1", k)));
                    m[n - 1] = nz(h64(&(seed, "c05w2", k)));
                }
                (1, 0) => m[n - 1] = t - 1,
                (1, 1) => m[1 % n] = 1,
                (1, 2) => {
                    m[0] = t - 1;
                    m[n / 2] = t / 2;
                }
                (1, 3) => {
                    m[n - 1] = 1;
                    m[0] = 1;
                }
                (1, _) => m[n / 2 + 1] = 2 % t,
                (_, 0) => m = (0..n).map(|i| if i % 2 == 0 { t - 1 } else { t / 2 }).collect(),
                (_, 1) => {
                    m[0] = (t + 1) / 2 % t;
                    m[n - 1] = t / 2;
                }
                (_, _) => m[(k * 3) % n] = t - 1,
            }
            m
        })
        .collect()
}

/// `count` slot vectors with |z| <= ~2.2
fn wide_slots(fam: usize, count: usize, slots: usize, seed: u64) -> Vec<Vec<C64>> {
    (0..count)
        .map(|k| {
            (0..slots)
                .map(|i| match fam {
                    0 => {
                        let f = |tag: u8| (h64(&(seed, "c05wz", k, i, tag)) % 3001) as f64 / 1000.0 - 1.5;
                        C64::new(f(0), f(1))
                    }
                    1 => match k {
                        0 => {
                            if i == 0 {
                                C64::new(1.0, 0.0)
                            } else if i == slots - 1 {
                                C64::new(-1.5, 0.0)
                            } else {
                                C64::new(0.0, 0.0)
                            }
                        }
                        _ => {
                            if i == 0 {
                                C64::new(0.0, 1.0)
                            } else {
                                C64::new(1.0, 0.0)
                            }
                        }
                    },
                    _ => C64::new(((i + k) % 7) as f64 / 4.0 - 0.75, ((3 * i + k) % 5) as f64 / 4.0 - 0.5),
                })
                .collect()
        })
        .collect()
}

struct WideRun<'a> {
    c: &'a WideCase,
    sec: &'static str,
    kit: &'a Kit,
    lv: &'a [Lv],
    enc: Option<&'a CKKSEncoder>,
    key_id: ParmsID,
    seed: u64,
}

fn wide_proto(c: &WideCase) -> Case {
    Case { spec: c.spec.clone(), obj: c.obj, op: Op::MsNext, form: Form::New, size: c.size, prep: Prep::MulThenDown, src: 0, tgt: Tgt::Next, scale_log2: 0 }
}

/// sources of a ciphertext case, one per data level. BFV / BGV: the product of size-1 fresh encryptions on the first level,
/// switched down level by level (so the source on level s carries the correction factor of s switches). CKKS: encoded and
/// encrypted ON level s with the case's scale for that level, multiplied there.
fn wide_sources(w: &WideRun, cx: &Ctxt, model: &Model, srcs: &[usize]) -> Result<Vec<Option<Source>>, CaseOut> {
    let c = w.c;
    let (kit, lv) = (w.kit, w.lv);
    let scheme = c.spec.scheme;
    let n = c.spec.n;
    let k = c.size;
    let setup_panic = |step: &str, p: String| CaseOut::fail(cx.setup_key(step, &format!("panic:{}", panic_class(&p))), format!("{step} succeeds on valid operands"), p);
    let mul_all = |cts: &[Ciphertext], nzs: &[Nz], level: usize| -> Result<(Ciphertext, Nz), CaseOut> {
        let mut acc = cts[0].clone();
        let mut nz = nzs[0];
        for (ct, z) in cts.iter().zip(nzs).skip(1) {
            acc = guard(|| kit.eval.multiply_new(&acc, ct)).map_err(|p| setup_panic("multiply_new", p))?;
            nz = model.mul(&nz, z, &lv[level]);
        }
        Ok((acc, nz))
    };
    let mut out: Vec<Option<Source>> = (0..lv.len()).map(|_| None).collect();
    let last_needed = srcs.iter().copied().max().unwrap_or(0);
    if scheme == Scheme::CKKS {
        let ms = wide_slots(c.msg, k - 1, n / 2, w.seed);
        let mut prod: Vec<C64> = vec![C64::new(1.0, 0.0); n / 2];
        for m in &ms {
            for (a, b) in prod.iter_mut().zip(m) {
                *a *= b;
            }
        }
        for &s in srcs {
            let scale = (2.0f64).powi(c.scale_log2[s] as i32);
            let mut cts = vec![];
            let mut nzs = vec![];
            for m in &ms {
                let pt = guard(|| w.enc.unwrap().encode_c64_array_new(m, Some(lv[s].id), scale)).map_err(|p| setup_panic("encode", p))?;
                cts.push(guard(|| kit.enc.encrypt_new(&pt)).map_err(|p| setup_panic("encrypt", p))?);
                nzs.push(model.fresh(&lv[s], scale, zmax(m)));
            }
            let junk = cts[0].clone();
            let junk = if n <= 64 {
                let pool = crate::he::dirty_destinations(kit);
                let k = (h64(&(serde_json::to_string(c).unwrap_or_default(), s as u64)) % (pool.len() as u64 + 1)) as usize;
                if k < pool.len() { pool[k].clone() } else { junk }
            } else {
                junk
            };
            let (ct, nz) = mul_all(&cts, &nzs, s)?;
            out[s] = Some(Source { ct, nz, junk, exact: vec![], slots: prod.clone() });
        }
    } else {
        let t = c.spec.t;
        let ms = wide_exact(c.msg, k - 1, n, t, w.seed);
        let mut prod = ms[0].clone();
        for m in ms.iter().skip(1) {
            prod = negamul_sparse(&prod, m, t);
        }
        let mut cts = vec![];
        let mut nzs = vec![];
        for m in &ms {
            let pt = kit.plain(m);
            cts.push(guard(|| kit.enc.encrypt_new(&pt)).map_err(|p| setup_panic("encrypt", p))?);
            nzs.push(model.fresh(&lv[0], 1.0, 0.0));
        }
        let junk = cts[0].clone();
        let junk = if n <= 64 {
        let pool = crate::he::dirty_destinations(kit);
        let k = (h64(&(serde_json::to_string(c).unwrap_or_default(), 0u64)) % (pool.len() as u64 + 1)) as usize;
        if k < pool.len() { pool[k].clone() } else { junk }
        } else {
        junk
        };
        let (mut ct, mut nz) = mul_all(&cts, &nzs, 0)?;
        for s in 0..=last_needed {
            if s > 0 {
                ct = guard(|| kit.eval.mod_switch_to_next_new(&ct)).map_err(|p| setup_panic("mod_switch_to_next_new", p))?;
                nz = model.switch(&nz, &lv[s - 1], &lv[s]);
            }
            if srcs.contains(&s) {
                out[s] = Some(Source { ct: ct.clone(), nz, junk: junk.clone(), exact: prod.clone(), slots: vec![] });
            }
        }
    }
    for (s, src) in out.iter().enumerate() {
        let Some(src) = src else { continue };
        if *src.ct.parms_id() != lv[s].id || src.ct.size() != k {
            return Err(CaseOut::fail(
                cx.setup_key("source", "wrong-level-or-size"),
                format!("source of size {k} on level {s}"),
                format!("{} level-match={}", ct_meta(&src.ct), *src.ct.parms_id() == lv[s].id),
            ));
        }
    }
    Ok(out)
}

fn wide_ct(w: &WideRun) -> CaseOut {
    let c = w.c;
    let (kit, lv, sec) = (w.kit, w.lv, w.sec);
    let scheme = c.spec.scheme;
    let nl = lv.len();
    let model = Model { scheme, n: c.spec.n, t: c.spec.t.max(1) };
    let mut pc = wide_proto(c);
    let srcs: Vec<usize> = match c.src {
        None => (0..nl).collect(),
        Some(s) if s < nl => vec![s],
        Some(_) => return CaseOut::skip("source level outside the chain"),
    };
    let sources = {
        let cx = Ctxt { c: &pc, sec, api: String::new() };
        match wide_sources(w, &cx, &model, &srcs) {
            Ok(s) => s,
            Err(out) => return out,
        }
    };
    let (op_next, op_to) = if c.rescale { (Op::RsNext, Op::RsTo) } else { (Op::MsNext, Op::MsTo) };
    let rescale_ok = c.rescale && scheme == Scheme::CKKS;
    let mut tgts = vec![Tgt::Next];
    tgts.extend(targets(nl));

    let mut steps = 0u64;
    let mut meaningful = 0u64;
    let mut classes: std::collections::BTreeSet<String> = Default::default();
    for &s in &srcs {
        let src = sources[s].as_ref().expect("harness: source built for every requested level");
        pc.src = s;
        {
            let cx = Ctxt { c: &pc, sec, api: String::new() };
            if let Err(out) = judge_message(&cx, kit, w.enc, &src.ct, &src.nz, src, "source") {
                return out;
            }
            if scheme == Scheme::BGV && src.ct.correction_factor() != src.nz.cf {
                return CaseOut::fail(
                    cx.setup_key("source", "correction-factor"),
                    format!("{} after {s} single-level switches", src.nz.cf),
                    format!("{}", src.ct.correction_factor()),
                );
            }
            if scheme == Scheme::CKKS && src.ct.scale().to_bits() != src.nz.scale.to_bits() {
                return CaseOut::fail(cx.setup_key("source", "scale"), format!("{:e}", src.nz.scale), format!("{:e}", src.ct.scale()));
            }
        }
        // reference: composition of single-level `_new` steps from the source + model state; stops at the first level
        // the CKKS scale does not fit (plain switching there cannot keep the message: refusal demanded from there on)
        let mut refs: Vec<Option<(Ciphertext, Nz)>> = (0..nl).map(|_| None).collect();
        let mut judged: Vec<bool> = vec![false; nl];
        let mut edge_from: Option<usize> = None;
        if !c.rescale || rescale_ok {
            let mut cur = src.ct.clone();
            let mut nz = src.nz;
            for to in s + 1..nl {
                if !c.rescale && scheme == Scheme::CKKS && !scale_fits(nz.scale, &lv[to]) {
                    edge_from = Some(to);
                    break;
                }
                nz = if c.rescale { model.rescale(&nz, &lv[to - 1], &lv[to]) } else { model.switch(&nz, &lv[to - 1], &lv[to]) };
                let step = guard(|| if c.rescale { kit.eval.rescale_to_next_new(&cur) } else { kit.eval.mod_switch_to_next_new(&cur) });
                steps += 1;
                cur = match step {
                    Ok(x) => x,
                    Err(p) => {
                        return CaseOut::fail(
                            format!("{sec}:{}:{:?}:down1:panic:{}", api_name(Obj::Ct, op_next, Form::New), scheme, panic_class(&p)),
                            format!("accepted: single-level step {} -> {to} of {nl} (chain started on level {s}), size {}", to - 1, c.size),
                            p,
                        )
                    }
                };
                refs[to] = Some((cur.clone(), nz));
            }
        }
        for &tgt in &tgts {
            for form in [Form::Inplace, Form::Dest, Form::New] {
                pc.op = if tgt == Tgt::Next { op_next } else { op_to };
                pc.form = form;
                pc.tgt = tgt;
                let cx = Ctxt { c: &pc, sec, api: api_name(Obj::Ct, pc.op, form) };
                let exp = expect(&pc, lv, &w.key_id);
                let tid = target_id(&pc, lv, &w.key_id);
                let rel = rel_class(&exp, s);
                let res = call_ct(kit, pc.op, form, &src.ct, &tid, &src.junk).res;
                steps += 1;
                let at = || format!("source level {s} of {nl} ({} primes), target {tgt:?}, size {}", lv[s].q.len(), c.size);
                match &exp {
                    Expect::Refuse(why) => match res {
                        Err(_) => {
                            classes.insert(format!("{rel}:refused"));
                            meaningful += 1;
                        }
                        Ok(r) => return CaseOut::fail(cx.key(&rel, "accepted"), format!("refusal ({why}); {}", at()), format!("returned {}", ct_meta(&r))),
                    },
                    Expect::Same => match res {
                        Err(_) => {
                            classes.insert("same:refused-equal".into());
                        }
                        Ok(r) => {
                            if let Some(d) = ct_diff(&r, &src.ct) {
                                return CaseOut::fail(cx.key(&rel, &format!("not-identity:{d}")), format!("the operand unchanged ({}); {}", ct_meta(&src.ct), at()), ct_meta(&r));
                            }
                            classes.insert("same:identity".into());
                            meaningful += 1;
                        }
                    },
                    Expect::Down(to) => {
                        let to = *to;
                        if edge_from.is_some_and(|e| to >= e) {
                            match res {
                                Err(_) => {
                                    classes.insert(format!("{rel}:scale-edge:refused"));
                                    meaningful += 1;
                                }
                                Ok(_) => {
                                    return CaseOut::fail(
                                        cx.key(&rel, "scale-does-not-fit-the-target-level:accepted"),
                                        format!("refused: the scale {:e} does not fit level {}; {}", src.ct.scale(), edge_from.unwrap(), at()),
                                        "the switch was computed (the message wraps modulo the smaller modulus)",
                                    )
                                }
                            }
                            continue;
                        }
                        let r = match res {
                            Ok(r) => r,
                            Err(p) => return CaseOut::fail(cx.key(&rel, &format!("panic:{}", panic_class(&p))), format!("accepted: {}", at()), p),
                        };
                        if *r.parms_id() != lv[to].id {
                            let pos = lv.iter().position(|l| l.id == *r.parms_id());
                            return CaseOut::fail(cx.key(&rel, "wrong-level"), format!("result on level {to}; {}", at()), format!("result on level {pos:?}; {}", ct_meta(&r)));
                        }
                        let (reference, nz) = refs[to].as_ref().expect("harness: reference chain covers every accepted target");
                        if let Some(d) = ct_diff(&r, reference) {
                            return CaseOut::fail(
                                cx.key(&rel, &format!("forms-differ:{d}")),
                                format!("byte-identical to the composition of single-level _new steps: {}; {}", ct_meta(reference), at()),
                                ct_meta(&r),
                            );
                        }
                        let exp_ntt = scheme != Scheme::BFV;
                        let exp_scale = if scheme == Scheme::CKKS { nz.scale } else { 1.0 };
                        let exp_cf = if scheme == Scheme::BGV { nz.cf } else { 1 };
                        if r.size() != c.size || r.is_ntt_form() != exp_ntt || r.coeff_modulus_size() != lv[to].q.len() || r.poly_modulus_degree() != c.spec.n {
                            return CaseOut::fail(cx.key(&rel, "metadata"), format!("size={} cms={} ntt={}; {}", c.size, lv[to].q.len(), exp_ntt, at()), ct_meta(&r));
                        }
                        if r.scale().to_bits() != exp_scale.to_bits() {
                            return CaseOut::fail(
                                cx.key(&rel, "scale"),
                                format!("{:e} (source scale {:e}{}); {}", exp_scale, src.nz.scale, if c.rescale { " divided by each dropped prime in turn" } else { " unchanged" }, at()),
                                format!("{:e}", r.scale()),
                            );
                        }
                        if r.correction_factor() != exp_cf {
                            return CaseOut::fail(
                                cx.key(&rel, "correction-factor"),
                                format!("{exp_cf} = {} * prod q_last^-1 mod {}; {}", src.nz.cf, c.spec.t, at()),
                                format!("{}", r.correction_factor()),
                            );
                        }
                        if judged[to] {
                            continue; // byte-identical to a result that was already validated and decrypted
                        }
                        judged[to] = true;
                        match guard(|| r.is_valid_for(&kit.ctx)) {
                            Ok(true) => {}
                            Ok(false) => return CaseOut::fail(cx.key(&rel, "invalid-result"), format!("is_valid_for(context); {}", at()), ct_meta(&r)),
                            Err(p) => return CaseOut::fail(cx.key(&rel, &format!("valcheck-panic:{}", panic_class(&p))), "is_valid_for(context)", p),
                        }
                        match judge_message(&cx, kit, w.enc, &r, nz, src, &rel) {
                            Err(out) => return out,
                            Ok(Some(b)) => {
                                steps += 1;
                                if b <= 0.0625 {
                                    meaningful += 1;
                                }
                                classes.insert(format!("{rel}:message-judged"));
                            }
                            Ok(None) => {
                                classes.insert(format!("{rel}:message-unjudged"));
                            }
                        }
                    }
                }
            }
        }
    }
    let cl: Vec<&String> = classes.iter().collect();
    CaseOut::pass(meaningful > 0, h64(&(sec, "ct", c.rescale, scheme, c.size, nl, &cl)), steps)
}

fn wide_make_plain(w: &WideRun, level: usize, scale_log2: u32, fam: usize) -> Result<(Plaintext, Vec<u64>, Vec<C64>), String> {
    let c = w.c;
    if c.spec.scheme == Scheme::CKKS {
        let m = wide_slots(fam, 1, c.spec.n / 2, w.seed).remove(0);
        let scale = (2.0f64).powi(scale_log2 as i32);
        let p = guard(|| w.enc.unwrap().encode_c64_array_new(&m, Some(w.lv[level].id), scale))?;
        Ok((p, vec![], m))
    } else {
        let m = wide_exact(fam, 3, c.spec.n, c.spec.t, w.seed).remove(if fam == 1 { 2 } else { 0 });
        let pt = w.kit.plain(&m);
        let p = guard(|| w.kit.eval.transform_plain_to_ntt_new(&pt, &w.lv[level].id))?;
        Ok((p, m, vec![]))
    }
}

fn wide_pt(w: &WideRun) -> CaseOut {
    let c = w.c;
    let (kit, lv, sec) = (w.kit, w.lv, w.sec);
    let scheme = c.spec.scheme;
    let n = c.spec.n;
    let nl = lv.len();
    let mut pc = wide_proto(c);
    let mut tgts = vec![Tgt::Next];
    tgts.extend(targets(nl));
    let mut steps = 0u64;
    let mut meaningful = 0u64;
    let mut classes: std::collections::BTreeSet<String> = Default::default();
    let srcs: Vec<usize> = match c.src {
        None => (0..nl).collect(),
        Some(s) if s < nl => vec![s],
        Some(_) => return CaseOut::skip("source level outside the chain"),
    };
    let mk_fail = |cx: &Ctxt, what: &str, p: String| CaseOut::fail(cx.setup_key("make-plain", &format!("panic:{}", panic_class(&p))), format!("an NTT-form plaintext on {what} can be created"), p);
    for &s in &srcs {
        pc.src = s;
        let sl = if scheme == Scheme::CKKS { c.scale_log2[s] } else { 0 };
        let cx0 = Ctxt { c: &pc, sec, api: String::new() };
        let (src, exact, slots) = match wide_make_plain(w, s, sl, c.msg) {
            Ok(x) => x,
            Err(p) => return mk_fail(&cx0, "the source level", p),
        };
        let junk = match wide_make_plain(w, 0, if scheme == Scheme::CKKS { c.scale_log2[0] } else { 0 }, (c.msg + 1) % 3) {
            Ok(x) => x.0,
            Err(p) => return mk_fail(&cx0, "the first level", p),
        };
        let edge_from: Option<usize> = if scheme == Scheme::CKKS { (s + 1..nl).find(|&l| !scale_fits(src.scale(), &lv[l])) } else { None };
        let mut judged: Vec<bool> = vec![false; nl];
        let mut direct: Vec<Option<Plaintext>> = (0..nl).map(|_| None).collect();
        for &tgt in &tgts {
            for form in [Form::Inplace, Form::Dest, Form::New] {
                pc.op = if tgt == Tgt::Next { Op::MsNext } else { Op::MsTo };
                pc.form = form;
                pc.tgt = tgt;
                let cx = Ctxt { c: &pc, sec, api: api_name(Obj::Pt, pc.op, form) };
                let exp = expect(&pc, lv, &w.key_id);
                let tid = target_id(&pc, lv, &w.key_id);
                let rel = rel_class(&exp, s);
                let res = call_pt(kit, pc.op, form, &src, &tid, &junk).res;
                steps += 1;
                let at = || format!("source level {s} of {nl} ({} primes), target {tgt:?}", lv[s].q.len());
                match &exp {
                    Expect::Refuse(why) => match res {
                        Err(_) => {
                            classes.insert(format!("{rel}:refused"));
                            meaningful += 1;
                        }
                        Ok(r) => return CaseOut::fail(cx.key(&rel, "accepted"), format!("refusal ({why}); {}", at()), format!("returned {}", pt_meta(&r))),
                    },
                    Expect::Same => match res {
                        Err(_) => {
                            classes.insert("same:refused-equal".into());
                        }
                        Ok(r) => {
                            if let Some(d) = pt_diff(&r, &src) {
                                return CaseOut::fail(cx.key(&rel, &format!("not-identity:{d}")), format!("the operand unchanged ({}); {}", pt_meta(&src), at()), pt_meta(&r));
                            }
                            classes.insert("same:identity".into());
                            meaningful += 1;
                        }
                    },
                    Expect::Down(to) => {
                        let to = *to;
                        if edge_from.is_some_and(|e| to >= e) {
                            match res {
                                Err(_) => {
                                    classes.insert(format!("{rel}:scale-edge:refused"));
                                    meaningful += 1;
                                }
                                Ok(_) => {
                                    return CaseOut::fail(
                                        cx.key(&rel, "scale-does-not-fit-the-target-level:accepted"),
                                        format!("refused: the scale {:e} does not fit level {}; {}", src.scale(), edge_from.unwrap(), at()),
                                        "the switch was computed (the message wraps modulo the smaller modulus)",
                                    )
                                }
                            }
                            continue;
                        }
                        let r = match res {
                            Ok(r) => r,
                            Err(p) => return CaseOut::fail(cx.key(&rel, &format!("panic:{}", panic_class(&p))), format!("accepted: {}", at()), p),
                        };
                        if *r.parms_id() != lv[to].id {
                            let pos = lv.iter().position(|l| l.id == *r.parms_id());
                            return CaseOut::fail(cx.key(&rel, "wrong-level"), format!("result on level {to}; {}", at()), format!("result on level {pos:?}; {}", pt_meta(&r)));
                        }
                        if direct[to].is_none() {
                            direct[to] = Some(match wide_make_plain(w, to, sl, c.msg) {
                                Ok(x) => x.0,
                                Err(p) => return mk_fail(&cx, "the target level", p),
                            });
                            steps += 1;
                        }
                        let reference = direct[to].as_ref().unwrap();
                        if let Some(d) = pt_diff(&r, reference) {
                            return CaseOut::fail(
                                cx.key(&rel, &format!("differs-from-direct:{d}")),
                                format!("byte-identical to the plaintext created directly on level {to}: {}; {}", pt_meta(reference), at()),
                                pt_meta(&r),
                            );
                        }
                        if judged[to] {
                            continue;
                        }
                        judged[to] = true;
                        match guard(|| r.is_valid_for(&kit.ctx)) {
                            Ok(true) => {}
                            Ok(false) => return CaseOut::fail(cx.key(&rel, "invalid-result"), format!("is_valid_for(context); {}", at()), pt_meta(&r)),
                            Err(p) => return CaseOut::fail(cx.key(&rel, &format!("valcheck-panic:{}", panic_class(&p))), "is_valid_for(context)", p),
                        }
                        // the message itself, independently of the library's transforms
                        if scheme == Scheme::CKKS {
                            match guard(|| w.enc.unwrap().decode_new(&r)) {
                                Err(p) => return CaseOut::fail(cx.key(&rel, &format!("decode-panic:{}", panic_class(&p))), "result decodes", p),
                                Ok(d) => {
                                    let bound = n as f64 * 1.0 / r.scale() + (2.0f64).powi(-30) * (1.0 + zmax(&slots));
                                    let (mut err, mut worst) = (0.0f64, 0usize);
                                    for (i, (a, b)) in d.iter().zip(&slots).enumerate() {
                                        let e = (a - b).norm();
                                        if !(e <= err) {
                                            err = e;
                                            worst = i;
                                        }
                                    }
                                    if !(err <= bound) {
                                        return CaseOut::fail(
                                            cx.key(&rel, "wrong-message"),
                                            format!("slot {worst} = {:?} within {bound:.3e}; {}", slots.get(worst), at()),
                                            format!("{:?} (error {err:.3e})", d.get(worst)),
                                        );
                                    }
                                }
                            }
                        } else {
                            let t = c.spec.t;
                            let ctxd = kit.ctx.get_context_data(&lv[to].id).unwrap();
                            for (i, &q) in lv[to].q.iter().enumerate() {
                                let lifted: Vec<u64> = exact.iter().map(|&m| if m >= (t + 1) / 2 { ((m % q) + q - (t % q)) % q } else { m % q }).collect();
                                let psi = ctxd.small_ntt_tables()[i].root();
                                let want = fast_ntt(&lifted, psi, q);
                                let got = &r.data()[i * n..(i + 1) * n];
                                if let Some(j) = (0..n).find(|&j| got[j] != want[j]) {
                                    return CaseOut::fail(
                                        cx.key(&rel, "wrong-message"),
                                        format!("component {i} (q={q}) = NTT of the centred lift of the message; first difference at index {j}: {}; {}", want[j], at()),
                                        format!("{}", got[j]),
                                    );
                                }
                            }
                        }
                        steps += 1;
                        meaningful += 1;
                        classes.insert(format!("{rel}:message-judged"));
                    }
                }
            }
        }
    }
    let cl: Vec<&String> = classes.iter().collect();
    CaseOut::pass(meaningful > 0, h64(&(sec, "pt", scheme, nl, &cl)), steps)
}

fn wide_check(c: &WideCase, seed: u64, sec: &'static str) -> CaseOut {
    he::env_real(seed, h64(&serde_json::to_string(c).unwrap_or_default()));
    let pc = wide_proto(c);
    let cx = Ctxt { c: &pc, sec, api: String::new() };
    let scheme = c.spec.scheme;
    let model_chain = model_levels(&c.spec);
    // the enumerated parameter sets are valid by construction (distinct NTT-friendly primes of 36..59 bits, t coprime and
    // smaller than every prime, no security level requested; the same shapes are accepted at N <= 16 with <= 7 primes): only
    // a case edited by hand can be outside the domain
    let well_formed = c.spec.n.is_power_of_two()
        && (2..=32768).contains(&c.spec.n)
        && !c.spec.q.is_empty()
        && c.spec.q.len() <= 60
        && c.spec.q.iter().enumerate().all(|(i, &p)| p >> 61 == 0 && p > 4 && crate::refmodel::bigu::is_prime_u64(p) && p % (2 * c.spec.n as u64) == 1 && !c.spec.q[..i].contains(&p))
        && (scheme == Scheme::CKKS || (c.spec.t >= 2 && c.spec.q.iter().all(|&p| p > c.spec.t && gcd(p, c.spec.t) == 1)));
    if !well_formed {
        return CaseOut::skip("parameter set outside the enumerated domain");
    }
    if scheme == Scheme::CKKS && c.scale_log2.len() != model_chain.len() {
        return CaseOut::skip("scale list does not match the chain of the parameter set");
    }
    let kit = match guard(|| Kit::new(&c.spec)) {
        Ok(Ok(k)) => k,
        Ok(Err(e)) => {
            return CaseOut::fail(
                cx.setup_key("context", "rejected"),
                format!("a context (and keys) for N={} and {} distinct NTT-friendly primes: there is nothing to switch otherwise", c.spec.n, c.spec.q.len()),
                e,
            )
        }
        Err(p) => {
            return CaseOut::fail(
                cx.setup_key("context", &format!("panic:{}", panic_class(&p))),
                format!("a context (and keys) for N={} and {} distinct NTT-friendly primes: there is nothing to switch otherwise", c.spec.n, c.spec.q.len()),
                p,
            )
        }
    };
    let lv = match chain_levels(&kit) {
        Ok(l) => l,
        Err(e) => return CaseOut::fail(cx.setup_key("chain", "malformed"), "each level drops exactly the last prime of the previous one", e),
    };
    if lv.len() != model_chain.len() {
        return CaseOut::fail(
            cx.setup_key("chain", "wrong-length"),
            format!("{} data levels (one per prime of the first data level)", model_chain.len()),
            format!("{} data levels", lv.len()),
        );
    }
    if c.obj == Obj::Ct && !(2..=8).contains(&c.size) {
        return CaseOut::skip("ciphertext size outside 2..8");
    }
    let enc = if scheme == Scheme::CKKS { Some(CKKSEncoder::new(kit.ctx.clone())) } else { None };
    let w = WideRun { c, sec, kit: &kit, lv: &lv, enc: enc.as_ref(), key_id: *kit.ctx.key_parms_id(), seed };
    match c.obj {
        Obj::Ct => wide_ct(&w),
        Obj::Pt => wide_pt(&w),
    }
}

/// prime-size pattern of the many-prime chains (mixed sizes: the prime being dropped is sometimes larger, sometimes smaller
/// than the ones that stay)
fn long_bits(len: usize, variant: usize) -> Vec<usize> {
    const PAT: [usize; 9] = [40, 45, 36, 50, 42, 38, 48, 44, 54];
    match variant {
        0 => (0..len).map(|i| PAT[i % PAT.len()]).collect(),
        1 => vec![40; len],
        _ => (0..len).map(|i| PAT[(len - 1 - i) % PAT.len()]).collect(),
    }
}

/// scale exponents per source level: the largest fresh scale whose (size-1)-fold product still fits level min(s+d, last)
fn wide_scales(levels: &[Vec<u64>], n: usize, size: usize, d: usize, plain: bool) -> Vec<u32> {
    let l = levels.len();
    (0..l)
        .map(|s| {
            let u = (s + d).min(l - 1);
            let bits = bits_of(&levels[u]) as i64;
            if plain {
                (bits - 4).clamp(2, 1000) as u32
            } else {
                let k = size.max(2) as i64;
                let logn = n.trailing_zeros() as i64;
                ((bits - 3 - (k - 2) * logn) / (k - 1) - 1).clamp(2, 1000) as u32
            }
        })
        .collect()
}

fn wide_cases(specs: &[ParamSpec], sizes: &[usize], msgs: &[usize], all_d: bool) -> Vec<WideCase> {
    let mut out = vec![];
    for spec in specs {
        let levels = model_levels(spec);
        let l = levels.len();
        let ckks = spec.scheme == Scheme::CKKS;
        // weight of a parameter set: words of one polynomial on the key level. From 8 Ki words on one case = one source level;
        // from 32 Ki words on only sizes <= 3 and two message families (each case still compares all N coefficients).
        let words = spec.n * spec.q.len();
        let split = words >= 8192;
        let heavy = words >= 32768;
        let sizes: Vec<usize> = sizes.iter().copied().filter(|&k| !heavy || k <= 3).collect();
        let msgs: Vec<usize> = msgs.iter().copied().filter(|&m| !heavy || m <= 1).collect();
        let push = |mut c: WideCase, out: &mut Vec<WideCase>| {
            if split {
                for s in 0..l {
                    c.src = Some(s);
                    out.push(c.clone());
                }
            } else {
                out.push(c);
            }
        };
        // distance between the source level and the last level its scale still fits
        let ds: Vec<usize> = if !ckks {
            vec![0]
        } else if all_d {
            (0..l).collect()
        } else {
            let mut v = vec![l - 1, 0, 1, l / 2];
            v.retain(|&d| d < l);
            v.sort();
            v.dedup();
            v
        };
        for &msg in &msgs {
            for &size in &sizes {
                // plain switching
                let mut seen: Vec<Vec<u32>> = vec![];
                for &d in &ds {
                    let sc = if ckks { wide_scales(&levels, spec.n, size, d, false) } else { vec![] };
                    if seen.contains(&sc) {
                        continue;
                    }
                    seen.push(sc.clone());
                    push(WideCase { spec: spec.clone(), obj: Obj::Ct, rescale: false, size, scale_log2: sc, msg, src: None }, &mut out);
                }
                // rescaling: the largest scale of the source level (long runs keep the message) and the smallest one
                if ckks {
                    let mut seen: Vec<Vec<u32>> = vec![];
                    for d in [0, l - 1] {
                        let sc = wide_scales(&levels, spec.n, size, d, false);
                        if seen.contains(&sc) {
                            continue;
                        }
                        seen.push(sc.clone());
                        push(WideCase { spec: spec.clone(), obj: Obj::Ct, rescale: true, size, scale_log2: sc, msg, src: None }, &mut out);
                    }
                } else if size == sizes[0] && msg == msgs[0] {
                    push(WideCase { spec: spec.clone(), obj: Obj::Ct, rescale: true, size, scale_log2: vec![], msg, src: None }, &mut out);
                }
            }
            let mut seen: Vec<Vec<u32>> = vec![];
            for &d in &ds {
                let sc = if ckks { wide_scales(&levels, spec.n, 2, d, true) } else { vec![] };
                if seen.contains(&sc) {
                    continue;
                }
                seen.push(sc.clone());
                push(WideCase { spec: spec.clone(), obj: Obj::Pt, rescale: false, size: 0, scale_log2: sc, msg, src: None }, &mut out);
            }
        }
    }
    out
}

/// distinct NTT-friendly primes of the given bit sizes taken from the MIDDLE of each size range (55..97 % of 2^bits, a
/// different fraction per position) instead of just below the power of two: quotients and products of such primes are not
/// nearly exact in f64, so a scale that is not divided by each dropped prime in turn shows in its last bits
fn chain_mid(n: usize, bits: &[usize]) -> Vec<u64> {
    const PCT: [u64; 9] = [93, 71, 83, 62, 77, 57, 88, 66, 97];
    let step = 2 * n as u64;
    let mut out: Vec<u64> = vec![];
    for (i, &b) in bits.iter().enumerate() {
        let mut x = ((1u64 << b) / 100 * PCT[i % PCT.len()]) / step * step + 1;
        while !crate::refmodel::bigu::is_prime_u64(x) || out.contains(&x) {
            x -= step;
        }
        assert!(x >> (b - 1) == 1, "harness: no {b}-bit prime = 1 mod {step} below the starting point");
        out.push(x);
    }
    out
}

/// shapes are (N, prime bit sizes at the key level, special_enc, primes from the middle of the size range)
fn wide_specs(shapes: &[(usize, Vec<usize>, bool, bool)], ts: &[u64]) -> Vec<ParamSpec> {
    let mut out = vec![];
    for (n, bits, sp, mid) in shapes {
        let q = if *mid { chain_mid(*n, bits) } else { he::chain(*n, bits) };
        for scheme in Scheme::all() {
            let tl: Vec<u64> = if scheme == Scheme::CKKS { vec![0] } else { ts.to_vec() };
            for t in tl {
                let mut s = ParamSpec::new(scheme, *n, q.clone(), t);
                s.special_enc = *sp;
                out.push(s);
            }
        }
    }
    out
}

/// many coefficient primes at tiny degree: key levels of 2..18 primes (one with 19), N alternating 4 / 8
fn long_shapes(thorough: bool) -> Vec<(usize, Vec<usize>, bool, bool)> {
    let mut v = vec![];
    for len in 2..=18usize {
        let ns: Vec<usize> = if thorough { vec![4, 8] } else { vec![if len % 2 == 0 { 4 } else { 8 }] };
        for n in ns {
            v.push((n, long_bits(len, 0), false, true));
            if thorough {
                v.push((n, long_bits(len, 0), false, false));
                v.push((n, long_bits(len, 1), false, false));
                v.push((n, long_bits(len, 2), false, true));
            }
        }
    }
    // first data level = key level: sources with 9, 17 and 18 primes
    v.push((8, long_bits(9, 0), true, true));
    v.push((4, long_bits(17, 0), true, false));
    v.push((4, long_bits(18, 0), true, true));
    v.push((8, long_bits(19, 0), false, true));
    v
}

/// production degrees with short chains + the (N >= 1024, more than 8 primes) corner
fn big_shapes(thorough: bool) -> Vec<(usize, Vec<usize>, bool, bool)> {
    let mut v = vec![
        (16, vec![40, 45, 50], false, false),
        (32, vec![45, 36, 50, 40], false, false),
        (64, vec![50, 40, 45], false, true),
        (128, vec![40, 50, 45, 50], false, false),
        (256, vec![50, 45, 40], false, false),
        (512, vec![45, 50, 40, 50], false, true),
        (1024, vec![50, 40, 50, 45], false, false),
        (1024, long_bits(10, 0), false, false),
        (4096, vec![50, 45, 50, 55], false, false),
    ];
    if thorough {
        v.extend([
            (128, vec![59, 59, 59], false, false),
            (256, vec![40, 40, 40, 40], true, false),
            (1024, long_bits(17, 0), false, false),
            (2048, vec![45, 50, 40, 50], false, true),
            (2048, long_bits(9, 0), true, false),
            (4096, long_bits(10, 0), false, false),
            (4096, long_bits(18, 0), false, false),
            (8192, vec![55, 45, 50, 55], false, false),
            (8192, long_bits(10, 0), false, false),
        ]);
    }
    v
}

pub fn sections(cfg: &RunCfg) -> Vec<Box<dyn AnySection>> {
    let seed = cfg.seed;
    let thorough = cfg.thorough();
    let lmax = if thorough { 6 } else { 4 };
    let bound = |what: &str| {
        format!(
            "{what}: chains with 1..{lmax} data levels (prime-size patterns equal / ascending / descending / mixed, 20..59 bits, N in {{4,8{}}}), BFV+BGV (t in {{17,64{}}}, t>q_0) and CKKS; \
             all ordered (source, target) pairs + key / zero / foreign ids; every API form; 3 message tuples per case",
            if thorough { ",16" } else { "" },
            if thorough { ",257,3" } else { "" }
        )
    };
    let mut v: Vec<Box<dyn AnySection>> = vec![];
    v.push(
        E1::new(
            "ct_mod_switch",
            &bound("ciphertext sizes 2..4 (two preparation orders), mod_switch_to_next* / mod_switch_to*, CKKS scale classes per reachable level"),
            ct_cases(thorough, false).into_iter(),
            move |c: &Case| watched(c, seed, "ct_mod_switch"),
        )
        .deadline(ENGINE_DEADLINE)
        .hang_key(hang_key),
    );
    v.push(
        E1::new(
            "ct_rescale",
            &bound("ciphertext sizes 2..4 (two preparation orders), rescale_to_next* / rescale_to*, CKKS scale classes per reachable level"),
            ct_cases(thorough, true).into_iter(),
            move |c: &Case| watched(c, seed, "ct_rescale"),
        )
        .deadline(ENGINE_DEADLINE)
        .hang_key(hang_key),
    );
    v.push(
        E1::new(
            "plain_mod_switch",
            &bound("NTT-form plaintexts, mod_switch_to_next_plain* / mod_switch_plain_to*"),
            pt_cases(thorough).into_iter(),
            move |c: &Case| watched(c, seed, "plain_mod_switch"),
        )
        .deadline(ENGINE_DEADLINE)
        .hang_key(hang_key),
    );

    // production sizes
    let long_sizes: Vec<usize> = vec![2, 3, 4, 5, 6];
    let long_ts: Vec<u64> = if thorough { vec![17, 64, 257] } else { vec![17, 64] };
    let long_msgs: Vec<usize> = if thorough { vec![0, 1, 2] } else { vec![0, 1] };
    let mut long = wide_cases(&wide_specs(&long_shapes(thorough), &long_ts), &long_sizes, &long_msgs, thorough);
    long.sort_by_key(|c| (c.spec.q.len(), c.spec.n, c.size));
    v.push(
        E1::new(
            "long",
            &format!(
                "many coefficient primes: key levels of 2..19 primes (data levels of 1..18 primes; mixed 36..54-bit sizes, primes from the middle of each size range{}; three chains whose first data level is the key level: 9, 17, 18 primes), \
                  N {}, BFV+BGV (t in {{17,64{}}}) and CKKS; ciphertext sizes 2..6 (real multiplications) and NTT-form plaintexts; inside each case EVERY source level x \
                  (next, every level, key / zero / foreign id) x 3 API forms of mod_switch_to* / rescale_to* / mod_switch_plain_to*; CKKS scale per source level = largest one \
                  fitting level s+d, d in {}; {} message families",
                if thorough { ", the same sizes with the primes just below 2^bits, all-40-bit and reversed patterns" } else { "" },
                if thorough { "in {4,8} for every length" } else { "alternating 4 / 8" },
                if thorough { ",257" } else { "" },
                if thorough { "0..last (all)" } else { "{0, 1, half, last}" },
                long_msgs.len()
            ),
            long.into_iter(),
            move |c: &WideCase| wide_check(c, seed, "long"),
        )
        .deadline(WIDE_DEADLINE)
        .hang_key(|c| wide_hang_key("long", c))
        .batch(4),
    );
    let big_sizes: Vec<usize> = if thorough { vec![2, 3, 4] } else { vec![2, 3] };
    let big_ts: Vec<u64> = vec![17, 64];
    let mut big = wide_cases(&wide_specs(&big_shapes(thorough), &big_ts), &big_sizes, &[0, 1, 2], false);
    big.sort_by_key(|c| (c.spec.n * c.spec.q.len(), c.size));
    v.push(
        E1::new(
            "big",
            &format!(
                "production degrees: N in {{16,32,64,128,256,512,1024,4096{}}} with chains of 3..4 primes (40..59 bits) and the many-prime corners N=1024 x 10{} primes, \
                  BFV+BGV (t in {{17,64}}) and CKKS; ciphertext sizes 2..{} and NTT-form plaintexts; inside each case every source level x (next, every level, key / zero / foreign id) \
                  x 3 API forms; CKKS scale classes d in {{0, 1, half, last}}; 3 structured message families (dense generic fill x sparse factors, boundary monomials, constant / alternating), \
                  all N coefficients / N/2 slots of every result compared",
                if thorough { ",2048,8192" } else { "" },
                if thorough { " / 17, N=2048 x 9, N=4096 x 10 / 18, N=8192 x 10" } else { "" },
                if thorough { 4 } else { 3 }
            ),
            big.into_iter(),
            move |c: &WideCase| wide_check(c, seed, "big"),
        )
        .deadline(WIDE_DEADLINE)
        .hang_key(|c| wide_hang_key("big", c))
        .batch(1),
    );
    v
}
