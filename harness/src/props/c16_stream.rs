//! C16 (a): the seeded byte stream of `BlakeRNG` against the independent blake3 recomputation.

use crate::engine::*;
use crate::refmodel::blakestream::*;
use heathcliff::util::{BlakeRNG, PRNGSeed};
use rand::{RngCore, SeedableRng};
use serde::{Deserialize, Serialize};

#[derive(Serialize, Deserialize, Clone, Copy, Debug, PartialEq, Eq, Hash)]
pub enum SeedSpec {
    Zero,
    /// every byte 0x01
    Ones,
    /// every byte 0xFF
    FF,
    /// single set bit i (byte i/8, bit i%8), i < 512
    Bit(u16),
}

impl SeedSpec {
    pub fn bytes(self) -> [u8; 64] {
        match self {
            SeedSpec::Zero => [0; 64],
            SeedSpec::Ones => [1; 64],
            SeedSpec::FF => [0xFF; 64],
            SeedSpec::Bit(i) => {
                let mut s = [0u8; 64];
                s[(i / 8) as usize] = 1 << (i % 8);
                s
            }
        }
    }
    pub fn base() -> Vec<SeedSpec> {
        vec![SeedSpec::Zero, SeedSpec::Ones, SeedSpec::FF]
    }
    pub fn all() -> Vec<SeedSpec> {
        let mut v = Self::base();
        v.extend((0..512).map(SeedSpec::Bit));
        v
    }
    pub fn rng(self) -> BlakeRNG {
        BlakeRNG::from_seed(PRNGSeed(self.bytes()))
    }
}

pub const ALPHA: [usize; 9] = [1, 2, 3, 5, 8, 64, 4095, 4096, 4097];
const BIG: [usize; 4] = [64, 4095, 4096, 4097];

#[derive(Serialize, Deserialize, Clone, Debug)]
pub enum Family {
    /// all compositions over {64,4095,4096,4097} with total <= limit
    Big,
    /// all sequences over the full alphabet of length <= depth, first chunk ALPHA[first], total <= limit
    Depth { depth: usize, first: usize },
    /// prefix (every sequence of length <= pre over the full alphabet) then ALPHA[rep] repeated while total <= limit
    Periodic { pre: usize, rep: usize },
    /// every offset p (reached by one read of p bytes) followed by one read of ALPHA[chunk], p + chunk <= limit
    Trans { chunk: usize },
}

#[derive(Serialize, Deserialize, Clone, Debug)]
pub struct ChunkCase {
    pub seed: SeedSpec,
    pub family: Family,
    pub limit: usize,
}

struct Runner {
    spec: SeedSpec,
    big: Vec<u8>,
    buf: Vec<u8>,
    runs: u64,
    steps: u64,
    nodes: u64,
    crossed: bool,
}

impl Runner {
    /// executes one chunking on a fresh generator; Err((chunks so far, offset, chunk)) on mismatch
    fn run(&mut self, seq: &[usize], tail: Option<usize>, limit: usize) -> Result<(), (String, String, String)> {
        let mut g = self.spec.rng();
        let mut off = 0usize;
        let mut idx = 0usize;
        loop {
            let c = if idx < seq.len() {
                seq[idx]
            } else if let Some(t) = tail {
                if off + t > limit {
                    break;
                }
                t
            } else {
                break;
            };
            idx += 1;
            g.fill_bytes(&mut self.buf[..c]);
            self.steps += 1;
            if self.buf[..c] != self.big[off..off + c] {
                let first = (0..c).find(|&i| self.buf[i] != self.big[off + i]).unwrap();
                return Err((
                    format!("seed {:?} chunks {:?}{} : read #{} of {} bytes at stream offset {}", self.spec, seq, tail.map(|t| format!(" then {t} repeated")).unwrap_or_default(), idx, c, off),
                    format!("byte {} of the read = stream[{}] = {:#04x}", first, off + first, self.big[off + first]),
                    format!("{:#04x}", self.buf[first]),
                ));
            }
            if off / BLOCK != (off + c) / BLOCK {
                self.crossed = true;
            }
            off += c;
        }
        self.runs += 1;
        Ok(())
    }

    fn dfs(&mut self, alpha: &[usize], seq: &mut Vec<usize>, total: usize, depth: usize, limit: usize) -> Result<(), (String, String, String)> {
        // node = one composition; only maximal ones are executed (a prefix is the same computation)
        self.nodes += 1;
        let mut extended = false;
        if seq.len() < depth {
            for &c in alpha {
                if total + c <= limit {
                    extended = true;
                    seq.push(c);
                    self.dfs(alpha, seq, total + c, depth, limit)?;
                    seq.pop();
                }
            }
        }
        if !extended {
            let s = seq.clone();
            self.run(&s, None, limit)?;
        }
        Ok(())
    }
}

pub fn check_chunks(c: &ChunkCase) -> CaseOut {
    let limit = c.limit;
    let seed = c.seed.bytes();
    let mut rs = RefStream::new(seed);
    let reference = rs.prefix(limit);
    // one big read
    let mut big = vec![0u8; limit];
    if let Err(p) = guard(|| c.seed.rng().fill_bytes(&mut big)) {
        return CaseOut::fail(format!("stream:bigread:panic:{}", panic_class(&p)), "no panic", p);
    }
    if big != reference {
        let i = (0..limit).find(|&i| big[i] != reference[i]).unwrap();
        return CaseOut::fail(
            "stream:bigread:differs-from-blake3-recomputation",
            format!("seed {:?}: one read of {limit} bytes equals blake3(seed||counter_le).xof(4096) blocks; byte {i} = {:#04x}", c.seed, reference[i]),
            format!("byte {i} = {:#04x}", big[i]),
        );
    }
    let mut r = Runner { spec: c.seed, big, buf: vec![0u8; 4100], runs: 0, steps: 0, nodes: 0, crossed: false };
    let fam = match &c.family {
        Family::Big => "big",
        Family::Depth { .. } => "depth",
        Family::Periodic { .. } => "periodic",
        Family::Trans { .. } => "trans",
    };
    let res = guard(|| -> Result<(), (String, String, String)> {
        match &c.family {
            Family::Big => r.dfs(&BIG, &mut vec![], 0, usize::MAX, limit),
            Family::Depth { depth, first } => {
                let f = ALPHA[*first];
                if f > limit {
                    return Ok(());
                }
                r.dfs(&ALPHA, &mut vec![f], f, *depth, limit)
            }
            Family::Periodic { pre, rep } => {
                let t = ALPHA[*rep];
                let mut prefixes: Vec<Vec<usize>> = vec![vec![]];
                let mut layer: Vec<Vec<usize>> = vec![vec![]];
                for _ in 0..*pre {
                    let mut next = vec![];
                    for p in &layer {
                        for &a in &ALPHA {
                            let mut q = p.clone();
                            q.push(a);
                            if q.iter().sum::<usize>() <= limit {
                                next.push(q);
                            }
                        }
                    }
                    prefixes.extend(next.iter().cloned());
                    layer = next;
                }
                for p in prefixes {
                    r.nodes += 1;
                    r.run(&p, Some(t), limit)?;
                }
                Ok(())
            }
            Family::Trans { chunk } => {
                let ch = ALPHA[*chunk];
                for p in 0..=limit.saturating_sub(ch) {
                    // reach p with one read (checked), then the transition under test
                    r.nodes += 1;
                    let mut g = r.spec.rng();
                    let mut pre = vec![0u8; p];
                    g.fill_bytes(&mut pre);
                    g.fill_bytes(&mut r.buf[..ch]);
                    r.steps += 2;
                    if pre[..] != r.big[..p] || r.buf[..ch] != r.big[p..p + ch] {
                        return Err((
                            format!("seed {:?}: read of {p} bytes then read of {ch} bytes", r.spec),
                            format!("stream[0..{p}] then stream[{p}..{}]", p + ch),
                            "different bytes".into(),
                        ));
                    }
                    if p / BLOCK != (p + ch) / BLOCK {
                        r.crossed = true;
                    }
                    r.runs += 1;
                }
                Ok(())
            }
        }
    });
    match res {
        Err(p) => CaseOut::fail(format!("stream:chunks:{fam}:panic:{}", panic_class(&p)), "no panic", p),
        Ok(Err((what, exp, obs))) => CaseOut::fail(format!("stream:chunks:{fam}:differs-from-one-big-read"), format!("{what}: {exp}"), obs),
        Ok(Ok(())) => CaseOut::pass(r.crossed, h64(&(fam, r.nodes, r.runs, r.crossed)), r.steps),
    }
}

pub fn chunk_cases(thorough: bool) -> (Vec<ChunkCase>, String) {
    let lim2 = 2 * BLOCK + 64;
    let lim4 = 4 * BLOCK + 64;
    let mut v = vec![];
    let full = |v: &mut Vec<ChunkCase>, s: SeedSpec, depth: usize, pre: usize, limit: usize| {
        v.push(ChunkCase { seed: s, family: Family::Big, limit: lim2 });
        for first in 0..ALPHA.len() {
            v.push(ChunkCase { seed: s, family: Family::Depth { depth, first }, limit });
        }
        for rep in 0..ALPHA.len() {
            v.push(ChunkCase { seed: s, family: Family::Periodic { pre, rep }, limit });
        }
        for chunk in 0..ALPHA.len() {
            v.push(ChunkCase { seed: s, family: Family::Trans { chunk }, limit });
        }
    };
    let rich: Vec<SeedSpec> = {
        let mut r = SeedSpec::base();
        r.extend([0u16, 7, 8, 255, 256, 504, 511].map(SeedSpec::Bit));
        r
    };
    let bound;
    if thorough {
        for &s in &rich {
            full(&mut v, s, 5, 2, lim4);
        }
        for s in SeedSpec::all() {
            if !rich.contains(&s) {
                full(&mut v, s, 3, 1, lim2);
            }
        }
        bound = format!("10 seeds (0^64,1^64,FF^64,e_0,e_7,e_8,e_255,e_256,e_504,e_511): all compositions over {{64,4095,4096,4097}} with total<={lim2}; all sequences of length<=5 over {{1,2,3,5,8,64,4095,4096,4097}} with total<={lim4}; all (prefix of length<=2)+(one chunk size repeated to {lim4}); all (offset p, chunk) pairs p+chunk<={lim4}. remaining 505 single-bit seeds: same families with depth 3 / prefix 1 / limit {lim2}");
    } else {
        for &s in &rich {
            full(&mut v, s, 4, 2, lim2);
        }
        for s in SeedSpec::all() {
            if !rich.contains(&s) {
                v.push(ChunkCase { seed: s, family: Family::Depth { depth: 2, first: 6 }, limit: lim2 });
                v.push(ChunkCase { seed: s, family: Family::Depth { depth: 2, first: 8 }, limit: lim2 });
                v.push(ChunkCase { seed: s, family: Family::Periodic { pre: 0, rep: 3 }, limit: lim2 });
            }
        }
        bound = format!("10 seeds (0^64,1^64,FF^64,e_0,e_7,e_8,e_255,e_256,e_504,e_511): all compositions over {{64,4095,4096,4097}} with total<={lim2}; all sequences of length<=4 over the 9 chunk sizes with total<={lim2}; all (prefix of length<=2)+(one chunk size repeated to {lim2}); all (offset p, chunk) pairs. remaining 505 single-bit seeds: one big read of {lim2} bytes + sequences of length<=2 starting with 4095/4097 + 5-byte reads to the limit");
    }
    (v, bound)
}

// ---------------------------------------------------------------------------------------------
// word reads against the cursor specification
// ---------------------------------------------------------------------------------------------

#[derive(Serialize, Deserialize, Clone, Debug)]
pub struct WordCase {
    pub seed: SeedSpec,
    /// bytes consumed by one fill_bytes before the enumerated operations
    pub prefix: usize,
    pub depth: usize,
}

/// 0 = next_u32, 1 = next_u64, otherwise fill_bytes(n)
const OPS: [usize; 7] = [0, 1, 101, 102, 103, 105, 108];

fn op_name(o: usize) -> String {
    match o {
        0 => "u32".into(),
        1 => "u64".into(),
        n => format!("fill{}", n - 100),
    }
}

pub fn check_words(c: &WordCase) -> CaseOut {
    let mut rs = RefStream::new(c.seed.bytes());
    let mut steps = 0u64;
    let mut skipped_total = 0u64;
    let mut refills = 0u64;
    let mut seq: Vec<usize> = vec![];
    // iterate over all sequences of exactly `depth` operations (every shorter one is a prefix)
    let n = OPS.len();
    let total = n.pow(c.depth as u32);
    let mut buf = [0u8; 8];
    for code in 0..total {
        seq.clear();
        let mut x = code;
        for _ in 0..c.depth {
            seq.push(OPS[x % n]);
            x /= n;
        }
        let r = guard(|| -> Result<(u64, u64), (String, String, String)> {
            let mut g = c.seed.rng();
            let mut cur = Cursor::new();
            let mut pre = vec![0u8; c.prefix];
            g.fill_bytes(&mut pre);
            let e = cur.fill(&mut rs, c.prefix);
            if pre != e {
                return Err(("prefix".into(), "stream prefix".into(), "different bytes".into()));
            }
            let mut skipped = 0u64;
            let mut crossed = 0u64;
            for (k, &o) in seq.iter().enumerate() {
                let before = cur.off;
                let (obs, exp): (u64, u64) = match o {
                    0 => (g.next_u32() as u64, cur.u32(&mut rs) as u64),
                    1 => (g.next_u64(), cur.u64(&mut rs)),
                    m => {
                        let len = m - 100;
                        g.fill_bytes(&mut buf[..len]);
                        let e = cur.fill(&mut rs, len);
                        let mut a = [0u8; 8];
                        a[..len].copy_from_slice(&buf[..len]);
                        let mut b = [0u8; 8];
                        b[..len].copy_from_slice(&e);
                        (u64::from_le_bytes(a), u64::from_le_bytes(b))
                    }
                };
                let width = match o {
                    0 => 4,
                    1 => 8,
                    m => m - 100,
                };
                skipped += (cur.off - before - width) as u64;
                if before / BLOCK != (cur.off - 1) / BLOCK || (before % BLOCK == 0 && before > 0) {
                    crossed += 1;
                }
                if obs != exp && (o == 0 || o == 1) {
                    // Word reads: the property fixes the BYTE output; how next_u32 / next_u64 align themselves in it is a
                    // policy of the implementation. Any policy that returns the little-endian word at an offset less than
                    // 8 bytes past the previous read is admitted; the cursor continues behind that word.
                    let mut found = None;
                    for skip in 0..8usize {
                        let b = rs.bytes(before + skip, width);
                        let mut a = [0u8; 8];
                        a[..width].copy_from_slice(b);
                        if u64::from_le_bytes(a) == obs {
                            found = Some(skip);
                            break;
                        }
                    }
                    if let Some(skip) = found {
                        cur.off = before + skip + width;
                        continue;
                    }
                }
                if obs != exp {
                    return Err((
                        format!("after fill_bytes({}) ops {:?}: op #{} {} at stream offset {}", c.prefix, seq.iter().map(|&o| op_name(o)).collect::<Vec<_>>(), k + 1, op_name(o), before),
                        format!("{exp:#x} (little-endian word at offset {} of the blake3 stream)", cur.off - width),
                        format!("{obs:#x}"),
                    ));
                }
            }
            Ok((skipped, crossed))
        });
        steps += c.depth as u64;
        match r {
            Err(p) => return CaseOut::fail(format!("stream:words:panic:{}", panic_class(&p)), format!("no panic (seed {:?} prefix {} ops {:?})", c.seed, c.prefix, seq), p),
            Ok(Err((what, exp, obs))) => {
                let kind = if what == "prefix" { "prefix" } else { "cursor-model" };
                return CaseOut::fail(format!("stream:words:{kind}:wrong"), format!("seed {:?}: {what}: {exp}", c.seed), obs);
            }
            Ok(Ok((s, x))) => {
                skipped_total += s;
                refills += x;
            }
        }
    }
    CaseOut::pass(skipped_total > 0, h64(&(skipped_total > 0, refills > 0, c.prefix % 8)), steps)
}

pub fn word_cases(thorough: bool) -> (Vec<WordCase>, String) {
    let mut prefixes: Vec<usize> = (0..=16).collect();
    prefixes.extend(4072..=4104);
    prefixes.extend(8168..=8200);
    let depth = if thorough { 5 } else { 4 };
    let seeds: Vec<SeedSpec> = if thorough {
        let mut s = SeedSpec::base();
        s.extend([0u16, 7, 8, 255, 256, 504, 511].map(SeedSpec::Bit));
        s
    } else {
        SeedSpec::base()
    };
    let mut v = vec![];
    for &s in &seeds {
        for &p in &prefixes {
            v.push(WordCase { seed: s, prefix: p, depth });
        }
    }
    (
        v,
        format!(
            "{} seeds x start offsets {{0..16, 4072..4104, 8168..8200}} x ALL sequences of {depth} operations over {{next_u32, next_u64, fill_bytes(1|2|3|5|8)}} against the absolute-offset cursor specification",
            seeds.len()
        ),
    )
}

// ---------------------------------------------------------------------------------------------
// blocks: no repetition within a seed, distinct between seeds
// ---------------------------------------------------------------------------------------------

#[derive(Serialize, Deserialize, Clone, Debug)]
pub struct BlockCase {
    /// None = the cross-seed case (first blocks of all 515 seeds)
    pub seed: Option<SeedSpec>,
    pub blocks: u32,
}

pub fn check_blocks(c: &BlockCase) -> CaseOut {
    match c.seed {
        Some(s) => {
            let seed = s.bytes();
            let mut g = s.rng();
            let mut all: Vec<Vec<u8>> = Vec::with_capacity(c.blocks as usize);
            for _ in 0..c.blocks {
                let mut b = vec![0u8; BLOCK];
                if let Err(p) = guard(|| g.fill_bytes(&mut b)) {
                    return CaseOut::fail(format!("stream:blocks:panic:{}", panic_class(&p)), "no panic", p);
                }
                all.push(b);
            }
            // black-box part first: no block repeats
            let mut idx: Vec<usize> = (0..all.len()).collect();
            idx.sort_by(|&a, &b| all[a].cmp(&all[b]));
            for w in idx.windows(2) {
                if all[w[0]] == all[w[1]] {
                    return CaseOut::fail("stream:blocks:repeat-within-seed", format!("seed {s:?}: blocks pairwise distinct"), format!("blocks {} and {} are equal", w[0].min(w[1]), w[0].max(w[1])));
                }
            }
            for (k, b) in all.iter().enumerate() {
                if *b != ref_block(&seed, k as u64) {
                    return CaseOut::fail(
                        "stream:blocks:differs-from-blake3-recomputation",
                        format!("seed {s:?}: block {k} = blake3(seed || {k} as u64 LE).xof(4096)"),
                        format!("different bytes (first 8: {:02x?})", &b[..8]),
                    );
                }
            }
            CaseOut::pass(true, h64(&("within", c.blocks)), c.blocks as u64)
        }
        None => {
            let seeds = SeedSpec::all();
            let mut firsts: Vec<(Vec<u8>, SeedSpec)> = vec![];
            for s in seeds {
                let mut b = vec![0u8; BLOCK];
                if let Err(p) = guard(|| s.rng().fill_bytes(&mut b)) {
                    return CaseOut::fail(format!("stream:blocks:panic:{}", panic_class(&p)), "no panic", p);
                }
                if b != ref_block(&s.bytes(), 0) {
                    return CaseOut::fail("stream:blocks:differs-from-blake3-recomputation", format!("seed {s:?}: block 0 = blake3(seed || 0u64).xof(4096)"), "different bytes");
                }
                firsts.push((b, s));
            }
            firsts.sort_by(|a, b| a.0.cmp(&b.0));
            for w in firsts.windows(2) {
                if w[0].0 == w[1].0 {
                    return CaseOut::fail("stream:blocks:equal-across-seeds", "first blocks of different seeds differ", format!("{:?} and {:?} give the same first block", w[0].1, w[1].1));
                }
            }
            // also no 64-byte prefix collision (what a stored seed drawn from such a generator would be)
            let mut p64: Vec<&[u8]> = firsts.iter().map(|f| &f.0[..64]).collect();
            p64.sort();
            if p64.windows(2).any(|w| w[0] == w[1]) {
                return CaseOut::fail("stream:blocks:equal-prefix-across-seeds", "first 64 bytes of different seeds differ", "collision");
            }
            CaseOut::pass(true, h64(&"cross"), firsts.len() as u64)
        }
    }
}

pub fn block_cases(thorough: bool) -> (Vec<BlockCase>, String) {
    let mut v = vec![BlockCase { seed: None, blocks: 1 }];
    let _ = thorough;
    for s in SeedSpec::all() {
        v.push(BlockCase { seed: Some(s), blocks: 1 << 12 });
    }
    (v, "first blocks of all 515 listed seeds pairwise distinct; per seed: each of the first 2^12 blocks equals the blake3 recomputation and no two are equal".into())
}
